"""Engine K: runs Kani/CBMC proof harnesses that are compiled inside the real crates of /repo.

Harness sources live in /verif/kani/<crate>/*_proofs.rs and are pulled into the crates by the add-only
`#[cfg(kani)] #[path = "/verif/kani/..."] mod verif_kani_proofs;` hook stanzas.  Each harness carries a
`// @verif key=value ...` annotation line directly above its `#[kani::proof]` attribute.
"""
import fcntl
import glob
import json
import os
import re
import resource
import shlex
import subprocess
import time

from common import CACHE, REPO, REPLAYS, VERIF, Outcome, log, tier

KANI_SRC = os.path.join(VERIF, 'kani')
ACTIVE = os.path.join(REPLAYS, '_active')

ANNOT = re.compile(r'^// @verif (?P<kv>.*)\n(?P<attrs>(?:\s*#\[[^\n]*\]\n)+)\s*(?:pub\s+)?fn (?P<name>\w+)\s*\(', re.M)
KV = re.compile(r'(\w+)=("([^"]*)"|\S+)')


class Harness:
    def __init__(self, crate, proof_file, module, name, kv, attrs):
        self.crate, self.proof_file, self.module, self.name = crate, proof_file, module, name
        self.kv = kv
        self.props = kv.get('props', '').split(',')
        self.tier = kv.get('tier', 'quick')
        self.mem = kv.get('mem', 'light')
        self.bounds = kv.get('bounds', '')
        self.functions = [f for f in kv.get('fn', '').split(',') if f]
        self.stubs = [s for s in kv.get('stubs', '').split(';') if s]
        m = re.search(r'kani::unwind\((\d+)\)', attrs)
        self.unwind = int(m.group(1)) if m else None
        self.known = kv.get('known')          # id of a known finding this harness witnesses (cover-based)
        self.fq = f'{module}::{name}' if module else name


def discover_hooks():
    """Maps each /verif/kani proof file to (crate, module path) by reading the hook stanzas in /repo."""
    out = subprocess.run(['git', '-C', REPO, 'grep', '-n', '#\\[path = "/verif/kani/'], capture_output=True, text=True).stdout
    hooks = {}
    for line in out.splitlines():
        m = re.match(r'([^:]+):\d+:\s*#\[path = "(/verif/kani/[^"]+)"\]', line)
        if not m:
            continue
        rel, proof = m.group(1), m.group(2)
        if not proof.endswith('_proofs.rs'):
            continue
        parts = rel.split('/')
        crate = parts[0]
        i = parts.index('src')
        mods = parts[i + 1:]
        mods[-1] = mods[-1][:-3]
        if mods[-1] in ('lib', 'mod'):
            mods = mods[:-1]
        module = '::'.join(mods + ['verif_kani_proofs'])
        hooks[proof] = (crate, module, rel)
    return hooks


def discover_harnesses():
    hooks = discover_hooks()
    res = []
    for proof, (crate, module, rel) in sorted(hooks.items()):
        if not os.path.exists(proof):
            continue
        text = open(proof).read()
        for m in ANNOT.finditer(text):
            kv = {k: (q if q is not None and v.startswith('"') else v) for k, v, q in KV.findall(m.group('kv'))}
            res.append(Harness(crate, proof, module, m.group('name'), kv, m.group('attrs')))
    return res


def select(prop, t=None):
    t = t or tier()
    hs = [h for h in discover_harnesses() if prop in h.props]
    if t == 'quick':
        hs = [h for h in hs if h.tier == 'quick']
    return hs


def _limit(mem_gb):
    def f():
        lim = int(mem_gb * (1 << 30))
        resource.setrlimit(resource.RLIMIT_AS, (lim, lim))
        os.setsid()
    return f


def _env():
    env = dict(os.environ)
    env['CARGO_NET_OFFLINE'] = 'true'
    env.pop('RUSTFLAGS', None)
    return env


def run_group(crate, harnesses, jobs, timeout_s, mem_gb, tag):
    """Runs one `cargo kani` invocation over the given harnesses of one crate; returns (json|None, stdout, rc)."""
    os.makedirs(CACHE, exist_ok=True)
    out_json = os.path.join(CACHE, f'kani-{crate}-{tag}-{os.getpid()}.json')
    if os.path.exists(out_json):
        os.remove(out_json)
    cmd = ['cargo', 'kani', '--target-dir', os.path.join(CACHE, f'kani-{crate}'),
           '-Z', 'unstable-options', '-Z', 'stubbing', '--harness-timeout', f'{timeout_s}s',
           '--export-json', out_json, '-j', str(jobs), '--output-format', 'terse', '--exact']
    for h in harnesses:
        cmd += ['--harness', h.fq]
    t0 = time.time()
    total_timeout = 600 + timeout_s * (1 + len(harnesses) // max(jobs, 1))
    try:
        p = subprocess.run(cmd, cwd=os.path.join(REPO, crate), env=_env(), capture_output=True, text=True,
                           preexec_fn=_limit(mem_gb), timeout=total_timeout)
        stdout, rc = p.stdout + p.stderr, p.returncode
    except subprocess.TimeoutExpired as e:
        subprocess.run(['pkill', '-9', '-f', 'cbmc'], capture_output=True)
        stdout, rc = (e.stdout or b'').decode(errors='replace') + (e.stderr or b'').decode(errors='replace'), 124
    data = None
    if os.path.exists(out_json):
        try:
            data = json.load(open(out_json))
        except Exception:
            data = None
        os.remove(out_json)
    return data, stdout, rc, time.time() - t0


def _classify(h, data, stdout):
    """Turns Kani's per-harness JSON into an Outcome."""
    o = Outcome(h.name, 'kani')
    o.bounds = h.bounds + (f' unwind={h.unwind}' if h.unwind else '')
    o.functions = h.functions
    o.stubs = h.stubs
    o.obligation = h.kv.get('ob', '')
    res = None
    if data:
        for r in data.get('verification_results', {}).get('results', []):
            if r.get('harness_id') == h.fq:
                res = r
    if res is None:
        o.status = 'inconclusive'
        o.detail = 'no result from Kani for this harness (build error, timeout or out of memory)'
        m = re.search(r'error(\[E\d+\])?:[^\n]*\n[^\n]*', stdout)
        if m:
            o.detail += ': ' + m.group(0).replace('\n', ' ')[:300]
        return o
    o.time_s = res.get('duration_ms', 0) / 1000.0
    for c in data.get('cbmc', []):
        if c.get('harness_id') == h.fq:
            st = c.get('cbmc_stats') or {}
            o.solver_time_s = sum(float(st.get(k) or 0) for k in
                                  ('runtime_symex_s', 'runtime_decision_procedure_s', 'runtime_convert_ssa_s'))
    checks = res.get('checks', [])
    o.queries = 1
    failed, unwind_failed, undetermined, covers_sat, covers_unsat = [], [], [], [], []
    for c in checks:
        st = (c.get('status') or '').lower()
        cat = (c.get('category') or '').lower()
        desc = c.get('description', '')
        if cat == 'cover' or st in ('satisfied', 'unsatisfiable'):
            (covers_sat if st == 'satisfied' else covers_unsat).append(desc)
            continue
        o.checks += 1
        if st == 'failure':
            if cat in ('unwind', 'unwinding') or 'unwinding assertion' in desc:
                unwind_failed.append(desc)
            else:
                loc = c.get('location', {})
                failed.append(f"{desc} @ {os.path.basename(str(loc.get('file')))}:{loc.get('line')}")
        elif st == 'undetermined':
            undetermined.append(desc)
    o.sample = {'covers_satisfied': covers_sat, 'covers_unsatisfiable': covers_unsat,
                'checks_total': len(checks)}
    status = (res.get('status') or '').lower()
    if status == 'timeout' or 'timed out' in str(res.get('error', '')).lower():
        o.status = 'inconclusive'
        o.detail = 'harness timeout'
        return o
    if failed:
        o.status = 'violated'
        o.detail = '; '.join(failed[:4])
    elif unwind_failed:
        o.status = 'inconclusive'
        o.detail = 'unwinding assertion failed (bound too small for this code): ' + '; '.join(unwind_failed[:2])
    elif status != 'success' or undetermined:
        o.status = 'inconclusive'
        o.detail = f'Kani status={status} undetermined={len(undetermined)}'
    elif covers_unsat:
        o.status = 'inconclusive'
        o.detail = 'vacuous: cover not reachable: ' + '; '.join(covers_unsat[:3])
    else:
        o.status = 'holds'
        o.nonvacuous = len(covers_sat) > 0
        if not o.nonvacuous:
            o.status = 'inconclusive'
            o.detail = 'harness has no reachability witness (kani::cover!)'
    return o


# ------------------------------------------------------------------------------------------------------------------
# replay through `cargo kani playback`

def _proof_stems(crate):
    return [os.path.basename(p)[:-len('_proofs.rs')] for p in glob.glob(os.path.join(KANI_SRC, crate, '*_proofs.rs'))]


def _activate(crate, stem, test_src):
    os.makedirs(ACTIVE, exist_ok=True)
    for s in _proof_stems(crate):
        with open(os.path.join(ACTIVE, f'{crate}__{s}.rs'), 'w') as f:
            f.write(test_src if s == stem else '')


def playback(crate, stem, test_src, release=False):
    """Executes generated concrete-playback tests natively. Returns (reproduced: bool|None, output)."""
    os.makedirs(CACHE, exist_ok=True)
    with open(os.path.join(CACHE, 'playback.lock'), 'w') as lock:
        fcntl.flock(lock, fcntl.LOCK_EX)
        _activate(crate, stem, test_src)
        env = _env()
        env['CARGO_TARGET_DIR'] = os.path.join(CACHE, f'kani-playback-{crate}')
        cmd = ['cargo', 'kani', 'playback', '-Z', 'concrete-playback']
        if release:
            cmd += ['--release']
        cmd += ['--', 'kani_concrete_playback', '--test-threads', '1']
        try:
            p = subprocess.run(cmd, cwd=os.path.join(REPO, crate), env=env, capture_output=True, text=True, timeout=1800)
            out = p.stdout + p.stderr
        except subprocess.TimeoutExpired:
            out = 'playback timeout'
        finally:
            _activate(crate, None, '')
    m = re.search(r'test result: (\w+)\. (\d+) passed; (\d+) failed', out)
    if not m:
        return None, out
    return int(m.group(3)) > 0, out


def generate_playback(h, timeout_s, mem_gb):
    cmd = ['cargo', 'kani', '--target-dir', os.path.join(CACHE, f'kani-{h.crate}'),
           '-Z', 'unstable-options', '-Z', 'stubbing', '-Z', 'concrete-playback', '--concrete-playback=print',
           '--harness-timeout', f'{timeout_s}s', '--output-format', 'terse', '--exact', '--harness', h.fq]
    try:
        p = subprocess.run(cmd, cwd=os.path.join(REPO, h.crate), env=_env(), capture_output=True, text=True,
                           preexec_fn=_limit(mem_gb), timeout=timeout_s + 900)
    except subprocess.TimeoutExpired:
        return ''
    out = p.stdout
    tests = re.findall(r'```\n(.*?)```', out, re.S)
    seen, uniq = set(), []
    # the doc comment Kani generates repeats the assertion text, which may span several lines: keep the code only
    tests = [t[t.index('#[test]'):] if '#[test]' in t else t for t in tests]
    for t in tests:
        m = re.search(r'fn (kani_concrete_playback_\w+)\(', t)
        name = m.group(1) if m else t
        if name not in seen:
            seen.add(name)
            uniq.append(t)
    return '\n'.join(uniq)


def confirm_violation(prop, h, o, timeout_s, mem_gb):
    """A failed assertion is reported only if the solver's counterexample reproduces natively."""
    src = generate_playback(h, timeout_s, mem_gb)
    d = os.path.join(REPLAYS, prop)
    os.makedirs(d, exist_ok=True)
    path = os.path.join(d, f'{h.name}.rs')
    stem = os.path.basename(h.proof_file)[:-len('_proofs.rs')]
    header = (f'// replay for property {prop}, harness {h.fq} (crate {h.crate}, proof module {stem})\n'
              f'// failed: {o.detail}\n// run: /verif/check --replay {path}\n')
    with open(path, 'w') as f:
        f.write(header + src)
    if not src.strip():
        o.status = 'inconclusive'
        o.detail = 'assertion failed under CBMC but no concrete playback could be generated: ' + o.detail
        return
    ok, out = playback(h.crate, stem, src)
    with open(path + '.log', 'w') as f:
        f.write(out[-20000:])
    if ok is True:
        o.status = 'violated'
        o.replay = path
    elif ok is False:
        o.status = 'inconclusive'
        o.detail = 'solver counterexample did NOT reproduce natively (encoding/stub problem, not reported): ' + o.detail
        o.replay = path
    else:
        o.status = 'inconclusive'
        o.detail = 'playback could not be executed (see %s.log): %s' % (path, o.detail)
        o.replay = path


def replay_file(path):
    text = open(path).read()
    m = re.search(r'\(crate (\S+), proof module (\S+)\)', text)
    if not m:
        log('not a replay file written by /verif/check')
        return 2
    ok, out = playback(m.group(1), m.group(2), text)
    log(out[-6000:])
    if ok is True:
        log('REPLAY: reproduced (the playback test fails against the current /repo tree)')
        return 1
    if ok is False:
        log('REPLAY: does not reproduce on the current /repo tree')
        return 0
    return 2


# ------------------------------------------------------------------------------------------------------------------

def run_property(prop, quick_timeout=420, thorough_timeout=2400):
    """Runs all Kani harnesses tagged with `prop` for the current tier. Returns list of Outcomes."""
    hs = select(prop)
    t = tier()
    timeout_s = quick_timeout if t == 'quick' else thorough_timeout
    outcomes = []
    by_crate = {}
    for h in hs:
        by_crate.setdefault((h.crate, h.mem), []).append(h)
    for (crate, mem), group in sorted(by_crate.items()):
        jobs, mem_gb = (12, 8) if mem == 'light' else (3, 18)
        if mem == 'medium':
            jobs, mem_gb = 6, 10
        jobs = min(jobs, len(group))
        data, stdout, rc, wall = run_group(crate, group, jobs, timeout_s, max(mem_gb, 16), f'{prop}-{mem}')
        log(f'[{prop}] kani crate={crate} group={mem} harnesses={len(group)} jobs={jobs} wall={wall:.1f}s rc={rc}')
        if data is None:
            errs = re.findall(r'^error[^\n]*\n(?:[^\n]*\n){0,6}', stdout, re.M)
            log('\n'.join(errs[:4]) if errs else stdout[-1500:])
        for h in group:
            o = _classify(h, data, stdout)
            if o.status == 'violated':
                confirm_violation(prop, h, o, timeout_s, max(mem_gb, 16))
            log(f'   {o.status:12s} {h.name} ({o.time_s:.1f}s) {o.detail[:160]}')
            outcomes.append(o)
    return outcomes
