"""Engine M entry point: runs the MIR->SMT obligations registered for a property and converts them to Outcomes."""
import json
import re
import os
import subprocess
import sys
import time

from common import REPLAYS, VERIF, Outcome, log, tier

MIRSMT = os.path.join(VERIF, 'mirsmt')
VT = '/usr/local/bin/python3-vt'


def run_property(prop):
    """The engine needs z3 (tooling venv): it runs as a child process under python3-vt and reports JSON."""
    plan = os.path.join(MIRSMT, 'plan.py')
    if not os.path.exists(plan):
        return []
    out_path = os.path.join(VERIF, '.cache', f'mir-{prop}-{os.getpid()}.json')
    os.makedirs(os.path.dirname(out_path), exist_ok=True)
    env = dict(os.environ)
    env['VERIF_TIER'] = tier()
    env['VERIF_SEED'] = str(os.environ.get('VERIF_SEED', '0'))
    t0 = time.time()
    p = subprocess.run([VT, plan, prop, out_path], cwd=MIRSMT, env=env, capture_output=True, text=True, timeout=7200)
    if p.stdout.strip():
        log(p.stdout.rstrip())
    if not os.path.exists(out_path):
        if 'NO-OBLIGATIONS' in p.stdout:
            return []
        o = Outcome(f'mirsmt[{prop}]', 'mirsmt')
        o.status = 'inconclusive'
        o.detail = 'MIR->SMT engine failed: ' + (p.stderr.strip().splitlines()[-1] if p.stderr.strip() else f'rc={p.returncode}')
        log(p.stderr[-3000:])
        return [o]
    data = json.load(open(out_path))
    os.unlink(out_path)
    outcomes = []
    for r in data['results']:
        o = Outcome(r['name'], 'mirsmt')
        o.status = r['status']
        o.detail = r['detail']
        o.queries = r['queries']
        o.checks = r['claims']
        o.nonvacuous = r['witnesses'] > 0
        o.time_s = r['time']
        o.solver_time_s = r['solver_time']
        o.bounds = r['bounds']
        o.functions = r['functions']
        o.stubs = r.get('env', [])
        o.sample = {'paths': r['paths'], 'witnesses': r['witnesses'], 'counterexample': r.get('counterexample')}
        if o.status == 'violated':
            confirm_violation(prop, o, r)
            if o.status == 'violated':
                match_known_finding(prop, o, r)
        if o.status == 'holds' and not o.nonvacuous:
            o.status, o.detail = 'inconclusive', 'no reachability witness'
        log(f'   {o.status:12s} {o.name} ({o.time_s:.1f}s, {o.queries} queries, {r["paths"]} paths) {o.detail[:200]}')
        outcomes.append(o)
    log(f'[{prop}] mirsmt obligations={len(outcomes)} mir_dump={data.get("dump_s", 0):.1f}s wall={time.time() - t0:.1f}s '
        f'z3_queries={data.get("z3_queries")} cvc5_cross_checks={data.get("cvc5_queries")} disagreements={data.get("disagreements")}')
    return outcomes


def confirm_violation(prop, o, r):
    import mir_replay
    case = r.get('case')
    d = os.path.join(REPLAYS, prop)
    os.makedirs(d, exist_ok=True)
    path = os.path.join(d, re.sub(r'[^A-Za-z0-9_.-]', '-', o.name.replace('[', '_').replace(']', '').replace(',', '_').replace('=', '')) + '.json')
    if not case:
        o.status = 'inconclusive'
        o.detail = 'solver counter-model without a replayable case (not reported): ' + o.detail
        with open(path, 'w') as f:
            json.dump({'obligation': o.name, 'counterexample': r.get('counterexample')}, f, indent=1)
        o.replay = path
        return
    reproduced, why, native = mir_replay.confirm(case)
    with open(path, 'w') as f:
        json.dump({'obligation': o.name, 'property': prop, 'case': case, 'native': native, 'evaluation': why,
                   'how_to_replay': f'/verif/check --replay {path}'}, f, indent=1)
    o.replay = path
    if reproduced is True:
        o.status = 'violated'
        o.detail = f'{o.detail} | native replay: {why}'
    elif reproduced is False:
        o.status = 'inconclusive'
        o.detail = f'solver counterexample did NOT reproduce natively (encoder defect, not reported): {why}'
    else:
        o.status = 'inconclusive'
        o.detail = f'native replay could not run: {why}'


def match_known_finding(prop, o, r):
    """A natively reproduced violation that is listed in /verif/known_findings.json (by property, obligation role and the
    characteristic of the failing input) is reported as KNOWN-FINDING; anything else stays a VIOLATION."""
    from common import load_known_findings
    case = r.get('case') or {}
    for f in load_known_findings().get('findings', []):
        if f.get('property') != prop or not o.name.startswith(f.get('obligation_prefix', '\0')):
            continue
        if f.get('name_contains') and f['name_contains'] not in o.name:
            continue
        cond = f.get('case_condition')
        ok = True
        if cond == 'negative_activity_estimate':
            ok = case.get('kind') == 'fold_order' and min(case.get('activity_estimates', [0])) < 0
        if cond == 'demand_longer_than_8':
            tasks = [t for key in ('pickups', 'deliveries', 'replacements', 'services') for t in ((case.get('job') or {}).get(key) or [])]
            ok = case.get('kind') == 'job_rules' and any(len(t.get('demand') or []) > 8 for t in tasks) and 'panicked' in (o.detail or '')
        if ok:
            o.status = 'known-finding'
            o.detail = f"{f['key']}: {f['what']} [this run: {o.replay}]"
            return
