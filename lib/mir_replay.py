"""Native replay of MIR->SMT counterexamples: the concrete case is executed by /verif/replay (real crates, public API),
the property is re-evaluated on what the real code returned by an independent pure-Python simulation."""
import json
import os
import shutil
import subprocess

from common import CACHE, REPO, VERIF, log

REPLAY_SRC = os.path.join(VERIF, 'replay')
TARGET = os.path.join(CACHE, 'replay-target')
MAXF = 1.7976931348623157e308


def build(profile='dev'):
    shutil.copyfile(os.path.join(REPO, 'Cargo.lock'), os.path.join(REPLAY_SRC, 'Cargo.lock'))
    env = dict(os.environ)
    env['CARGO_NET_OFFLINE'] = 'true'
    # the replay binary is the only build that sees the read-only cache accessors (hook guard reinterpretcat_vrp_verif)
    env['RUSTFLAGS'] = '--cfg reinterpretcat_vrp_verif'
    cmd = ['cargo', 'build', '--offline', '--target-dir', TARGET] + (['--release'] if profile == 'release' else [])
    p = subprocess.run(cmd, cwd=REPLAY_SRC, env=env, capture_output=True, text=True, timeout=3600)
    binary = os.path.join(TARGET, 'release' if profile == 'release' else 'debug', 'verif-replay')
    if p.returncode != 0 or not os.path.exists(binary):
        return None, p.stderr[-3000:]
    return binary, ''


def job_tag_documents(case):
    """writer_tour documents for a job_tag case: one job with two tagged places, the tour uses place `used`."""
    import datetime
    rfc = lambda t: datetime.datetime.fromtimestamp(int(t), datetime.timezone.utc).strftime('%Y-%m-%dT%H:%M:%SZ')
    far = rfc(30 * 86400)
    locs = sorted({p['loc'] for p in case['places']})
    index = {l: i + 1 for i, l in enumerate(locs)}
    n = len(locs) + 1
    places = [{'location': {'index': index[p['loc']]}, 'duration': 0.0, 'times': [[rfc(p['start']), rfc(p['end'])]], **({'tag': 'abcdefgh'[i]} if p.get('tagged', True) else {})} for i, p in enumerate(case['places'])]
    problem = {'plan': {'jobs': [{'id': 'job1', 'services': [{'places': places}]}]},
               'fleet': {'vehicles': [{'typeId': 'type1', 'vehicleIds': ['v1'], 'profile': {'matrix': 'car'}, 'costs': {'fixed': 1.0, 'distance': 1.0, 'time': 1.0},
                                       'shifts': [{'start': {'earliest': rfc(0), 'location': {'index': 0}}, 'end': {'latest': far, 'location': {'index': 0}}}], 'capacity': [10]}],
                         'profiles': [{'name': 'car'}]}}
    return dict(case, kind='writer_tour', problem=problem, matrix={'profile': 'car', 'travelTimes': [0] * (n * n), 'distances': [0] * (n * n)}, order=['job1'],
                place_index={'job1': case['used']})


def match_place_documents(case):
    """init_read documents for a match_place case: one job with two tagged places; the solution document visits it with the tag of place `used`."""
    docs = job_tag_documents(dict(case, kind='job_tag'))
    for i, p in enumerate(case['places']):
        docs['problem']['plan']['jobs'][0]['services'][0]['places'][i]['duration'] = float(p['duration'])
    import datetime
    rfc = lambda t: datetime.datetime.fromtimestamp(int(t), datetime.timezone.utc).strftime('%Y-%m-%dT%H:%M:%SZ')
    loc_index = docs['problem']['plan']['jobs'][0]['services'][0]['places'][case['used']]['location']
    vs, ve = case['visit']
    times0 = {'driving': 0, 'serving': 0, 'waiting': 0, 'break': 0, 'commuting': 0, 'parking': 0}
    stat = {'cost': 0.0, 'distance': 0, 'duration': 0, 'times': times0}
    stops = [{'location': {'index': 0}, 'time': {'arrival': rfc(0), 'departure': rfc(0)}, 'distance': 0, 'load': [0], 'activities': [{'jobId': 'departure', 'type': 'departure'}]},
             {'location': loc_index, 'time': {'arrival': rfc(vs), 'departure': rfc(ve)}, 'distance': 0, 'load': [0],
              'activities': [{'jobId': 'job1', 'type': 'service', 'jobTag': 'ab'[case['used']], 'time': {'start': rfc(vs), 'end': rfc(ve)}}]},
             {'location': {'index': 0}, 'time': {'arrival': rfc(ve), 'departure': rfc(ve)}, 'distance': 0, 'load': [0], 'activities': [{'jobId': 'arrival', 'type': 'arrival'}]}]
    solution = {'statistic': stat, 'tours': [{'vehicleId': 'v1', 'typeId': 'type1', 'shiftIndex': 0, 'stops': stops, 'statistic': stat}]}
    return dict(docs, kind='init_read', solution=solution)


def checker_assignment_documents(case):
    """checker documents for a checker_assignment case: problem with jobs j0 (two tasks), j1 (one delivery), vehicles v1, v2 with two shifts
    each; solution with two tours and the activity slots of the case."""
    import datetime
    rfc = lambda t: datetime.datetime.fromtimestamp(int(t), datetime.timezone.utc).strftime('%Y-%m-%dT%H:%M:%SZ')
    far = rfc(30 * 86400)
    LIST = {'pickup': 'pickups', 'delivery': 'deliveries'}
    j0 = {'id': 'j0'}
    for i, k in enumerate(case['j0_kinds']):
        j0.setdefault(LIST[k], []).append({'places': [{'location': {'index': 1}, 'duration': 0.0, 'tag': f'j0t{i}'}], 'demand': [1]})
    j1 = {'id': 'j1', 'deliveries': [{'places': [{'location': {'index': 1}, 'duration': 0.0}], 'demand': [1]}]}
    day = 86400
    mk_shift = lambda a, b: {'start': {'earliest': rfc(a), 'location': {'index': 0}}, 'end': {'latest': rfc(b), 'location': {'index': 0}}}
    shifts2 = [mk_shift(0, 10 * day), mk_shift(15 * day, 30 * day)]
    shift = lambda: shifts2.pop(0)
    vehicle = {'typeId': 'type1', 'vehicleIds': ['v1', 'v2'], 'profile': {'matrix': 'car'}, 'costs': {'fixed': 1.0, 'distance': 1.0, 'time': 1.0},
               'shifts': [shift(), shift()], 'capacity': [10]}
    problem = {'plan': {'jobs': [j0, j1]}, 'fleet': {'vehicles': [vehicle], 'profiles': [{'name': 'car'}]}}
    times0 = {'driving': 0, 'serving': 0, 'waiting': 0, 'break': 0, 'commuting': 0, 'parking': 0}
    stat = {'cost': 0.0, 'distance': 0, 'duration': 0, 'times': times0}
    seen_tags = {}

    def tour(vid, shift_index, slots):
        stops = [{'location': {'index': 0}, 'time': {'arrival': rfc(0), 'departure': rfc(0)}, 'distance': 0, 'load': [0], 'activities': [{'jobId': 'departure', 'type': 'departure'}]}]
        for jid, ty in slots:
            a = {'jobId': jid, 'type': ty}
            if jid == 'j0':
                n = seen_tags.get('j0', 0)
                a['jobTag'] = f'j0t{min(n, 1)}'
                seen_tags['j0'] = n + 1
            stops.append({'location': {'index': 1}, 'time': {'arrival': rfc(0), 'departure': rfc(0)}, 'distance': 0, 'load': [0], 'activities': [a]})
        stops.append({'location': {'index': 0}, 'time': {'arrival': rfc(0), 'departure': rfc(0)}, 'distance': 0, 'load': [0], 'activities': [{'jobId': 'arrival', 'type': 'arrival'}]})
        return {'vehicleId': vid, 'typeId': 'type1', 'shiftIndex': shift_index, 'stops': stops, 'statistic': stat}
    slots = [tuple(x) for x in case['slots']]
    tours = [tour('v1', case['shifts'][0], slots[:2]), tour(case['vehicle_2'], case['shifts'][1], [x for x in slots[2:] if x[0] is not None])]
    solution = {'statistic': stat, 'tours': tours}
    if case['unassigned']:
        solution['unassigned'] = [{'jobId': u, 'reasons': [{'code': 'NO_REASON_FOUND', 'description': 'unknown'}]} for u in case['unassigned']]
    return dict(case, kind='checker', group='assignment', rule='assignment_' + case['rule'], problem=problem,
                matrix={'profile': 'car', 'travelTimes': [0] * 4, 'distances': [0] * 4}, solution=solution)


def relation_rules_documents(case):
    """problem + matrix documents for a relation_rules case: jobs j1, j2; vehicle type A = [v1] (one shift), type B = [v2] (two shifts); shift
    properties (break / reload / end) as the case says (default: all present); the relations of the case."""
    import datetime
    rfc = lambda t: datetime.datetime.fromtimestamp(int(t), datetime.timezone.utc).strftime('%Y-%m-%dT%H:%M:%SZ')
    day = 86400
    flags = case.get('shift_flags') or {}

    def shift(key, a, b):
        fl = flags.get(key, {'breaks': True, 'reloads': True, 'end': True})
        doc = {'start': {'earliest': rfc(a), 'location': {'index': 0}}}
        if fl['end']:
            doc['end'] = {'latest': rfc(b), 'location': {'index': 0}}
        if fl['breaks']:
            doc['breaks'] = [{'time': [rfc(a + 3600), rfc(a + 7200)], 'places': [{'duration': 60.0}]}]
        if fl['reloads']:
            doc['reloads'] = [{'location': {'index': 0}, 'duration': 60.0}]
        return doc
    vt = lambda tid, vid, shifts: {'typeId': tid, 'vehicleIds': [vid], 'profile': {'matrix': 'car'}, 'costs': {'fixed': 1.0, 'distance': 1.0, 'time': 1.0}, 'shifts': shifts, 'capacity': [10]}
    vehicles = [vt('typeA', 'v1', [shift('v1/0', 0, 10 * day)]), vt('typeB', 'v2', [shift('v2/0', 0, 10 * day), shift('v2/1', 15 * day, 25 * day)])]
    jobs = [{'id': j, 'deliveries': [{'places': [{'location': {'index': 0}, 'duration': 0.0}], 'demand': [1]}]} for j in ('j1', 'j2')]
    relations = [dict({'type': 'any', 'jobs': r['jobs'], 'vehicleId': r['vehicle']}, **({'shiftIndex': r['shift']} if r['shift'] is not None else {})) for r in case['relations']]
    problem = {'plan': {'jobs': jobs, 'relations': relations}, 'fleet': {'vehicles': vehicles, 'profiles': [{'name': 'car'}]}}
    return dict(case, kind='job_rules', problem=problem, matrix={'profile': 'car', 'travelTimes': [0], 'distances': [0]})


def unassigned_writer_documents(case):
    import datetime
    rfc = lambda t: datetime.datetime.fromtimestamp(int(t), datetime.timezone.utc).strftime('%Y-%m-%dT%H:%M:%SZ')
    day = 86400
    shift = lambda a, b: {'start': {'earliest': rfc(a), 'location': {'index': 0}}, 'end': {'latest': rfc(b), 'location': {'index': 0}}}
    vt = lambda tid, vid, shifts: {'typeId': tid, 'vehicleIds': [vid], 'profile': {'matrix': 'car'}, 'costs': {'fixed': 1.0, 'distance': 1.0, 'time': 1.0}, 'shifts': shifts, 'capacity': [10]}
    vehicles = [vt('typeA', 'v1', [shift(0, 10 * day)]), vt('typeB', 'v2', [shift(0, 10 * day), shift(15 * day, 25 * day)])]
    jobs = [{'id': f'job{i}', 'deliveries': [{'places': [{'location': {'index': 0}, 'duration': 0.0}], 'demand': [1]}]} for i in range(len(case['entries']))]
    return dict(case, problem={'plan': {'jobs': jobs}, 'fleet': {'vehicles': vehicles, 'profiles': [{'name': 'car'}]}}, matrix={'profile': 'car', 'travelTimes': [0], 'distances': [0]})


def read_locks_documents(case):
    import datetime
    rfc = lambda t: datetime.datetime.fromtimestamp(int(t), datetime.timezone.utc).strftime('%Y-%m-%dT%H:%M:%SZ')
    day = 86400
    shift = lambda a, b: {'start': {'earliest': rfc(a), 'location': {'index': 0}}, 'end': {'latest': rfc(b), 'location': {'index': 0}}}
    vt = lambda tid, vid: {'typeId': tid, 'vehicleIds': [vid], 'profile': {'matrix': 'car'}, 'costs': {'fixed': 1.0, 'distance': 1.0, 'time': 1.0},
                           'shifts': [shift(0, 10 * day), shift(15 * day, 25 * day)], 'capacity': [10]}
    jobs = [{'id': f'j{i}', 'deliveries': [{'places': [{'location': {'index': 0}, 'duration': 0.0}], 'demand': [1]}]} for i in range(1, 5)]
    relations = [dict({'type': r['type'], 'jobs': r['jobs'], 'vehicleId': r['vehicle']}, **({'shiftIndex': r['shift']} if r['shift'] is not None else {})) for r in case['relations']]
    problem = {'plan': {'jobs': jobs, 'relations': relations}, 'fleet': {'vehicles': [vt('typeA', 'v1'), vt('typeB', 'v2')], 'profiles': [{'name': 'car'}]}}
    return dict(case, problem=problem, matrix={'profile': 'car', 'travelTimes': [0], 'distances': [0]})


def run_native(case, profile='dev'):
    if case.get('kind') == 'read_locks' and 'problem' not in case:
        case = read_locks_documents(case)
    if case.get('kind') == 'unassigned_writer' and 'problem' not in case:
        case = unassigned_writer_documents(case)
    if case.get('kind') == 'relation_rules':
        case = relation_rules_documents(case)
    if case.get('kind') == 'checker_assignment':
        case = checker_assignment_documents(case)
    if case.get('kind') in ('location_index', 'id_rules'):
        case = dict(case, kind='job_rules')
    if case.get('kind') == 'job_tag':
        case = job_tag_documents(case)
    if case.get('kind') == 'match_place':
        case = match_place_documents(case)
    binary, err = build(profile)
    if binary is None:
        return None, 'replay binary does not build: ' + err
    path = os.path.join(CACHE, f'case-{os.getpid()}.json')
    with open(path, 'w') as f:
        json.dump(case, f)
    p = subprocess.run([binary, path], capture_output=True, text=True, timeout=120)
    os.unlink(path)
    if p.returncode == 3 and 'REPLAY-SETUP-FAILED' in p.stderr:
        return None, 'the scenario could not be set up (not a behaviour of the code under test): ' + p.stderr[-600:]
    if p.returncode != 0:
        return {'panic': p.stderr[-1500:]}, ''
    return json.loads(p.stdout.strip().splitlines()[-1]), ''


# ---- independent reference simulation on concrete values

def val(x):
    return MAXF if x is None else float(x)


def lookup(table, default, a, b):
    for f, t, v in table or []:
        if f == a and t == b:
            return float(v)
    return float(default or 0)


def simulate(case, jobs):
    """-> (arrivals, departures, feasible, total_distance, total_duration, waiting[]) for start + jobs (+ end)"""
    dur = lambda a, b: lookup(case.get('dur'), case.get('dur_default'), a, b)
    dist = lambda a, b: lookup(case.get('dist'), case.get('dist_default'), a, b)
    nodes = [(case['l0'], 0.0, val(case['shift_start']), MAXF)]
    for j in jobs:
        nodes.append((j['loc'], val(j['dur']), val(j['tws']), val(j['twe'])))
    if case.get('closed', True):
        nodes.append((case.get('lend', 0), 0.0, 0.0, val(case['shift_end'])))
    arr, dep = [val(case['dep0'])], [val(case['dep0'])]
    feasible = True
    total_dist = 0.0
    waiting = [0.0]
    for i in range(1, len(nodes)):
        loc, d, tws, twe = nodes[i]
        a = dep[i - 1] + dur(nodes[i - 1][0], loc)
        arr.append(a)
        waiting.append(max(tws - a, 0.0))
        dep.append(max(a, tws) + d)
        total_dist += dist(nodes[i - 1][0], loc)
        if a > twe:
            feasible = False
    return arr, dep, feasible, total_dist, dep[-1] - dep[0], waiting


def reference_caches(case, jobs, arr):
    """Latest arrival and waiting suffix sums by backward recomputation (None for depot activities)."""
    dur = lambda a, b: lookup(case.get('dur'), case.get('dur_default'), a, b)
    closed = case.get('closed', True)
    n = len(jobs) + 1
    la, w = [None] * (n + (1 if closed else 0)), [None] * (n + (1 if closed else 0))
    nxt_la, nxt_loc = (val(case['shift_end']), case.get('lend', 0)) if closed else (MAXF, None)
    wsum = 0.0
    for i in range(len(jobs), 0, -1):
        j = jobs[i - 1]
        if nxt_loc is None or nxt_la == MAXF:
            la_i = val(j['twe'])
        else:
            la_i = min(val(j['twe']), nxt_la - dur(j['loc'], nxt_loc) - val(j['dur']))
        wsum += max(val(j['tws']) - arr[i], 0.0)
        la[i], w[i] = la_i, wsum
        nxt_la, nxt_loc = la_i, j['loc']
    return la, w


def load_profile(case, jobs):
    """Load on board after each job activity and the maximum, for static/dynamic single-dimension demand."""
    if any(j.get('reload') for j in jobs):
        # piecewise: static deliveries of an interval come on board at its first activity (start depot / reload), static
        # pickups leave at its end (reload / end depot)
        r = next(i for i, j in enumerate(jobs) if j.get('reload'))
        profile, carry, first = [], 0, None
        for seg in (jobs[:r], jobs[r:]):
            cur = carry + sum((j.get('demand') or {}).get('sd', 0) for j in seg)
            if first is None:
                first = cur
            for j in seg:
                d = j.get('demand') or {}
                cur += d.get('sp', 0) + d.get('dp', 0) - d.get('sd', 0) - d.get('dd', 0)
                profile.append(cur)
            carry = cur - sum((j.get('demand') or {}).get('sp', 0) for j in seg)
        return first, profile, max([first] + profile)
    start = sum((j.get('demand') or {}).get('sd', 0) for j in jobs)
    cur, peak, profile = start, start, []
    for j in jobs:
        d = j.get('demand') or {}
        cur += d.get('sp', 0) + d.get('dp', 0) - d.get('sd', 0) - d.get('dd', 0)
        peak = max(peak, cur)
        profile.append(cur)
    return start, profile, peak


def total_cost(case, jobs):
    arr, dep, feasible, td, tdur, waiting = simulate(case, jobs)
    vc, dc = case.get('vehicle_costs') or {}, case.get('driver_costs') or {}
    g = lambda c, k: float(c.get(k, 0) or 0)
    if not jobs:
        return 0.0
    cost = 0.0
    for c in (vc, dc):
        cost += g(c, 'fixed') + g(c, 'per_distance') * td + max(g(c, 'per_driving_time'), g(c, 'per_service_time'), g(c, 'per_waiting_time')) * tdur
    return cost


def evaluate(case, native):
    """Re-evaluates the obligation's property on the native observations. -> (violated: bool, explanation)"""
    kind = case.get('kind')
    if native is None:
        return None, 'no native result'
    if 'panic' in native:
        return True, 'the real code panicked: ' + native['panic'][-300:]
    if kind == 'fold_order':
        multi_ = set(case.get('multi_jobs') or [])
        totals = [r + (2 * a if i in multi_ else a) for i, (r, a) in enumerate(zip(case['route_estimates'], case['activity_estimates']))]
        if case.get('pair_costs'):
            totals = [c for row in case['pair_costs'] for c in row]
        best = float(min(totals))
        seen = sorted({(r['threads'], tuple(r['cost']) if r['cost'] else None) for r in native['results']})
        bad = [(t, c) for t, c in seen if c is None or c[0] != best]
        if bad:
            return True, (f'parallel insertion evaluation returned cost {[c for _, c in bad][0]} with {sorted({t for t, _ in bad})} thread(s) although the cheapest '
                          f'(route + activity estimate) over the jobs {totals} is {best}; results by thread count: {seen}')
        return False, f'every thread count returned the minimum {best}'
    if kind == 'reducer':
        import struct

        def key(bits):
            b = int(bits)
            if b >= 1 << 63:
                b -= 1 << 64
            return b ^ 0x7fffffffffffffff if b < 0 else b

        def vec_key(v):
            return [key(x) for x in v] + [0] * (8 - len(v))
        cands = case.get('leaves') or [case['left'], case['right']]
        best = min(vec_key(c) for c in cands)
        w = native.get('winner')
        if w is None:
            return True, 'successes were reduced to a failure'
        if vec_key(w) != best:
            f = lambda v: [struct.unpack('<d', struct.pack('<Q', int(x)))[0] for x in v]
            return True, f'reducer returned cost {f(w)} although the minimum of the candidates {[f(c) for c in cands]} is smaller'
        return False, 'reducer returned the minimal cost vector'
    if kind == 'max_generation':
        g, lim = case['generation'], case['limit']
        e = native['estimate']
        if e == 'NaN' or not (0.0 <= e <= 1.0):
            return True, f'MaxGeneration::estimate(generation={g}, limit={lim}) = {e} is not a number in [0,1]'
        if g >= lim and e != 1.0:
            return True, f'MaxGeneration::estimate(generation={g}, limit={lim}) = {e} although the limit is reached'
        if native['is_termination'] != (g >= lim):
            return True, f"is_termination(generation={g}, limit={lim}) = {native['is_termination']}"
        return False, 'termination math agrees'
    if kind == 'time_aware':
        ms = sorted(case['matrices'], key=lambda m: m['timestamp'])
        cell = case['from'] * case['size'] + case['to']
        q = case['query']
        ts = [m['timestamp'] for m in ms]
        if q in ts:
            i = ts.index(q)
            exp_d, exp_t = ms[i]['distances'][cell], (ms[i]['durations'][cell], ms[i]['durations'][cell])
        elif q < ts[0]:
            exp_d, exp_t = ms[0]['distances'][cell], (ms[0]['durations'][cell],) * 2
        elif q > ts[-1]:
            exp_d, exp_t = ms[-1]['distances'][cell], (ms[-1]['durations'][cell],) * 2
        else:
            i = max(j for j in range(len(ts)) if ts[j] < q)
            exp_d = ms[i]['distances'][cell]
            a, b = ms[i]['durations'][cell], ms[i + 1]['durations'][cell]
            exp_t = (min(a, b), max(a, b))
        if native['distance'] != exp_d:
            return True, f"distance at t={q}: real {native['distance']} vs specified {exp_d} (timestamps {ts})"
        if not (exp_t[0] <= native['duration'] <= exp_t[1]):
            return True, f"duration at t={q}: real {native['duration']} outside specified {exp_t} (timestamps {ts})"
        return False, 'provider agrees with the specification on this case'
    if kind == 'goal_order':
        import struct
        order = native['order']
        fit = [[struct.unpack('<d', struct.pack('<Q', int(x)))[0] for x in layer] for layer in case['fitness']]
        n = len(order)
        for a in range(n):
            if order[a][a] != 0:
                return True, f'cmp(s{a},s{a}) = {order[a][a]} (not reflexive); fitness {fit}'
            for b in range(n):
                if order[a][b] != -order[b][a]:
                    return True, f'cmp(s{a},s{b}) = {order[a][b]} but cmp(s{b},s{a}) = {order[b][a]} (not antisymmetric); fitness {fit}'
                if all(x == x for layer in fit for x in layer):
                    ref = 0
                    for layer in fit:
                        if layer[a] < layer[b]:
                            ref = -1
                            break
                        if layer[a] > layer[b]:
                            ref = 1
                            break
                    if order[a][b] != ref:
                        return True, f'cmp(s{a},s{b}) = {order[a][b]} but the lexicographic order of the fitness vectors is {ref}; fitness {fit}'
        return False, 'real comparison obeys the order laws on this case'
    jobs = case.get('jobs', [])
    if kind == 'sched_state_stats':
        arr, dep, feasible, td, tdur, _ = simulate(case, jobs)
        obs = native['pre']
        for i, (a, d) in enumerate(obs['schedule']):
            if i > 0 and (a != arr[i] or d != dep[i]):
                return True, f'schedule of activity {i}: real ({a},{d}) vs simulation ({arr[i]},{dep[i]})'
        if obs['total_distance'] != td or obs['total_duration'] != tdur:
            return True, f"totals: real ({obs['total_distance']},{obs['total_duration']}) vs simulation ({td},{tdur})"
        ref_la, ref_w = reference_caches(case, jobs, arr)
        for i, (la, w) in enumerate(zip(obs.get('latest_arrival', []), obs.get('waiting', []))):
            if i < len(ref_la) and ref_la[i] is not None:
                if la != ref_la[i]:
                    return True, f'cached latest arrival of activity {i}: real {la} vs recomputation {ref_la[i]}'
                if w != ref_w[i]:
                    return True, f'cached waiting of activity {i}: real {w} vs recomputation {ref_w[i]}'
        return False, 'schedule, totals and the latest-arrival/waiting caches agree with the recomputation'
    if kind == 'deep_copy':
        dc = native.get('deep_copy') or {}
        if dc.get('stale_original') != dc.get('stale_copy') or dc.get('fresh_original') != dc.get('fresh_copy'):
            return True, f'deep_copy changes the stale flag: {dc}'
        if dc.get('copy_schedule') != native['pre']['schedule']:
            return True, 'deep_copy changes the schedules'
        return False, 'copy has the same stale flag and schedules'
    if kind == 'total_cost':
        vc, dc = case.get('vehicle_costs') or {}, case.get('driver_costs') or {}
        g = lambda c, k: float(c.get(k, 0) or 0)
        td, t = float(case['set_total_distance']), float(case['set_total_duration'])
        exp = sum(g(c, 'fixed') + g(c, 'per_distance') * td + max(g(c, 'per_driving_time'), g(c, 'per_service_time'), g(c, 'per_waiting_time')) * t
                  for c in (vc, dc))
        if native.get('total_cost') != exp:
            return True, f"total cost: real {native.get('total_cost')} vs fixed + distance*rate + duration*rate = {exp} (vehicle {vc}, driver {dc}, d={td}, T={t})"
        return False, 'total cost agrees'
    target, leg = case.get('target'), case.get('leg', 0)
    post = jobs[:leg] + [target] + jobs[leg:] if target else jobs
    if kind == 'tw_gate':
        _, _, pre_ok, _, _, _ = simulate(case, jobs)
        _, _, post_ok, _, _, _ = simulate(case, post)
        accepted = native['evaluate_transport'] is None
        if not pre_ok:
            return False, 'pre-tour infeasible in the model (assumption violated): not a counterexample'
        if accepted != post_ok:
            return True, f'evaluate_activity accepted={accepted} but simulation of the tour after insertion says feasible={post_ok}'
        v = native['evaluate_transport']
        if v and v.get('stopped'):
            # `stopped` makes the evaluator abandon this leg's other time windows/places and every later leg
            for q in range(leg, len(jobs) + 1):
                for tgt, label in ((target, 'the same target'), (case.get('target2'), 'another target (other place / time window)')):
                    if tgt is None or (q == leg and tgt is target):
                        continue
                    _, _, ok_q, _, _, _ = simulate(case, jobs[:q] + [tgt] + jobs[q:])
                    if ok_q:
                        return True, f'violation flagged stopped at leg {leg} although position {q} is feasible for {label}'
        return False, 'real evaluation agrees with the simulation'
    if kind == 'estimate_distance' or kind == 'estimate_duration':
        _, _, _, td0, tdur0, _ = simulate(case, jobs)
        _, _, _, td1, tdur1, _ = simulate(case, post)
        if not jobs:
            td0, tdur0 = 0.0, 0.0
        est = native[kind]
        delta = (td1 - td0) if kind == 'estimate_distance' else (tdur1 - tdur0)
        if est != delta:
            return True, f'{kind} quoted {est} but the objective changes by {delta}'
        return False, 'estimate equals realised change'
    if kind == 'estimate_cost':
        est = native['estimate_cost'] + (native['estimate_cost_route'] if True else 0)
        delta = total_cost(case, post) - total_cost(case, jobs)
        _, _, _, _, _, w0 = simulate(case, jobs)
        _, _, _, _, _, w1 = simulate(case, post)
        if any(w > 0 for w in w0 + w1):
            return False, 'waiting present (outside the property)'
        if est != delta:
            return True, f'cost estimate {est} but total cost changes by {delta}'
        return False, 'estimate equals realised change'
    if kind == 'capacity_caches':
        start, profile, _ = load_profile(case, jobs)
        full = [start] + profile + ([profile[-1] if profile else start] if case.get('closed', True) else [])
        loads = native['pre']['loads']
        r = next((i for i, j in enumerate(jobs) if j.get('reload')), None)
        bounds = [(0, len(full) - 1)] if r is None else [(0, r), (r + 1, len(full) - 1)]
        for i, (c, p, f) in enumerate(loads):
            lo, hi = next(b for b in bounds if b[0] <= i <= b[1])
            exp = (full[i], max([0] + full[lo:i + 1]), max(full[i:hi + 1]))
            if (c, p, f) != exp:
                return True, f'load caches at activity {i}: real (current,max_past,max_future)={(c, p, f)} vs recomputation {exp}'
        return False, 'load caches agree with the recomputed profile'
    if kind == 'capacity_gate':
        cap = case.get('capacity')
        _, _, peak0 = load_profile(case, jobs)
        _, _, peak1 = load_profile(case, post)
        accepted = native['evaluate_capacity'] is None
        if peak0 > cap:
            return False, 'pre-tour overloaded in the model: not a counterexample'
        d = (target.get('demand') or {})
        if not any(d.get(k, 0) for k in ('sp', 'dp', 'sd', 'dd')):
            return (not accepted), 'job without demand must be accepted'
        if accepted and peak1 > cap:
            return True, f'capacity gate accepted an insertion after which the load peaks at {peak1} > capacity {cap}'
        return False, 'capacity decision is sound on this case'
    if kind == 'capacity_gate_exact':
        cap = case.get('capacity')
        _, _, peak0 = load_profile(case, jobs)
        _, _, peak1 = load_profile(case, post)
        accepted = native['evaluate_capacity'] is None
        if peak0 > cap:
            return False, 'pre-tour overloaded in the model: not a counterexample'
        if accepted != (peak1 <= cap):
            return True, f'capacity gate accepted={accepted} but the (piecewise) load profile after the insertion peaks at {peak1} with capacity {cap}'
        return False, 'capacity decision is exact on this case'
    if kind == 'reachable':
        dist = lambda a, b: lookup(case.get('dist'), case.get('dist_default'), a, b)
        nodes = [case['l0']] + [j['loc'] for j in jobs] + ([case.get('lend', 0)] if case.get('closed', True) else [])
        legs = [dist(nodes[leg], target['loc'])] + ([dist(target['loc'], nodes[leg + 1])] if leg + 1 < len(nodes) else [])
        accepted = native['evaluate_reachable'] is None
        reachable = all(l >= 0 for l in legs)
        if accepted != reachable:
            return True, f'reachability gate accepted={accepted} but the new legs have distances {legs} (negative = unreachable)'
        return False, 'reachability decision agrees with the matrix'
    if kind == 'limits':
        _, _, _, td1, tdur1, _ = simulate(case, post)
        accepted = native['evaluate_limits'] is None
        ld, lt = case.get('limit_distance'), case.get('limit_duration')
        if accepted and ld is not None and td1 > ld:
            return True, f'limit gate accepted an insertion after which the tour distance is {td1} > limit {ld}'
        if accepted and lt is not None and tdur1 > lt:
            return True, f'limit gate accepted an insertion after which the tour duration is {tdur1} > limit {lt}'
        if not accepted and (ld is None or td1 <= ld) and (lt is None or tdur1 <= lt) and case.get('check_exact'):
            return True, f'limit gate rejected an insertion that keeps distance {td1} and duration {tdur1} within the limits'
        return False, 'limit decision agrees with the simulation'
    if kind == 'simple_objectives':
        for name, r in native.items():
            delta = r['fitness_after'] - r['fitness_before']
            if r['estimate_route'] != delta:
                return True, (f"{name}: quoted route-level estimate {r['estimate_route']} but the objective changes by {delta} "
                              f"({r['fitness_before']} -> {r['fitness_after']}) when the job is assigned to a route with {len(jobs)} jobs")
            if r['estimate_activity'] != 0:
                return True, f"{name}: activity-level estimate {r['estimate_activity']} (expected 0: the objective does not depend on the position)"
        return False, 'estimates equal the objective changes'
    if kind == 'insertion_e2e':
        tasks = case['tasks']
        cap = case.get('capacity')

        def feasible(lst):
            arr, _, ok, _, _, _ = simulate(case, lst)
            if cap is not None:
                _, _, peak = load_profile(case, lst)
                if peak > cap:
                    return False, f'load peaks at {peak} > capacity {cap}'
            return ok, f'arrivals {arr}'
        pre_ok, _ = feasible(jobs)
        if not pre_ok:
            return False, 'pre-tour infeasible in the model (assumption violated): not a counterexample'
        if native.get('success'):
            placed = native['activities']
            if len(placed) != len(tasks):
                return True, f'success with {len(placed)} activities for a job with {len(tasks)} tasks'
            lst = list(jobs)
            last = -1
            for t, a in zip(tasks, placed):
                idx = a['index']
                if idx <= last and last >= 0:
                    return True, f'tasks returned out of order: leg indices {[x["index"] for x in placed]}'
                alts = t.get('alts') or [{'loc': t['loc'], 'dur': t['dur'], 'windows': t.get('windows', [[t['tws'], t['twe']]])}]
                options = [(alt['loc'], val(alt['dur']), val(w[0]), val(w[1])) for alt in alts for w in alt['windows']]
                got = (a['loc'], val(a['dur']), val(a['tws']), val(a['twe']))
                if a['loc'] not in [alt['loc'] for alt in alts]:
                    return True, f'tasks returned in a different order than the job defines: {[x["loc"] for x in placed]}'
                if got not in options:
                    return True, f'the returned activity carries (location, duration, window) = {got}, which is none of the alternatives {options} of its task'
                # the activity is inserted as returned: simulate with the data it carries
                lst.insert(idx, dict(t, loc=a['loc'], dur=a['dur'], tws=a['tws'], twe=a['twe']))
                last = idx
            ok, why_not = feasible(lst)
            if not ok:
                return True, (f'evaluator returned Success with tasks at legs {[x["index"] for x in placed]}, but the resulting tour '
                              f'{[j["loc"] for j in lst]} is infeasible in simulation ({why_not})')
            return False, 'returned positions are feasible in simulation'
        if len(tasks) == 1:
            for p in range(len(jobs) + 1):
                t0_ = tasks[0]
                alts0 = t0_.get('alts') or [{'loc': t0_['loc'], 'dur': t0_['dur'], 'windows': t0_.get('windows', [[t0_['tws'], t0_['twe']]])}]
                ok = any(feasible(jobs[:p] + [dict(t0_, loc=alt['loc'], dur=alt['dur'], tws=w[0], twe=w[1])] + jobs[p:])[0] for alt in alts0 for w in alt['windows'])
                if ok:
                    return True, f'evaluator returned Failure although inserting the job at leg {p} is feasible in simulation'
        return False, 'failure is consistent with the simulation (multi-task failure may be incomplete by design)'
    if kind == 'writer_tour':
        import datetime
        ts = lambda x: int(datetime.datetime.strptime(x, '%Y-%m-%dT%H:%M:%SZ').replace(tzinfo=datetime.timezone.utc).timestamp())
        sol = native['solution']
        tour = sol['tours'][0]
        ref, dur, dist, rates, dims = case['jobs_ref'], case['dur'], case['dist'], case['rates'], case['dims']
        closed_ = case.get('closed', True)
        n = len(ref) + (2 if closed_ else 1)
        t = case['dep0']
        tables = case.get('tables')

        def table_at(t_):
            # time-dependent routing data: the matrix whose timestamp is t_ (look-ups of a correct writer happen at departures,
            # which all have their own matrix); otherwise the latest matrix not after t_
            times_ = case['table_times']
            best = max([x for x in times_ if x <= t_] or [times_[0]])
            return tables[str(best)]
        leg_dur = lambda i, t_: (table_at(t_)['dur'] if tables else dur)[i][i + 1]
        leg_dist = lambda i, t_: (table_at(t_)['dist'] if tables else dist)[i][i + 1]
        arr, dep, waits = [t], [t], [0]
        for i in range(1, n):
            a = dep[i - 1] + leg_dur(i - 1, dep[i - 1])
            tws, d = (ref[i - 1]['tws'], ref[i - 1]['dur']) if i <= len(ref) else (0, 0)
            arr.append(a)
            waits.append(max(tws - a, 0))
            dep.append(max(a, tws) + d)
        leg_dists = [leg_dist(i, dep[i]) for i in range(n - 1)]
        total_dist = sum(leg_dists)
        driving = sum(leg_dur(i, dep[i]) for i in range(n - 1))
        for r in ref:
            r['kind'] = {'dpickup': 'dyn+', 'ddelivery': 'dyn-'}.get(r['kind'], r['kind'])
        serving = sum(r['dur'] for r in ref if r['kind'] != 'break')
        breaks = sum(r['dur'] for r in ref if r['kind'] == 'break')
        waiting = sum(waits)
        exp = {'distance': total_dist, 'duration': dep[-1] - dep[0], 'driving': driving, 'serving': serving, 'waiting': waiting, 'break': breaks,
               'cost': rates[0] + rates[1] * total_dist + rates[2] * (dep[-1] - dep[0])}
        st = tour['statistic']
        got = {'distance': st['distance'], 'duration': st['duration'], 'driving': st['times']['driving'], 'serving': st['times']['serving'],
               'waiting': st['times']['waiting'], 'break': st['times']['break'], 'cost': st['cost']}
        for k_, v in exp.items():
            if abs(got[k_] - v) > 1e-6:
                return True, f'tour statistic {k_}: written {got[k_]}, recomputed from routing data / costs / order {v} (all: written {got}, recomputed {exp})'
        overall = sol['statistic']
        if abs(overall['cost'] - exp['cost']) > 1e-6 or overall['distance'] != exp['distance'] or overall['duration'] != exp['duration']:
            return True, f'overall statistic {overall} is not the sum of the tours ({exp})'
        stops = tour['stops']
        if len(stops) != n:
            return True, f'{len(stops)} stops written for {n} pairwise different locations'
        cuts = [i for i, r in enumerate(ref) if r['kind'] == 'reload']
        segs = list(zip([0] + cuts, cuts + [len(ref)]))
        seg_of = lambda i: next(sg for sg in segs if sg[0] <= i < sg[1])
        cur = [sum(r['amounts'][d] for r in ref[segs[0][0]:segs[0][1]] if r['kind'] == 'delivery') for d in range(dims)]
        cum = 0
        for i, stop in enumerate(stops):
            if i > 0:
                cum += leg_dists[i - 1]
                if i <= len(ref):
                    r = ref[i - 1]
                    if r['kind'] == 'reload':
                        prev_seg = seg_of(i - 2) if i >= 2 else (0, 0)
                        next_seg = seg_of(i - 1)
                        for d in range(dims):
                            cur[d] += (sum(x['amounts'][d] for x in ref[next_seg[0]:next_seg[1]] if x['kind'] == 'delivery')
                                       - sum(x['amounts'][d] for x in ref[prev_seg[0]:prev_seg[1]] if x['kind'] == 'pickup'))
                    for d in range(dims):
                        cur[d] += (r['amounts'][d] if r['kind'] in ('pickup', 'dyn+') else 0) - (r['amounts'][d] if r['kind'] in ('delivery', 'dyn-') else 0)
            want_load = [0] * dims if (closed_ and i == n - 1) else cur
            got_load = (list(stop['load']) + [0] * dims)[:dims]      # a load without dimensions is written as [0]
            if got_load != want_load:
                return True, f'stop {i}: written load {stop["load"]}, recomputed {want_load}'
            if stop['distance'] != cum:
                return True, f'stop {i}: written cumulative distance {stop["distance"]}, recomputed {cum}'
            if ts(stop['time']['arrival']) != arr[i] or ts(stop['time']['departure']) != dep[i]:
                return True, f'stop {i}: written times {stop["time"]}, recomputed arrival {arr[i]} departure {dep[i]}'
        return False, 'written statistic, loads, distances and times equal the recomputation'
    if kind == 'job_rules':
        job, rule = case['job'], case['rule']
        lists = {k: job.get(k) for k in ('pickups', 'deliveries', 'replacements', 'services')}
        every = [t for v in lists.values() for t in (v or [])]
        need = [t for k in ('pickups', 'deliveries', 'replacements') for t in (lists[k] or [])]
        total = lambda ts_, d: sum((t.get('demand') or [0] * (d + 1))[d] if len(t.get('demand') or []) > d else 0 for t in ts_)
        dims = max([len(t.get('demand') or []) for t in every] + [0])
        broken = {
            'E1101': any('demand' not in t for t in need) or any('demand' in t for t in (lists['services'] or [])),
            'E1102': bool(lists['pickups']) and bool(lists['deliveries']) and any(total(lists['pickups'], d) != total(lists['deliveries'], d) for d in range(dims)),
            'E1105': len(every) == 0,
            'E1106': any(p['duration'] < 0 for t in every for p in t['places']),
            'E1107': any(x < 0 for t in every for x in (t.get('demand') or [])),
        }[rule]
        reported = rule in native['codes']
        if reported != broken:
            return True, (f'validator {"reports" if reported else "does not report"} {rule} for the job {json.dumps(job)} although the documented rule is '
                          f'{"broken" if broken else "not broken"} (all codes reported: {native["codes"]})')
        return False, f'{rule}: reported={reported} agrees with the documented rule'
    if kind == 'checker':
        import datetime
        ts = lambda x: int(datetime.datetime.strptime(x, '%Y-%m-%dT%H:%M:%SZ').replace(tzinfo=datetime.timezone.utc).timestamp())
        errors = native['errors']
        has = lambda *frag: any(any(f in e for f in frag) for e in errors)
        vehicle = case['problem']['fleet']['vehicles'][0]
        shift = vehicle['shifts'][0]
        tour = case['solution']['tours'][0]
        stops = tour['stops']
        if has('cannot find', 'unknown activity'):
            return False, f'a context look-up failed natively (precondition of the model not met): {errors}'
        if case['rule'] == 'shift_limits':
            lim = vehicle.get('limits') or {}
            acts = sum(len(s_['activities']) for s_ in stops) - (2 if 'end' in shift else 1)
            ok = (('maxDistance' not in lim or tour['statistic']['distance'] <= lim['maxDistance']) and ('maxDuration' not in lim or tour['statistic']['duration'] <= lim['maxDuration'])
                  and ('tourSize' not in lim or max(acts, 0) <= lim['tourSize']))
            reported = has('max distance limit violation', 'shift time limit violation', 'tour size limit violation')
        elif case['rule'] == 'shift_time':
            ok = ts(stops[0]['time']['departure']) >= ts(shift['start']['earliest']) and ('end' not in shift or ts(stops[-1]['time']['arrival']) <= ts(shift['end']['latest']))
            reported = has('tour time is outside shift time')
        elif case['rule'] == 'recharge_limits':
            ok = True
            rc = shift.get('recharges')
            if rc and len(stops) > 1:
                acc = 0
                for a, b in zip(stops, stops[1:]):
                    acc += b['distance'] - a['distance']
                    if acc > rc['maxDistance']:
                        ok = False
                        break
                    if any(x['type'] == 'recharge' for x in b['activities']):
                        acc = 0
            reported = has('recharge distance violation')
        elif case['rule'] == 'routing':
            n = len(stops)
            m = case['matrix']
            dur = lambda i, j: m['travelTimes'][i * n + j]
            dst = lambda i, j: m['distances'][i * n + j]
            skip = all(s_['distance'] == 0 for s_ in stops)
            ok = True
            for i in range(1, n):
                if abs(ts(stops[i - 1]['time']['departure']) + dur(i - 1, i) - ts(stops[i]['time']['arrival'])) > 1:
                    ok = False
                prev = stops[i - 1]['distance'] if i > 1 else 0
                if not skip and abs(prev + dst(i - 1, i) - stops[i]['distance']) > 1:
                    ok = False
            last = stops[-1]['distance'] if n > 1 else 0
            if not skip and abs(last - tour['statistic']['distance']) > 1:
                ok = False
            if abs(ts(stops[-1]['time']['departure']) - ts(stops[0]['time']['departure']) - tour['statistic']['duration']) > 1:
                ok = False
            ov = case['solution']['statistic']
            if ov['distance'] != tour['statistic']['distance'] or ov['duration'] != tour['statistic']['duration']:
                ok = False
            reported = has('arrival time mismatch', 'distance mismatch', 'duration mismatch', 'solution statistic mismatch')
        elif case['rule'] in ('assignment_vehicles', 'assignment_jobs_presence'):
            slots = [tuple(x) for x in case['slots']]
            v2, (sh1, sh2), un = case['vehicle_2'], case['shifts'], case['unassigned']
            same_tour = v2 == 'v1' and sh1 == sh2
            if case['rule'] == 'assignment_vehicles':
                ok = v2 in ('v1', 'v2') and not same_tour
                reported = has('used vehicle with unknown id', 'used more than once')
            else:
                expected = {'j0': 2, 'j1': 1}
                used = []
                for jid, _ in slots:
                    if jid is not None and jid not in used:
                        used.append(jid)
                ok = True
                for jid in used:
                    where = [i for i, (x, _) in enumerate(slots) if x == jid]
                    if any(i < 2 for i in where) and 2 in where and not same_tour:
                        ok = False
                    if expected.get(jid) != len(where):
                        ok = False
                    pk = [(i + 1) if i < 2 else 1 for i in where if slots[i][1] == 'pickup']
                    dl = [(i + 1) if i < 2 else 1 for i in where if slots[i][1] == 'delivery']
                    if pk and dl and max(pk) > min(dl):
                        ok = False
                if len(set(un)) != len(un) or any(u not in expected for u in un) or any(u in used for u in un) or len(set(un) | set(used)) != len(expected):
                    ok = False
                reported = has('job served in multiple tours', 'not all tasks served', 'found pickup after delivery', 'duplicated job ids', 'unknown job id in the list',
                               'job present as assigned and unassigned', "amount of jobs present in problem and solution doesn't match", 'cannot find job with id')
        elif case['rule'] == 'load':
            dims = case['dims']
            jobs_by_id = {j['id']: j for j in case['problem']['plan']['jobs']}
            cap = vehicle['capacity']

            def demand(act):
                job = jobs_by_id.get(act['jobId'])
                if job is None:
                    return 'none', [0] * dims
                dynamic = bool(job.get('pickups')) and bool(job.get('deliveries'))
                key = {'pickup': 'pickups', 'delivery': 'deliveries', 'replacement': 'replacements', 'service': 'services'}[act['type']]
                tasks_ = job[key]
                n_tasks_ = sum(len(job.get(x) or []) for x in ('pickups', 'deliveries', 'replacements', 'services'))
                pair_ = n_tasks_ == 2 and len(job.get('pickups') or []) == 1 and len(job.get('deliveries') or []) == 1
                task_ = tasks_[0]
                if n_tasks_ >= 2 and not pair_ and act.get('jobTag') is not None:
                    # multi-task job: the activity refers to the task that carries its tag
                    task_ = next((t_ for t_ in tasks_ if any(pl.get('tag') == act['jobTag'] for pl in t_['places'])), tasks_[0])
                amounts = (task_.get('demand') or [0] * dims)
                kind = {'pickup': 'dp' if dynamic else 'sp', 'delivery': 'dd' if dynamic else 'sd', 'replacement': 'spd', 'service': 'none'}[act['type']]
                return kind, amounts
            every = [demand(a) for s_ in stops for a in s_['activities'] if a['type'] not in ('departure', 'arrival')]
            ok = True
            for s_ in stops:
                for a in s_['activities']:
                    job_ = jobs_by_id.get(a.get('jobId'))
                    if job_ is None or a['type'] in ('departure', 'arrival'):
                        continue
                    n_t = sum(len(job_.get(x) or []) for x in ('pickups', 'deliveries', 'replacements', 'services'))
                    is_pair = n_t == 2 and len(job_.get('pickups') or []) == 1 and len(job_.get('deliveries') or []) == 1
                    if n_t >= 2 and not is_pair and a.get('jobTag') is None:
                        ok = False      # documented: activities of a multi-task job must carry the tag of their task
            for d in range(dims):
                sdel = sum(a[d] for k, a in every if k in ('sd', 'spd'))
                spick = sum(a[d] for k, a in every if k in ('sp', 'spd'))
                if stops[0]['load'][d] != sdel:
                    ok = False
                for i in range(1, len(stops)):
                    change = 0
                    for a in stops[i]['activities']:
                        if a['type'] == 'arrival':
                            change -= spick
                            continue
                        if a['type'] == 'departure':
                            continue
                        k, am = demand(a)
                        change += am[d] if k in ('sp', 'dp') else -am[d] if k in ('sd', 'dd') else 0
                    if stops[i]['load'][d] != stops[i - 1]['load'][d] + change:
                        ok = False
                if any(s_['load'][d] > cap[d] for s_ in stops):
                    ok = False
            reported = has('load exceeds capacity', 'load mismatch', 'must have tag', 'cannot match activity to job place')
        else:
            return None, f'unknown checker rule {case["rule"]}'
        if reported == ok:
            return True, (f'checker rule {case["rule"]}: the documented rule {"holds" if ok else "is broken"} for the documents of this case but the checker '
                          f'{"reports" if reported else "does not report"} it (all messages: {errors})')
        return False, f'checker rule {case["rule"]}: reported={reported} agrees with the documents (rule holds={ok})'
    if kind == 'matrix_read':
        if 'rejected' in native:
            return False, f'the reader rejected the documents with documented codes {native["rejected"]}'
        m = case['matrix']
        codes = m.get('errorCodes')
        n = case['size'] ** 2
        for i in range(n):
            bad = codes is not None and i < len(codes) and codes[i] > 0
            want = (-1.0, -1.0) if bad else (float(m['travelTimes'][i]), float(m['distances'][i]))
            got = (native['durations'][i], native['distances'][i])
            if got != want:
                return True, f'routing entry {i}: provider returns (duration, distance) = {got}, the documents say {want}'
        return False, 'every routing entry equals the supplied data'
    if kind == 'job_tag':
        acts = [a for s_ in native['solution']['tours'][0]['stops'] for a in s_['activities'] if a.get('jobId') == 'job1']
        if not acts:
            return None, 'the job is not in the written tour'
        got = acts[0].get('jobTag')
        want = 'abcdefgh'[case['used']] if case['places'][case['used']].get('tagged', True) else None
        if got != want:
            return True, (f'the activity uses place {case["used"]} (tag {want!r}: location and window {case["places"][case["used"]]}) but the written solution reports tag {got!r} '
                          f'(places: {case["places"]})')
        return False, 'the reported tag is the tag of the used place'
    if kind == 'match_place':
        u = case['used']
        if 'error' in native:
            return True, (f'a solution whose activity carries tag {"ab"[u]!r} (visit {case["visit"]} inside the window of that place) does not read back: {native["error"]} '
                          f'(places {case["places"]})')
        acts = [a for r in native['routes'] for a in r]
        if len(acts) != 1:
            return True, f'the job was not reconstructed exactly once: {native}'
        if acts[0]['place_idx'] != u or acts[0]['duration'] != float(case['places'][u]['duration']):
            return True, f'activity tagged {"ab"[u]!r} was reconstructed at place {acts[0]["place_idx"]} (duration {acts[0]["duration"]}), expected place {u} (places {case["places"]})'
        return False, 'the tagged activity is read back at the place its tag belongs to'
    if kind == 'min_variation':
        sample, g = case['sample'], case['generation']
        post = [list(r) for r in case['window']]
        post[g % sample] = list(case['fitness'])
        def cv(col):
            mean = sum(col) / len(col)
            if mean == 0:
                return 0.0
            var = sum((x - mean) ** 2 for x in col) / len(col)
            return var ** 0.5 / mean
        cvs = [cv([post[i][j] for i in range(sample)]) for j in range(len(case['fitness']))]
        want = g >= sample - 1 and all(c <= case['threshold'] for c in cvs)
        if native['fired'] != want:
            return True, (f'variation criterion answered {native["fired"]} at generation {g} (window of {sample}); the window after the update is {post}, '
                          f'coefficients of variation {[round(c, 3) for c in cvs]}, threshold {case["threshold"]}: expected {want}')
        return False, 'the criterion fires exactly when the window is full and every coefficient of variation is within the threshold'
    if kind == 'location_index':
        got = 'E1504' in native['codes']
        inside = max(case['indices']) < case['size']
        amount = len(set(case['indices']))
        if not got and not inside:
            return True, f'location indices {case["indices"]} pass E1504 with a {case["size"]}x{case["size"]} matrix although {max(case["indices"])} is outside the matrix (codes: {native["codes"]})'
        want = max(case['indices']) + 1 != case['size']
        if got != want:
            return True, (f'E1504 is {"reported" if got else "not reported"} for location indices {case["indices"]} and a {case["size"]}x{case["size"]} matrix; the documented check '
                          f'(max location index + 1 == matrix size) is {"broken" if want else "satisfied"}')
        return False, 'E1504 agrees with the documented rule'
    if kind == 'registry':
        groups, in_use, target, op = case['groups'], set(case['in_use']), case['target'], case['op']
        everyone = [f'v{g}_{i}' for g, size in enumerate(groups) for i in range(size)]
        avail = set(everyone) - in_use
        exp_results, exp_avail, exp_copy = [], set(avail), None
        if op in ('use', 'use_route', 'get_route'):
            exp_results = [target in avail]; exp_avail.discard(target)
        elif op in ('free', 'free_route'):
            exp_results = [target not in avail]; exp_avail.add(target)
        elif op in ('use-twice', 'get-twice'):
            exp_results = [target in avail, False]; exp_avail.discard(target)
        elif op == 'copy':
            exp_results = [target in avail]; exp_copy = sorted(avail - {target})
        elif op == 'slice':
            keep = set(case['keep'])
            exp_results = [target in avail and target in keep]; exp_copy = sorted((avail & keep) - {target})
            if native['slice_all'] != sorted(keep):
                return True, f'the slice keeping {sorted(keep)} knows the actors {native["slice_all"]}'
            if native.get('foreign_accepted'):
                return True, f'the slice keeping {sorted(keep)} accepts the release of {native["foreign_accepted"]}, vehicles it does not own (they become available in the slice while the original has them)'
        for got, rid in zip(native['results'], native.get('routes') or []):
            if got and rid != target:
                return True, f'{op}({target}) handed out a route of actor {rid}'
        if native['results'] != exp_results:
            return True, f'registry {op}({target}) with {sorted(in_use)} in use answered {native["results"]}, expected {exp_results}'
        if native['available'] != sorted(exp_avail):
            return True, f'after {op}({target}) with {sorted(in_use)} in use the registry offers {native["available"]}, expected {sorted(exp_avail)}'
        if exp_copy is not None and native['copy_available'] != exp_copy:
            return True, f'the {"slice" if op == "slice" else "deep copy"} offers {native["copy_available"]} after use({target}) on it, expected {exp_copy}'
        for nxt in native['next']:
            for g, size in enumerate(groups):
                members = {f'v{g}_{i}' for i in range(size)}
                picked = [x for x in nxt if x in members]
                if len(picked) != (1 if members & exp_avail else 0) or any(x not in exp_avail for x in picked):
                    return True, f'next() yields {nxt} while {sorted(exp_avail)} are available (group {g})'
        return False, 'registry bookkeeping agrees with the reference'
    if kind == 'tour':
        labels, closed, op, arg = case['pre'], case['closed'], case['op'], case['arg']
        ref = _tour_reference
        exp_result = None
        if op == 'copy':
            exp, _ = ref(labels, closed, 'insert_at', tuple(arg[0]))
            exp, _ = ref(exp, closed, 'remove', arg[1])
        elif op == 'insert_at':
            exp, _ = ref(labels, closed, op, tuple(arg))
        else:
            exp, exp_result = ref(labels, closed, op, arg)
        want = _tour_observations(exp, closed)
        got = native['after']
        for key in ('labels', 'total', 'job_activity_count', 'job_count', 'has_jobs', 'jobs', 'legs', 'end_idx', 'per_job'):
            if got[key] != want[key]:
                return True, f'Tour::{op}({arg}) on {labels}: {key} is {got[key]}, expected {want[key]}'
        if not got['start_is_first'] or not got['end_is_last']:
            return True, f'Tour::{op}({arg}) on {labels}: depot ends are not in place'
        if exp_result is not None and native['result'] != exp_result:
            return True, f'Tour::{op}({arg}) on {labels} returned {native["result"]}, expected {exp_result}'
        if op == 'copy':
            want0 = _tour_observations(labels, closed)
            for key in ('labels', 'jobs', 'job_count', 'legs', 'per_job'):
                if native['original'][key] != want0[key]:
                    return True, f'after modifying a deep copy the original tour has {key} = {native["original"][key]}, expected {want0[key]}'
        return False, 'tour agrees with the reference'
    if kind == 'group_state':
        grp = case['group']
        others_ = case['routes'][:-1] if case.get('refresh') == 'insertion' else case['routes'][1:]
        must_reject = grp is not None and any(grp in r['groups'] for r in others_)
        if native['rejected'] != must_reject:
            return True, (f'a job of group {grp} offered to route {len(case["routes"]) - 1 if case.get("refresh") == "insertion" else 0} is {"rejected" if native["rejected"] else "accepted"} after the '
                          f'{"insertion callback" if case.get("refresh") == "insertion" else "solution-level refresh"} while the other routes serve {[r["groups"] for r in others_]} '
                          f'(routes are {"shifts of one vehicle" if case.get("same_vehicle") else "different vehicles"}; stale flags before: {native["stale_before"]})')
        return False, 'the group rule agrees with the tours'
    if kind == 'ctx_from_solution':
        kinds = case['tours']
        want_kept = [f'v{i}' for i, k in enumerate(kinds) if k == 'job']
        want_avail = sorted(f'v{i}' for i, k in enumerate(kinds) if k != 'job')
        if native['kept'] != want_kept:
            return True, f'insertion context from a solution with tours {kinds}: kept tours of {native["kept"]}, job-carrying tours are those of {want_kept}'
        if native['available'] != want_avail:
            return True, (f'insertion context from a solution with tours {kinds} (per vehicle): the registry offers {native["available"]} but no kept tour uses '
                          f'{want_avail} - a vehicle is neither driving a tour nor available')
        return False, 'vehicle bookkeeping matches the tours'
    if kind == 'shared_resource':
        if native['left'] < 0:
            return None, 'the solution of this case already over-uses the resource'
        if native['rejected_fitting'] or not native['rejected_exceeding']:
            return True, (f'shared resource of capacity {case["capacity"]} with demands {case["demands"]} (last job of route 0 inserted after the refresh): {native["left"]} left, but a job '
                          f'needing {native["left"]} is {"rejected" if native["rejected_fitting"] else "accepted"} and one needing {native["left"] + 1} is '
                          f'{"rejected" if native["rejected_exceeding"] else "accepted"} on the last route')
        return False, 'the resource rule agrees with the demand of all routes'
    if kind == 'skills':
        job, veh = case['job'], set(case['vehicle'] or [])
        ok = True
        if job is not None:
            if job['all_of'] is not None and not set(job['all_of']) <= veh:
                ok = False
            if job['one_of'] is not None and not (set(job['one_of']) & veh):
                ok = False
            if job['none_of'] is not None and (set(job['none_of']) & veh):
                ok = False
        if native['rejected'] == ok:
            return True, f'job skills {job} offered to a vehicle with skills {case["vehicle"]}: {"rejected" if native["rejected"] else "admitted"}, the documented rule says {"admit" if ok else "reject"}'
        return False, 'skills rule agrees'
    if kind == 'compatibility':
        tour_class = next((c for c in case['classes'] if c is not None), None)
        must = case['class'] is not None and tour_class is not None and case['class'] != tour_class
        if native['rejected'] != must:
            return True, (f'a job of compatibility class {case["class"]} is {"rejected" if native["rejected"] else "admitted"} by a tour whose jobs have classes {case["classes"]} '
                          f'(tag before the refresh: {case["previous_tag"]})')
        return False, 'compatibility rule agrees with the tour'
    if kind == 'lock_rule':
        seq, p_, m_, pos = case['tour'], case['leg'], case['locked'], case['position']
        new_seq = seq[:p_ + 1] + ['new'] + seq[p_ + 1:]
        idx = [i for i, lab in enumerate(new_seq) if lab.startswith('L')]
        ok = idx == list(range(idx[0], idx[0] + m_))
        if pos in ('departure', 'fixed') and idx[0] != 1:
            ok = False
        if pos in ('arrival', 'fixed') and idx[-1] != len(new_seq) - 2:
            ok = False
        if native['rejected'] == ok:
            return True, f'strict lock ({pos}) on {seq}: a job offered at leg {p_} is {"rejected" if native["rejected"] else "admitted"} although the insertion {"keeps" if ok else "breaks"} the lock'
        if native['locked_rejected'] == case['condition_holds'] or native['free_rejected']:
            return True, (f'route level: locked job {"rejected" if native["locked_rejected"] else "admitted"} while the lock condition {"holds" if case["condition_holds"] else "does not hold"} '
                          f'for the vehicle; unrelated job {"rejected" if native["free_rejected"] else "admitted"}')
        return False, 'lock rule agrees'
    if kind == 'relation_rules':
        reported = case['rule'] in native['codes']
        if reported != case['broken']:
            return True, (f'validator {"reports" if reported else "does not report"} {case["rule"]} although the documented rule is {"broken" if case["broken"] else "not broken"}: '
                          f'relations {case["relations"]}, shift properties {case.get("shift_flags")} (all codes: {native["codes"]})')
        return False, f'{case["rule"]}: reported={reported} agrees with the documented rule'
    if kind == 'id_rules':
        reported = case['rule'] in native['codes']
        if reported != case['broken']:
            fleet = [(v['typeId'], v['vehicleIds'], v['costs']) for v in case['problem']['fleet']['vehicles']]
            return True, (f'validator {"reports" if reported else "does not report"} {case["rule"]} although the documented rule is {"broken" if case["broken"] else "not broken"}: '
                          f'job ids {[j["id"] for j in case["problem"]["plan"]["jobs"]]}, vehicle types {fleet} (all codes: {native["codes"]})')
        return False, f'{case["rule"]}: reported={reported} agrees with the documented rule'
    if kind == 'collect_all':
        n, nj, pair = case['routes'], case['jobs'], native['pair']
        want = [min(pair[i][j] for i in range(n)) for j in range(nj)] if case['fold_jobs'] else [min(pair[i][j] for j in range(nj)) for i in range(n)]
        if native['costs'] != want:
            return True, (f'evaluate_and_collect_all over {n} tours (1 of the solution + {n - 1} fresh) and {nj} jobs, one entry per {"job" if case["fold_jobs"] else "tour"}: '
                          f'costs {native["costs"]}, the minima over the other dimension are {want}')
        return False, 'one entry per job / tour with the minimum over the other dimension'
    if kind == 'rosomaxa_phase':
        if native['size'] > 0 and any(n == 0 for n in native['selected']):
            return True, (f'self-organising population with {native["size"]} individuals (configured selection size {case["selection_size"]}) selects {native["selected"]} individuals after a '
                          f'generation tick with speed {case["speed"]} (phase now {native["phase"]}): nothing is selected from a non-empty population')
        return False, 'selection is non-empty'
    if kind == 'dbscan':
        n, mp, nb, clusters = case['points'], case['min_points'], case['neighbours'], native['clusters']
        core = [len(nb[i]) >= mp for i in range(n)]
        flat = [p for c in clusters for p in c]
        if len(flat) != len(set(flat)) or any(not c for c in clusters):
            return True, f'clusters {clusters} are not pairwise disjoint / contain duplicates (neighbourhoods {nb}, min_points {mp})'
        for c in clusters:
            if not core[c[0]]:
                return True, f'cluster {c} is grown from point {c[0]}, which has {len(nb[c[0]])} neighbours < min_points {mp} (neighbourhoods {nb})'
            reach = {c[0]}
            for _ in range(n):
                reach |= {p for q in list(reach) if core[q] for p in nb[q]}
            if not set(c) <= reach:
                return True, f'cluster {c} contains {sorted(set(c) - reach)}, not density-reachable from its first point (neighbourhoods {nb}, min_points {mp})'
        left = [i for i in range(n) if core[i] and i not in flat]
        if left:
            return True, f'core point(s) {left} are in no cluster (clusters {clusters}, neighbourhoods {nb}, min_points {mp})'
        return False, 'clusters satisfy the DBSCAN contract'
    if kind == 'unassigned_writer':
        written = native['unassigned'] or []
        customers = [(i, e) for i, e in enumerate(case['entries']) if not e['bound']]
        if [w['jobId'] for w in written] != [f'job{i}' for i, _ in customers]:
            return True, f'unassigned entries {case["entries"]}: written job ids {[w["jobId"] for w in written]}, expected {[f"job{i}" for i, _ in customers]} (each customer job once)'
        vehicles = [('v1', 0), ('v2', 1)]
        for w, (i, e) in zip(written, customers):
            reasons = w.get('reasons') or []
            if not reasons:
                return True, f'job{i} ({e}) is written as unassigned without a reason'
            if e['info'].startswith('detailed') and e['codes']:
                want = sorted(sorted(vehicles[k] for k, c in enumerate(e['codes']) if c == code) for code in set(e['codes']))
                got = sorted(sorted((d['vehicleId'], d['shiftIndex']) for d in (r.get('details') or [])) for r in reasons)
                if got != want:
                    return True, f'job{i} ({e}): vehicles per reason {got}, expected {want}'
            elif len(reasons) != 1:
                return True, f'job{i} ({e}): {len(reasons)} reasons written, expected one'
        return False, 'every unassigned customer job is written once with its reasons'
    if kind == 'read_locks':
        want = []
        for rel in case['relations']:
            f, l = rel['jobs'][0], rel['jobs'][-1]
            pos = 'fixed' if (f == 'departure' and l == 'arrival') else 'departure' if f == 'departure' else 'arrival' if l == 'arrival' else 'any'
            want.append(((rel['vehicle'], rel['shift'] or 0), rel['type'], pos, [j for j in rel['jobs'] if j not in ('departure', 'arrival')]))
        got = []
        for lk in native['locks']:
            if len(lk['accepts']) != 1:
                return True, f'a lock accepts the vehicle shifts {lk["accepts"]} (relations {case["relations"]}): a relation pins its jobs to ONE vehicle shift'
            for d in lk['details']:
                got.append((tuple(lk['accepts'][0]), d['order'], d['position'], d['jobs']))
        if sorted(got, key=str) != sorted(want, key=str):
            return True, f'relations {case["relations"]} were translated into locks (vehicle/shift, order, position, jobs) {sorted(got, key=str)}, expected {sorted(want, key=str)}'
        return False, 'every relation became a lock detail for its own vehicle shift'
    if kind == 'insertion_step':
        nt, a, legs = case['tasks'], case['actor'], case['legs']
        jn = ['J'] if nt == 1 else [f'J{i}' for i in range(nt)]
        exp = [None, 'X', None] if a == 0 else [None, None]
        for t, leg in enumerate(legs):
            exp.insert(leg + 1, jn[t])
        exp_routes = [exp] if a == 0 else [[None, 'X', None], exp]
        ap, fin = native['after_apply'], native['after_finalize']
        got_routes = [r['activities'] for r in ap['routes']]
        what = f'apply_insertion_success(actor v{a}, legs {legs}, J also unassigned: {case["also_unassigned"]})'
        if got_routes != exp_routes:
            return True, f'{what}: tours {got_routes}, expected {exp_routes}'
        if [r['jobs'] for r in ap['routes']] != ([['J', 'X']] if a == 0 else [['X'], ['J']]):
            return True, f'{what}: job sets of the tours {[r["jobs"] for r in ap["routes"]]}'
        if ap['required'] != ['Y'] or ap['unassigned'] != ['Z']:
            return True, f'{what}: required {ap["required"]} (expected [Y]), unassigned {ap["unassigned"]} (expected [Z]) - the inserted job is accounted for more than once'
        if ap['available'] != (['v1'] if a == 0 else []):
            return True, f'{what}: the registry offers {ap["available"]}'
        if native.get('early_unassigned') != ['Y', 'Z']:
            return True, f'Solution made from the context before finalisation reports unassigned {native.get("early_unassigned")}, expected [Y, Z]: the pending job is accounted for zero times'
        if fin['required'] != [] or fin['unassigned'] != ['Y', 'Z']:
            return True, f'after finalisation: required {fin["required"]}, unassigned {fin["unassigned"]}; expected [] and [Y, Z]'
        if native['solution_unassigned'] != ['Y', 'Z'] or native['solution_routes'] != exp_routes:
            return True, f'Solution made from the context: unassigned {native["solution_unassigned"]} (expected [Y, Z]), tours {native["solution_routes"]} (expected {exp_routes})'
        return False, 'every job is accounted for exactly once'
    if kind == 'statistic_sum':
        for k_ in ('cost', 'distance', 'duration', 'driving', 'serving', 'waiting', 'break_time', 'commuting', 'parking'):
            want = case['a'][k_] + case['b'][k_]
            if native[k_] != want:
                return True, f'Statistic + Statistic: component {k_} is {native[k_]}, the sum of the operands is {want} (operands {case["a"]} and {case["b"]})'
        return False, 'component-wise sum'
    if kind == 'tour_order':
        def greater(a, b):
            return (a['kind'] == 'value' and b['kind'] == 'value' and a['value'] > b['value']) or (a['kind'] == 'default' and b['kind'] == 'value')

        def ordered(seq):
            return not any(greater(seq[i], seq[j]) for i in range(len(seq)) for j in range(i + 1, len(seq)))
        tour = [j['order'] for j in jobs]
        tgt = target['order']
        if not ordered(tour):
            return False, 'pre-tour not ordered in the model (assumption violated): not a counterexample'
        v = native['evaluate_order']
        accepted = v is None
        post = ordered(tour[:leg] + [tgt] + tour[leg:])
        if accepted != post:
            return True, f'order constraint accepted={accepted} but the tour with the target at leg {leg} is ordered={post} (orders {tour}, target {tgt})'
        if v and v.get('stopped'):
            for q in range(leg, len(tour) + 1):
                if ordered(tour[:q] + [tgt] + tour[q:]):
                    return True, f'violation flagged stopped at leg {leg} although position {q} keeps the order (orders {tour}, target {tgt})'
        return False, 'order verdict agrees with the reference'
    if kind == 'route_gates':
        tws = case['route_job']['tws']
        s0, s1 = val(case['shift_start']), val(case['shift_end'])
        inter = any(val(a) <= s1 and s0 <= val(b) for a, b in tws)
        lim = case.get('size_limit')
        k = len(jobs)
        exp = {'evaluate_job_transport': inter, 'evaluate_size_single': lim is None or k + 1 <= lim,
               'evaluate_size_multi': lim is None or k + 2 <= lim}
        for key, want in exp.items():
            got = native[key] is None
            if got != want:
                return True, (f'{key}: accepted={got}, expected {want} (tour of {k} job activities, {native.get("tour_job_count")} distinct jobs, '
                              f'size limit {lim}, shift [{s0},{s1}], job windows {tws})')
        return False, 'route-level verdicts agree with the reference'
    return None, f'no native evaluation for obligation kind {kind}'


def confirm(case):
    """-> (reproduced: True/False/None, explanation, native output)"""
    if case.get('kind') == 'checker_assignment':
        case = checker_assignment_documents(case)
    native, err = run_native(case, 'dev')
    if native is None:
        return None, err, None
    violated, why = evaluate(case, native)
    if violated:
        native_rel, _ = run_native(case, 'release')
        if native_rel is not None:
            v2, why2 = evaluate(case, native_rel)
            why += f' | release profile: {"reproduces" if v2 else "does NOT reproduce"}'
    return violated, why, native


def replay_file(path):
    case = json.load(open(path))
    violated, why, native = confirm(case.get('case', case))
    log(json.dumps({'native': native}, indent=1)[:3000])
    log('REPLAY:', 'reproduced' if violated else 'does not reproduce' if violated is False else 'could not run', '-', why)
    return 1 if violated else (0 if violated is False else 2)


_TOUR_JOB_OF = {'sA': 'A', 'sB1': 'M', 'sB2': 'M', 'sC': 'C', 'sD': 'D'}


def _tour_reference(labels, closed, op, arg):
    labels = list(labels)
    if op == 'insert_at':
        single, idx = arg
        return labels[:idx] + [single] + labels[idx:], None
    if op == 'insert_last':
        n_jobs = len(labels) - (2 if closed else 1)
        return labels[:n_jobs + 1] + [arg] + labels[n_jobs + 1:], None
    if op == 'remove':
        keep = [x for x in labels if _TOUR_JOB_OF.get(x) != arg]
        return keep, len(keep) != len(labels)
    if op == 'remove_activity_at':
        job = _TOUR_JOB_OF[labels[arg]]
        return [x for x in labels if _TOUR_JOB_OF.get(x) != job], job
    raise ValueError(op)


def _tour_observations(labels, closed):
    jobs = []
    for x in labels:
        j = _TOUR_JOB_OF.get(x)
        if j and j not in jobs:
            jobs.append(j)
    n = len(labels)
    legs = [[labels[i:i + 2], i] for i in range(n - 1)] if n != 1 else [[labels[0:1], 0]]
    if not closed and n > 1:
        legs.append([labels[n - 1:], n - 1])
    per_job = {}
    for j in ('A', 'M', 'C', 'D'):
        pos = [i for i, x in enumerate(labels) if _TOUR_JOB_OF.get(x) == j]
        per_job[j] = {'contains': j in jobs, 'index': pos[0] if pos else None, 'index_last': pos[-1] if pos else None, 'activities': len(pos)}
    return {'labels': labels, 'total': n, 'job_activity_count': n - (2 if closed else 1), 'job_count': len(jobs), 'has_jobs': bool(jobs),
            'jobs': sorted(jobs), 'legs': legs, 'per_job': per_job, 'end_idx': n - 1}
