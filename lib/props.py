"""Per-property orchestration: which engines run, what is stated as assumed / outside the claim."""
import time

import common
import kani

# Static per-property text that goes into the evidence file (what the run assumes, what lies outside the claim).
INFO = {}


def register(prop, assumptions, outside):
    INFO[prop] = {'assumptions': assumptions, 'outside': outside}


MIR_ASSUMPTIONS = [
    'Engine M: the MIR printed by the installed nightly for the dev profile (debug-assertions off, overflow checks on) has the semantics of the build users run for the encoded kernels',
    'Engine M: f64 in exact-int semantics (is_max, integer) on integer-valued inputs; the per-operation range side-conditions (|x| <= 2^53, factors <= 2^26) are PROVED by the same query, not assumed',
    'Engine M: routing is an uninterpreted time-independent function of (from, to) with values in the stated range; dyn ActivityCost is bound to SimpleActivityCost; typed state stores behind RouteState/Dimensions accessors are trusted',
    'Engine M: closure captures that rustc does not print (edition-2021 disjoint field captures) are recovered from the preceding temporaries and checked against the field types of the closure body',
]

COMMON_ASSUMPTIONS = [
    'Kani 0.68 / CBMC 6.11 model the compiled MIR of the real crates bit-precisely within the unwinding bounds (unwinding assertions on)',
    'cfg(kani)-only container swap: Dimensions/RouteState/SolutionState index and Tour.jobs are association lists; the std/hashbrown containers themselves are trusted',
    'harnesses end with mem::forget of heap structures (drop glue is not the subject)',
]


def run(prop):
    t0 = time.time()
    outcomes = []
    if prop not in INFO:
        common.log(f'unknown or not-applicable property {prop}')
        return common.EXIT_INCONCLUSIVE
    outcomes += kani.run_property(prop)
    try:
        import mir_obligations
        outcomes += mir_obligations.run_property(prop)
    except ImportError:
        pass
    if not outcomes:
        common.log(f'no obligations selected for {prop}')
        return common.EXIT_INCONCLUSIVE
    info = INFO[prop]
    extra = MIR_ASSUMPTIONS if any(o.engine == 'mirsmt' for o in outcomes) else []
    return common.finish(prop, outcomes, t0, assumptions=COMMON_ASSUMPTIONS + extra + info['assumptions'], outside=info['outside'])


register('C06', [
    'load values are i16 widened to i32 (the i32 overflow of load sums is excluded by this domain)',
], [
    'stochastic leg sampling; eval_job_insertion_in_route reading InsertionContext.solution.unassigned (the end-to-end obligations start at eval_single / eval_multi)',
    'end to end the goal is ONE real constraint at a time (time windows or capacity); their conjunction is the first-violation-wins lemma (C01 evaluate_with_constraints)',
    'failure of a multi-task job is not claimed complete (greedy by design: the pickup is judged before the delivery position is known)',
    'time-dependent routing; reload intervals (>1 marker interval); fractional times; breaks/reserved times; jobs with several tasks AND several places per task',
])

register('C09', [
    'cost component lengths are case-split concretely; +/- inverse law only on integer-valued components |v| <= 2^24',
], [
    'goals with multi-objective layers built in goal_reader.rs; fitness extraction from real solutions',
    'cost vectors longer than 7 components (7 = one more than the inline capacity: collect / + / - on a heap-spilled vector is decided; the order laws are decided up to 3 / 6)',
])
register('C15', [
    'rayon implements its documented fold/reduce contract (result = reducer applied along some binary tree with identity leaves)',
    'Arc::drop_slow stubbed to a no-op (payload leaked) - drop glue is not the subject',
], [
    'rosomaxa::utils::{fold_reduce, cartesian_product} are taken at their documented contract (contiguous groups folded from identity, results reduced from identity; all pairs): rayon and these two wrappers are not executed',
    'parallel_collect is taken at its contract (results of the map in source order); a structural deviation of evaluate_and_collect_all (missing pair, wrong number of entries) has no native replay and is reported as inconclusive',
    'noise/blink/farthest selectors (randomised by design)',
    'validity of full solver runs under Parallelism::new(p,t)',
])

register('C08', [
    'generic instantiation: Sol{f: f64 from i16, tag}, Obj = total_cmp on f; dedup predicate nondeterministic; Random = arbitrary value within contract',
    'Elitism pre-state: any sorted vector of K individuals (K case-split); induction over the sorted invariant gives arbitrary histories',
], [
    'Rosomaxa (self-organising) population: needs Environment with thread pools and the GSOM network',
    'Elitism::drain / set_max_population_size / maybe_change',
    'a seeded full solve never returns a worse solution (whole solver run)',
])

register('C10', [
    'window bounds are integer-valued f64 from i16 (rule obligations) / arbitrary f64 bit patterns (totality obligation)',
    'the documentation does not say whether an empty times list is allowed: only totality is demanded for it',
], [
    'JSON/serde layer, RFC3339 parsing (time crate), all String-keyed rules (ids, duplicates, reserved ids, relations, objectives, routing/matrix rules), vehicle rules other than the time-window ones',
    'job rules E1101/02/05/06/07 are decided on one job per document with the stated task layouts (the rules are per-job filters); error message text (format!/join are empty stubs)',
    'negative zero as a duration (the exact-int float domain has no -0.0)',
])

register('C16', [
    'matrix entries are integer-valued f64 from i8; sizes 2x2 (quick) / 3x3 (thorough); profile scale in {0.5,1,2,4}',
    'the provider is exercised through its concrete type (dyn dispatch would make CBMC explore the HashMap-backed time-aware implementor)',
], [
    'TimeAwareMatrixTransportCost::new is decided with its hash containers modelled as association lists over symbolic keys and collect_group_by_key taken as grouping by key (the std HashMap itself is trusted); of pragmatic create_transport_costs only the per-matrix step (values, error codes -> -1, lengths) is inside: profile matching (HashMap of names), timestamps (RFC3339) and the serde model are outside',
    'haversine approximation (trigonometry), location_fallback; non-square matrix lengths (sqrt().round() accepts them; not part of the stated property)',
])

register('C18', [
    'reward/prior domain: any f64 in [0, 2^20] incl. 0 and denormals; histories of length 1 (quick) / 2 (thorough) from SlotMachine::new',
    'gamma sampler answers 0 or a normal positive finite double (a subnormal sample would make 1/precision overflow; probability < 1e-400)',
    'mean-within-hull is checked with a rounding allowance of 2^-20 absolute on values <= 2^20 (mu + (r - mu)/n is not exact in IEEE arithmetic)',
], [
    'histories longer than the bound (the inductive step over symbolic n, alpha, beta, mu is not decidable as QF_FP within the caps)',
    'random_argmax / weighted (rejection sampling over generator output), DynamicSelective agent tables (std HashMap), remedian, Noise',
    'variation criterion: the arithmetic of get_cv (mean, standard deviation, quotient) is an uninterpreted number per objective column; the time-period window (shuffle / retain / sort / drain over elapsed time) is outside - only the sample window is decided; is_termination phase gating (selection phase) is outside',
])

register('C01', [
    'kernel-level claim: every gate an insertion has to pass (time windows + shift, capacity, distance/duration limits) is decided on tours of bounded length; solver runs are not explored',
    'rule kernels on bounded templates: tours of <= 2 (quick) / 4 (thorough) jobs; skills over a universe of 2/3 skills; groups / shared resource over 2-3 routes; strict locks of 1-3 jobs with 0-2 other jobs before / after',
], [
    'the end-to-end quantifier (all problems x configurations x schedules x termination moments): needs the solver to run',
    'vehicle breaks, recharge, sequence (non-strict) locks, goal assembly in goal_reader.rs, all search operators (skills, groups, compatibility, task order, strict locks, reload resources ARE decided: hash containers as association lists / sets with symbolic membership)',
])
register('C03', [
    'schedules, tour totals and the cost fold are decided against an independent simulation; the pragmatic writer create_tour is executed from the MIR of vrp-pragmatic together with the MIR of vrp-core (cross-crate calls switch engines)',
    'writer environment: format_time is an injective stub (times are compared as numbers), CoordIndex maps index <-> Location::Reference, get_job_tag answers None, parking 0, no reserved times; Dimensions carry Demand<MultiDimLoad> as the pragmatic reader stores it',
    'vehicle cost rates are concrete pairwise-different vectors (the cost is linear in them); the driver has zero costs (the pragmatic format has no driver costs)',
], [
    'RFC3339 formatting and JSON serialisation, the one-unit rounding of non-integer values (inputs are integer-valued), place tags for offset time spans and for more than two places (get_job_tag is decided separately for two places with absolute windows and stubbed inside create_tour), reserved-time breaks written by break_writer.rs, clustering (commute, parking); tours with more than one reload or more than one break, stops shared by several activities at one location in whole-tour obligations (covered only by the single step), haversine routing approximation',
])
register('C12', [
    'kernel-level claim on three of the six rule groups of the checker (vehicle load assignment, limits, routing/statistics): the rule functions are executed from the MIR of vrp-pragmatic linked with vrp-core',
    'context look-ups are environment answers from the template: get_vehicle / get_vehicle_shift / get_vehicle_profile / get_location_index succeed, get_matrix_data answers an uninterpreted function of the two indices, get_demand answers the demand kind and amounts of the activity (pickup and delivery of one dynamic job carry equal amounts), get_activity_type succeeds, is_reload_stop = false; parse_time / format_time are inverse stubs carrying numbers; message formatting is an empty stub',
], [
    'rule groups assignment, relations, breaks; check_resource_consumption (HashMap-keyed); reload intervals, transit stops, clustering (commute/parking); CheckerContext::new and the job index (std HashMap); JSON parsing; the claim "accepts every solution the solver emits" (needs solver runs)',
])
register('C14', [
    'ONE inductive step from an ARBITRARY well-formed state per half; the post-state is again a state of the same family, so the step covers operation histories of any length over the stated sizes',
    'tour half: closed/open tours of 0..2 (quick) / 0..3 (thorough) job activities; which task each activity serves is a symbolic choice among a single job, the two tasks of a multi job and another single job (each task at most once); insertion index (1..=job activities+1), removal index, removed job (incl. an absent one) and inserted task symbolic; Multi::roots is an environment answer',
    'registry half: the actors are fixed objects, which of them is available is one symbolic Bool each (every subset of in-use vehicles in one execution); the random source of Registry::next answers any integer of the requested range (symbolic)',
    'Vec / hash containers are sequences / association lists (keys compared by Arc identity / integer equality): hashing, bucket layout and iteration order of std HashMap/HashSet are not modelled',
], [
    'tours longer than the bound; a task occurring twice in one tour; insert_at outside 1..=job activities+1',
    'Registry::new from a Fleet (group construction by the user-supplied key function), deep_slice with a filter other than the production one (membership in a set of kept actors), RegistryContext::new (needs a GoalContext)',
    'the earlier Kani harnesses over Tour (kani/vrp-core/tour_proofs.rs) exceed memory and are not part of the check',
])
register('C02', [
    'job-accounting KERNELS only (not solves): (1) the insertion step apply_insertion_success from a consistent context (2 actors, jobs X in a tour, Y required, Z unassigned, J with 1-2 tasks to insert; actor and legs symbolic; J symbolically still listed as unassigned): J ends in exactly one tour with all tasks in order and nowhere else, a fresh tour is opened exactly for the fresh actor, vehicle available <=> no tour uses it; (2) finalize_insertion_ctx: required jobs become unassigned, once; (3) InsertionContext -> Solution: unassigned = every job that is in no tour, once, tours copied; (4) create_insertion_context_from_solution (C14); (5) the writer create_unassigned: each unassigned customer job written once with at least one reason, vehicles grouped per code',
    'goal callbacks (accept_insertion / accept_solution_state) are environment no-ops; hash containers as association lists keyed by identity',
], [
    'the search operators (ruin, recreate, local search, decomposition), clustering (vicinity) and everything else that needs solver runs; breaks / reloads / recharge stops corresponding to the definitions of the vehicle shift; the tour side of the writer beyond C03',
])
register('C17', [
    'density clustering only: create_clusters (DBSCAN) on 2-3 points with a FULLY symbolic neighbourhood relation (one Bool per ordered pair, not necessarily symmetric or reflexive) and min_points 1..3: clusters pairwise disjoint and duplicate-free, first point of a cluster is a core point, every member density-reachable from it, no core point unclustered',
    'hash map / hash set of create_clusters as association lists keyed by point identity (hashing and iteration order not modelled); the neighbourhood function is the environment',
], [
    'Lin-Kernighan style re-sequencing (unbounded improvement loop over tours in hash containers) and k-medoids (up to 200 iterations of floating-point assignment / update steps over rayon folds): not encodable within reach',
    'more than 3 points (4 points = 65536 neighbourhood relations; about half an hour)',
])
register('C05', [
    'mechanism claim: the cache-computing functions are total functions of the tour alone (history independence proved per output) and equal the reference recomputation',
], [
    'accept_solution_state over a SolutionContext, per-feature solution aggregates, groups/compatibility/tour-order tags (std hash containers)',
])
register('C20', [
    'a route without jobs contributes nothing to the objectives (empty routes are not part of solution.routes), so its change is the whole new tour',
    'cost objective: one time rate per actor part and NO waiting before/after the insertion (the precondition stated by the property)',
], [
    'time-dependent routing; work-balance / compactness / fast-service objectives (non-additive); realisation through a full recreate step',
    'the fitness folds of minimize-unassigned and total-value run over InsertionContext hash containers: their estimates are compared with the analytic change (-w(job), -value(job)); the tour count fitness closure is executed',
])
