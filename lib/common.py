"""Shared plumbing for the /verif checks: tiers, evidence files, known findings, exit codes."""
import json
import os
import sys
import time

VERIF = '/verif'
REPO = '/repo'
CACHE = os.path.join(VERIF, '.cache')
EVIDENCE_DIR = os.path.join(VERIF, 'evidence')
REPLAYS = os.path.join(VERIF, 'replays')
KNOWN_FINDINGS = os.path.join(VERIF, 'known_findings.json')

EXIT_OK, EXIT_VIOLATION, EXIT_INCONCLUSIVE = 0, 1, 2


def tier():
    t = os.environ.get('VERIF_TIER', 'quick')
    return t if t in ('quick', 'thorough') else 'quick'


def seed():
    try:
        return int(os.environ.get('VERIF_SEED', '0'))
    except ValueError:
        return 0


def log(*a):
    print(*a, flush=True)


def load_known_findings():
    if not os.path.exists(KNOWN_FINDINGS):
        return {'findings': [], 'fixed': []}
    with open(KNOWN_FINDINGS) as f:
        return json.load(f)


class Outcome:
    """Result of one obligation (a Kani harness or an SMT obligation)."""

    def __init__(self, name, engine):
        self.name = name
        self.engine = engine          # 'kani' | 'mirsmt'
        self.status = 'inconclusive'  # holds | violated | inconclusive | known-finding
        self.detail = ''
        self.queries = 0              # solver queries discharged (a Kani harness = 1 SAT query per property set)
        self.checks = 0               # individual assertions decided
        self.nonvacuous = False       # reachability witness / cover confirmed
        self.time_s = 0.0
        self.solver_time_s = 0.0
        self.bounds = ''
        self.functions = []
        self.stubs = []
        self.replay = None
        self.sample = None
        self.obligation = ''

    def as_sample(self):
        d = {'obligation': self.name, 'engine': self.engine, 'status': self.status, 'bounds': self.bounds,
             'queries': self.queries, 'assertions_decided': self.checks, 'time_s': round(self.time_s, 2)}
        if self.detail:
            d['detail'] = self.detail[:400]
        if self.sample is not None:
            d['witness'] = self.sample
        return d


def write_evidence(prop, outcomes, wall_s, extra=None, assumptions=None, outside=None):
    os.makedirs(EVIDENCE_DIR, exist_ok=True)
    holds = [o for o in outcomes if o.status in ('holds', 'known-finding')]
    functions = sorted({f for o in outcomes for f in o.functions})
    stubs = sorted({s for o in outcomes for s in o.stubs})
    cov = {
        'evaluations': sum(max(o.queries, 1) for o in outcomes),
        'distinct_nontrivial': len([o for o in holds if o.nonvacuous]),
        'rule': ('one evaluation = one solver query (a Kani/CBMC harness run = one SAT query deciding all of its '
                 'assertions at once; an SMT obligation = one z3 query, plus one per cross-check / reachability twin); '
                 'an obligation counts as distinct and non-trivial when it is a different harness/obligation AND its '
                 'reachability witness (kani::cover! satisfied / reachability twin sat) was confirmed on this run, i.e. '
                 'the verdict is not vacuous'),
        'samples': [o.as_sample() for o in outcomes][:60],
        'obligations': len(outcomes),
        'discharged': len(holds),
        'assertions_decided': sum(o.checks for o in outcomes),
        'functions_encoded': functions,
        'bounds': sorted({o.bounds for o in outcomes if o.bounds}),
        'stubs_and_assumptions': stubs,
        'solver_time_s': round(sum(o.solver_time_s for o in outcomes), 2),
        'solvers': sorted({('CBMC 6.11.0 / CaDiCaL (via Kani 0.68.0)' if o.engine == 'kani' else 'z3 4.8.12 + cvc5 1.0 cross-check')
                           for o in outcomes}),
        'exhaustive': False,
        'outside_the_claim': outside or [],
    }
    if extra:
        cov.update(extra)
    ev = {
        'property_id': prop,
        'tier': tier(),
        'seed': seed(),
        'level': 'model_checking',
        'coverage': cov,
        'assumptions': assumptions or [],
        'wall_s': round(wall_s, 2),
        'violations': len([o for o in outcomes if o.status == 'violated']),
    }
    path = os.path.join(EVIDENCE_DIR, f'{prop}.json')
    tmp = path + '.tmp'
    with open(tmp, 'w') as f:
        json.dump(ev, f, indent=1)
    os.replace(tmp, path)
    return path


def finish(prop, outcomes, t0, **kw):
    """Prints the verdict lines, writes evidence and returns the exit code."""
    wall = time.time() - t0
    path = write_evidence(prop, outcomes, wall, **kw)
    code = EXIT_OK
    for o in outcomes:
        if o.status == 'known-finding':
            log(f'KNOWN-FINDING: property={prop} {o.detail}')
    for o in outcomes:
        if o.status == 'violated':
            log(f'VIOLATION property={prop} replay={o.replay}')
            log(f'  obligation={o.name} {o.detail[:300]}')
            code = EXIT_VIOLATION
    if code == EXIT_OK:
        bad = [o for o in outcomes if o.status == 'inconclusive']
        if bad:
            for o in bad:
                log(f'INCONCLUSIVE property={prop} obligation={o.name}: {o.detail[:300]}')
            code = EXIT_INCONCLUSIVE
    n_ok = len([o for o in outcomes if o.status in ('holds', 'known-finding')])
    log(f'[{prop}] tier={tier()} obligations={len(outcomes)} hold={n_ok} wall={wall:.1f}s evidence={path} exit={code}')
    return code
