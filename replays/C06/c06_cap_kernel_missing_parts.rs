// replay for property C06, harness construction::features::capacity::verif_kani_proofs::c06_cap_kernel_missing_parts (crate vrp-core, proof module capacity)
// failed: assertion failed: actual == expected @ capacity_proofs.rs:104
// run: /verif/check --replay /verif/replays/C06/c06_cap_kernel_missing_parts.rs
#[test]
fn kani_concrete_playback_c06_cap_kernel_missing_parts_6027992492434505959() {
    let concrete_vals: Vec<Vec<u8>> = vec![
        // 0
        vec![0],
        // 0
        vec![0, 0],
        // 0
        vec![0, 0],
        // 0
        vec![0, 0],
        // 0
        vec![0, 0],
        // -32768
        vec![0, 128],
    ];
    kani::concrete_playback_run(concrete_vals, c06_cap_kernel_missing_parts);
}

#[test]
fn kani_concrete_playback_c06_cap_kernel_missing_parts_17387810673103532460() {
    let concrete_vals: Vec<Vec<u8>> = vec![
        // 1
        vec![1],
        // -7404
        vec![20, 227],
        // -2404
        vec![156, 246],
        // -12344
        vec![200, 207],
        // 27363
        vec![227, 106],
        // -32768
        vec![0, 128],
    ];
    kani::concrete_playback_run(concrete_vals, c06_cap_kernel_missing_parts);
}

#[test]
fn kani_concrete_playback_c06_cap_kernel_missing_parts_12150121825759218891() {
    let concrete_vals: Vec<Vec<u8>> = vec![
        // 1
        vec![1],
        // 17709
        vec![45, 69],
        // -30354
        vec![110, 137],
        // -10340
        vec![156, 215],
        // 8192
        vec![0, 32],
        // -8209
        vec![239, 223],
    ];
    kani::concrete_playback_run(concrete_vals, c06_cap_kernel_missing_parts);
}
