// replay for property C06, harness construction::features::capacity::verif_kani_proofs::c06_cap_kernel_missing_parts (crate vrp-core, proof module capacity)
// failed: assertion failed: actual == expected @ capacity_proofs.rs:104
// run: /verif/check --replay /verif/replays/C06/c06_cap_kernel_missing_parts.rs
#[test]
fn kani_concrete_playback_c06_cap_kernel_missing_parts_6027992492434505959() {
    let concrete_vals: Vec<Vec<u8>> = vec![
        // 0
        vec![0],
        // 0
        vec![0, 0],
        // 0
        vec![0, 0],
        // 0
        vec![0, 0],
        // 0
        vec![0, 0],
        // -32768
        vec![0, 128],
    ];
    kani::concrete_playback_run(concrete_vals, c06_cap_kernel_missing_parts);
}

#[test]
fn kani_concrete_playback_c06_cap_kernel_missing_parts_6499718920276980091() {
    let concrete_vals: Vec<Vec<u8>> = vec![
        // 1
        vec![1],
        // 0
        vec![0, 0],
        // 24577
        vec![1, 96],
        // 32766
        vec![254, 127],
        // -32768
        vec![0, 128],
        // -28672
        vec![0, 144],
    ];
    kani::concrete_playback_run(concrete_vals, c06_cap_kernel_missing_parts);
}

#[test]
fn kani_concrete_playback_c06_cap_kernel_missing_parts_15586431764983946106() {
    let concrete_vals: Vec<Vec<u8>> = vec![
        // 1
        vec![1],
        // 16381
        vec![253, 63],
        // -24571
        vec![5, 160],
        // -16381
        vec![3, 192],
        // 32766
        vec![254, 127],
        // -16377
        vec![7, 192],
    ];
    kani::concrete_playback_run(concrete_vals, c06_cap_kernel_missing_parts);
}
