// replay for property C06, harness construction::features::transport::verif_kani_proofs::c06_tw_kernel_state_closed_leg (crate vrp-core, proof module transport)
// failed: assertion failed: result.is_none() == feasible @ transport_proofs.rs:75
// run: /verif/check --replay /verif/replays/C06/c06_tw_kernel_state_closed_leg.rs
#[test]
fn kani_concrete_playback_c06_tw_kernel_state_closed_leg_1308234032233830445() {
    let concrete_vals: Vec<Vec<u8>> = vec![
        // 1
        vec![1],
        // 1
        vec![1],
        // 0
        vec![0],
        // 255
        vec![255],
        // 5
        vec![5],
        // 255
        vec![255],
        // 1
        vec![1],
        // 255
        vec![255],
        // 1
        vec![1],
        // 255
        vec![255],
        // 7
        vec![7],
        // 255
        vec![255],
        // 1
        vec![1],
        // 255
        vec![255],
        // 0
        vec![0],
        // 255
        vec![255],
        // 1
        vec![1],
        // 255
        vec![255],
        // 248
        vec![248],
        // 248
        vec![248],
        // 255
        vec![255],
        // 0ul
        vec![0, 0, 0, 0, 0, 0, 0, 0],
        // 127
        vec![127],
        // 5
        vec![5],
        // 7
        vec![7],
        // 7
        vec![7],
        // 1ul
        vec![1, 0, 0, 0, 0, 0, 0, 0],
        // 0
        vec![0],
        // 191
        vec![191],
        // 255
        vec![255],
        // 2ul
        vec![2, 0, 0, 0, 0, 0, 0, 0],
        // 255
        vec![255],
        // 13
        vec![13],
    ];
    kani::concrete_playback_run(concrete_vals, c06_tw_kernel_state_closed_leg);
}

#[test]
fn kani_concrete_playback_c06_tw_kernel_state_closed_leg_724466978669163094() {
    let concrete_vals: Vec<Vec<u8>> = vec![
        // 64
        vec![64],
        // 7
        vec![7],
        // 0
        vec![0],
        // 0
        vec![0],
        // 0
        vec![0],
        // 7
        vec![7],
        // 129
        vec![129],
        // 7
        vec![7],
        // 1
        vec![1],
        // 7
        vec![7],
        // 1
        vec![1],
        // 7
        vec![7],
        // 0
        vec![0],
        // 7
        vec![7],
        // 1
        vec![1],
        // 7
        vec![7],
        // 4
        vec![4],
        // 1
        vec![1],
        // 4
        vec![4],
        // 0
        vec![0],
        // 223
        vec![223],
        // 0ul
        vec![0, 0, 0, 0, 0, 0, 0, 0],
        // 255
        vec![255],
        // 0
        vec![0],
        // 0
        vec![0],
        // 0
        vec![0],
        // 1ul
        vec![1, 0, 0, 0, 0, 0, 0, 0],
        // 0
        vec![0],
        // 1
        vec![1],
        // 255
        vec![255],
        // 2ul
        vec![2, 0, 0, 0, 0, 0, 0, 0],
        // 7
        vec![7],
        // 4
        vec![4],
    ];
    kani::concrete_playback_run(concrete_vals, c06_tw_kernel_state_closed_leg);
}

#[test]
fn kani_concrete_playback_c06_tw_kernel_state_closed_leg_11983528561690736645() {
    let concrete_vals: Vec<Vec<u8>> = vec![
        // 1
        vec![1],
        // 255
        vec![255],
        // 6
        vec![6],
        // 255
        vec![255],
        // 1
        vec![1],
        // 255
        vec![255],
        // 1
        vec![1],
        // 255
        vec![255],
        // 6
        vec![6],
        // 255
        vec![255],
        // 1
        vec![1],
        // 255
        vec![255],
        // 1
        vec![1],
        // 255
        vec![255],
        // 6
        vec![6],
        // 255
        vec![255],
        // 1
        vec![1],
        // 255
        vec![255],
        // 127
        vec![127],
        // 1
        vec![1],
        // 255
        vec![255],
        // 1ul
        vec![1, 0, 0, 0, 0, 0, 0, 0],
        // 127
        vec![127],
        // 0
        vec![0],
        // 7
        vec![7],
        // 7
        vec![7],
        // 1ul
        vec![1, 0, 0, 0, 0, 0, 0, 0],
        // 8
        vec![8],
        // 127
        vec![127],
        // 255
        vec![255],
        // 1ul
        vec![1, 0, 0, 0, 0, 0, 0, 0],
        // 255
        vec![255],
        // 97
        vec![97],
    ];
    kani::concrete_playback_run(concrete_vals, c06_tw_kernel_state_closed_leg);
}

#[test]
fn kani_concrete_playback_c06_tw_kernel_state_closed_leg_15045424561277137070() {
    let concrete_vals: Vec<Vec<u8>> = vec![
        // 16
        vec![16],
        // 1
        vec![1],
        // 72
        vec![72],
        // 1
        vec![1],
        // 64
        vec![64],
        // 1
        vec![1],
        // 25
        vec![25],
        // 1
        vec![1],
        // 128
        vec![128],
        // 64
        vec![64],
        // 128
        vec![128],
        // 128
        vec![128],
        // 64
        vec![64],
        // 128
        vec![128],
        // 64
        vec![64],
        // 1
        vec![1],
        // 65
        vec![65],
        // 1
        vec![1],
        // 100
        vec![100],
        // 9
        vec![9],
        // 255
        vec![255],
        // 1ul
        vec![1, 0, 0, 0, 0, 0, 0, 0],
        // 124
        vec![124],
        // 0
        vec![0],
        // 1
        vec![1],
        // 4
        vec![4],
        // 2ul
        vec![2, 0, 0, 0, 0, 0, 0, 0],
        // 54
        vec![54],
        // 84
        vec![84],
        // 210
        vec![210],
        // 0ul
        vec![0, 0, 0, 0, 0, 0, 0, 0],
        // 124
        vec![124],
        // 28
        vec![28],
    ];
    kani::concrete_playback_run(concrete_vals, c06_tw_kernel_state_closed_leg);
}

#[test]
fn kani_concrete_playback_c06_tw_kernel_state_closed_leg_3295071731097506807() {
    let concrete_vals: Vec<Vec<u8>> = vec![
        // 16
        vec![16],
        // 1
        vec![1],
        // 72
        vec![72],
        // 1
        vec![1],
        // 64
        vec![64],
        // 1
        vec![1],
        // 25
        vec![25],
        // 1
        vec![1],
        // 128
        vec![128],
        // 64
        vec![64],
        // 128
        vec![128],
        // 128
        vec![128],
        // 64
        vec![64],
        // 128
        vec![128],
        // 64
        vec![64],
        // 1
        vec![1],
        // 65
        vec![65],
        // 1
        vec![1],
        // 100
        vec![100],
        // 9
        vec![9],
        // 255
        vec![255],
        // 1ul
        vec![1, 0, 0, 0, 0, 0, 0, 0],
        // 124
        vec![124],
        // 0
        vec![0],
        // 1
        vec![1],
        // 4
        vec![4],
        // 2ul
        vec![2, 0, 0, 0, 0, 0, 0, 0],
        // 54
        vec![54],
        // 116
        vec![116],
        // 210
        vec![210],
        // 0ul
        vec![0, 0, 0, 0, 0, 0, 0, 0],
        // 124
        vec![124],
        // 28
        vec![28],
    ];
    kani::concrete_playback_run(concrete_vals, c06_tw_kernel_state_closed_leg);
}
