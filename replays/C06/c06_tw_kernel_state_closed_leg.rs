// replay for property C06, harness construction::features::transport::verif_kani_proofs::c06_tw_kernel_state_closed_leg (crate vrp-core, proof module transport)
// failed: assertion failed: result.is_none() == feasible @ transport_proofs.rs:75
// run: /verif/check --replay /verif/replays/C06/c06_tw_kernel_state_closed_leg.rs
/// Test generated for harness `construction::features::transport::verif_kani_proofs::c06_tw_kernel_state_closed_leg` 
///
/// Check for `assertion`: "assertion failed: result.is_none() == feasible"
///
/// # Warning
///
/// Concrete playback tests combined with stubs or contracts is highly
/// experimental, and subject to change.
///
/// The original harness has stubs which are not applied to this test.
/// This may cause a mismatch of non-deterministic values if the stub
/// creates any non-deterministic value.
/// The execution path may also differ, which can be used to refine the stub
/// logic.

#[test]
fn kani_concrete_playback_c06_tw_kernel_state_closed_leg_2972569821224864875() {
    let concrete_vals: Vec<Vec<u8>> = vec![
        // 32
        vec![32],
        // 32
        vec![32],
        // 0
        vec![0],
        // 15
        vec![15],
        // 112
        vec![112],
        // 15
        vec![15],
        // 0
        vec![0],
        // 15
        vec![15],
        // 0
        vec![0],
        // 15
        vec![15],
        // 32
        vec![32],
        // 15
        vec![15],
        // 0
        vec![0],
        // 15
        vec![15],
        // 0
        vec![0],
        // 15
        vec![15],
        // 32
        vec![32],
        // 15
        vec![15],
        // 2
        vec![2],
        // 2
        vec![2],
        // 255
        vec![255],
        // 1ul
        vec![1, 0, 0, 0, 0, 0, 0, 0],
        // 255
        vec![255],
        // 0
        vec![0],
        // 1
        vec![1],
        // 9
        vec![9],
        // 1ul
        vec![1, 0, 0, 0, 0, 0, 0, 0],
        // 0
        vec![0],
        // 0
        vec![0],
        // 255
        vec![255],
        // 2ul
        vec![2, 0, 0, 0, 0, 0, 0, 0],
        // 255
        vec![255],
        // 32
        vec![32],
    ];
    kani::concrete_playback_run(concrete_vals, c06_tw_kernel_state_closed_leg);
}

/// Test generated for harness `construction::features::transport::verif_kani_proofs::c06_tw_kernel_state_closed_leg` 
///
/// Check for `cover`: "accepted"
///
/// # Warning
///
/// Concrete playback tests combined with stubs or contracts is highly
/// experimental, and subject to change.
///
/// The original harness has stubs which are not applied to this test.
/// This may cause a mismatch of non-deterministic values if the stub
/// creates any non-deterministic value.
/// The execution path may also differ, which can be used to refine the stub
/// logic.

#[test]
fn kani_concrete_playback_c06_tw_kernel_state_closed_leg_8094253128287740480() {
    let concrete_vals: Vec<Vec<u8>> = vec![
        // 255
        vec![255],
        // 255
        vec![255],
        // 3
        vec![3],
        // 255
        vec![255],
        // 3
        vec![3],
        // 255
        vec![255],
        // 255
        vec![255],
        // 255
        vec![255],
        // 255
        vec![255],
        // 255
        vec![255],
        // 255
        vec![255],
        // 255
        vec![255],
        // 245
        vec![245],
        // 255
        vec![255],
        // 3
        vec![3],
        // 255
        vec![255],
        // 2
        vec![2],
        // 255
        vec![255],
        // 159
        vec![159],
        // 159
        vec![159],
        // 255
        vec![255],
        // 2ul
        vec![2, 0, 0, 0, 0, 0, 0, 0],
        // 255
        vec![255],
        // 1
        vec![1],
        // 5
        vec![5],
        // 255
        vec![255],
        // 2ul
        vec![2, 0, 0, 0, 0, 0, 0, 0],
        // 1
        vec![1],
        // 142
        vec![142],
        // 255
        vec![255],
        // 2ul
        vec![2, 0, 0, 0, 0, 0, 0, 0],
        // 255
        vec![255],
        // 129
        vec![129],
    ];
    kani::concrete_playback_run(concrete_vals, c06_tw_kernel_state_closed_leg);
}

/// Test generated for harness `construction::features::transport::verif_kani_proofs::c06_tw_kernel_state_closed_leg` 
///
/// Check for `cover`: "skipped"
///
/// # Warning
///
/// Concrete playback tests combined with stubs or contracts is highly
/// experimental, and subject to change.
///
/// The original harness has stubs which are not applied to this test.
/// This may cause a mismatch of non-deterministic values if the stub
/// creates any non-deterministic value.
/// The execution path may also differ, which can be used to refine the stub
/// logic.

#[test]
fn kani_concrete_playback_c06_tw_kernel_state_closed_leg_17638324230878053615() {
    let concrete_vals: Vec<Vec<u8>> = vec![
        // 1
        vec![1],
        // 0
        vec![0],
        // 0
        vec![0],
        // 0
        vec![0],
        // 16
        vec![16],
        // 0
        vec![0],
        // 64
        vec![64],
        // 0
        vec![0],
        // 1
        vec![1],
        // 0
        vec![0],
        // 16
        vec![16],
        // 0
        vec![0],
        // 1
        vec![1],
        // 0
        vec![0],
        // 1
        vec![1],
        // 0
        vec![0],
        // 16
        vec![16],
        // 0
        vec![0],
        // 254
        vec![254],
        // 13
        vec![13],
        // 255
        vec![255],
        // 2ul
        vec![2, 0, 0, 0, 0, 0, 0, 0],
        // 124
        vec![124],
        // 0
        vec![0],
        // 252
        vec![252],
        // 252
        vec![252],
        // 2ul
        vec![2, 0, 0, 0, 0, 0, 0, 0],
        // 33
        vec![33],
        // 13
        vec![13],
        // 184
        vec![184],
        // 0ul
        vec![0, 0, 0, 0, 0, 0, 0, 0],
        // 124
        vec![124],
        // 1
        vec![1],
    ];
    kani::concrete_playback_run(concrete_vals, c06_tw_kernel_state_closed_leg);
}

/// Test generated for harness `construction::features::transport::verif_kani_proofs::c06_tw_kernel_state_closed_leg` 
///
/// Check for `cover`: "stopped"
///
/// # Warning
///
/// Concrete playback tests combined with stubs or contracts is highly
/// experimental, and subject to change.
///
/// The original harness has stubs which are not applied to this test.
/// This may cause a mismatch of non-deterministic values if the stub
/// creates any non-deterministic value.
/// The execution path may also differ, which can be used to refine the stub
/// logic.

#[test]
fn kani_concrete_playback_c06_tw_kernel_state_closed_leg_3367012642552324082() {
    let concrete_vals: Vec<Vec<u8>> = vec![
        // 14
        vec![14],
        // 240
        vec![240],
        // 6
        vec![6],
        // 240
        vec![240],
        // 15
        vec![15],
        // 240
        vec![240],
        // 14
        vec![14],
        // 240
        vec![240],
        // 1
        vec![1],
        // 240
        vec![240],
        // 15
        vec![15],
        // 240
        vec![240],
        // 14
        vec![14],
        // 240
        vec![240],
        // 1
        vec![1],
        // 240
        vec![240],
        // 240
        vec![240],
        // 240
        vec![240],
        // 32
        vec![32],
        // 64
        vec![64],
        // 255
        vec![255],
        // 1ul
        vec![1, 0, 0, 0, 0, 0, 0, 0],
        // 124
        vec![124],
        // 8
        vec![8],
        // 0
        vec![0],
        // 0
        vec![0],
        // 2ul
        vec![2, 0, 0, 0, 0, 0, 0, 0],
        // 0
        vec![0],
        // 0
        vec![0],
        // 23
        vec![23],
        // 2ul
        vec![2, 0, 0, 0, 0, 0, 0, 0],
        // 124
        vec![124],
        // 23
        vec![23],
    ];
    kani::concrete_playback_run(concrete_vals, c06_tw_kernel_state_closed_leg);
}
