// replay for property C06, harness construction::features::transport::verif_kani_proofs::c06_tw_kernel_state_open_end (crate vrp-core, proof module transport)
// failed: assertion failed: result.is_none() == feasible @ transport_proofs.rs:115
// run: /verif/check --replay /verif/replays/C06/c06_tw_kernel_state_open_end.rs
/// Test generated for harness `construction::features::transport::verif_kani_proofs::c06_tw_kernel_state_open_end` 
///
/// Check for `cover`: "rejected"
///
/// # Warning
///
/// Concrete playback tests combined with stubs or contracts is highly
/// experimental, and subject to change.
///
/// The original harness has stubs which are not applied to this test.
/// This may cause a mismatch of non-deterministic values if the stub
/// creates any non-deterministic value.
/// The execution path may also differ, which can be used to refine the stub
/// logic.

#[test]
fn kani_concrete_playback_c06_tw_kernel_state_open_end_14292578256112317125() {
    let concrete_vals: Vec<Vec<u8>> = vec![
        // 0
        vec![0],
        // 2
        vec![2],
        // 2
        vec![2],
        // 2
        vec![2],
        // 0
        vec![0],
        // 2
        vec![2],
        // 2
        vec![2],
        // 2
        vec![2],
        // 2
        vec![2],
        // 2
        vec![2],
        // 1
        vec![1],
        // 2
        vec![2],
        // 2
        vec![2],
        // 2
        vec![2],
        // 2
        vec![2],
        // 2
        vec![2],
        // 1
        vec![1],
        // 2
        vec![2],
        // 2
        vec![2],
        // 2
        vec![2],
        // 0ul
        vec![0, 0, 0, 0, 0, 0, 0, 0],
        // 2
        vec![2],
        // 1
        vec![1],
        // 0
        vec![0],
        // 0
        vec![0],
        // 2ul
        vec![2, 0, 0, 0, 0, 0, 0, 0],
        // 2
        vec![2],
    ];
    kani::concrete_playback_run(concrete_vals, c06_tw_kernel_state_open_end);
}

/// Test generated for harness `construction::features::transport::verif_kani_proofs::c06_tw_kernel_state_open_end` 
///
/// Check for `assertion`: "assertion failed: result.is_none() == feasible"
///
/// # Warning
///
/// Concrete playback tests combined with stubs or contracts is highly
/// experimental, and subject to change.
///
/// The original harness has stubs which are not applied to this test.
/// This may cause a mismatch of non-deterministic values if the stub
/// creates any non-deterministic value.
/// The execution path may also differ, which can be used to refine the stub
/// logic.

#[test]
fn kani_concrete_playback_c06_tw_kernel_state_open_end_6874519881856194343() {
    let concrete_vals: Vec<Vec<u8>> = vec![
        // 8
        vec![8],
        // 2
        vec![2],
        // 64
        vec![64],
        // 2
        vec![2],
        // 12
        vec![12],
        // 2
        vec![2],
        // 8
        vec![8],
        // 2
        vec![2],
        // 0
        vec![0],
        // 2
        vec![2],
        // 50
        vec![50],
        // 2
        vec![2],
        // 8
        vec![8],
        // 2
        vec![2],
        // 0
        vec![0],
        // 2
        vec![2],
        // 50
        vec![50],
        // 2
        vec![2],
        // 2
        vec![2],
        // 2
        vec![2],
        // 1ul
        vec![1, 0, 0, 0, 0, 0, 0, 0],
        // 2
        vec![2],
        // 30
        vec![30],
        // 240
        vec![240],
        // 244
        vec![244],
        // 2ul
        vec![2, 0, 0, 0, 0, 0, 0, 0],
        // 116
        vec![116],
    ];
    kani::concrete_playback_run(concrete_vals, c06_tw_kernel_state_open_end);
}
