// replay for property C06, harness construction::features::capacity::verif_kani_proofs::c06_cap_kernel_single_dim (crate vrp-core, proof module capacity)
// failed: assertion failed: actual == expected @ capacity_proofs.rs:70
// run: /verif/check --replay /verif/replays/C06/c06_cap_kernel_single_dim.rs
#[test]
fn kani_concrete_playback_c06_cap_kernel_single_dim_15007858481824150072() {
    let concrete_vals: Vec<Vec<u8>> = vec![
        // 1
        vec![1, 0],
        // -15489
        vec![127, 195],
        // -16386
        vec![254, 191],
        // 16470
        vec![86, 64],
        // 128
        vec![128, 0],
        // 257
        vec![1, 1],
        // 10665
        vec![169, 41],
        // 0
        vec![0, 0],
        // 7716
        vec![36, 30],
        // 15490
        vec![130, 60],
        // 8695
        vec![247, 33],
        // 0
        vec![0],
    ];
    kani::concrete_playback_run(concrete_vals, c06_cap_kernel_single_dim);
}

#[test]
fn kani_concrete_playback_c06_cap_kernel_single_dim_10008433525164498758() {
    let concrete_vals: Vec<Vec<u8>> = vec![
        // -500
        vec![12, 254],
        // -3
        vec![253, 255],
        // -2
        vec![254, 255],
        // -2
        vec![254, 255],
        // 514
        vec![2, 2],
        // 257
        vec![1, 1],
        // 257
        vec![1, 1],
        // -1
        vec![255, 255],
        // 0
        vec![0, 0],
        // 2
        vec![2, 0],
        // -2
        vec![254, 255],
        // 1
        vec![1],
    ];
    kani::concrete_playback_run(concrete_vals, c06_cap_kernel_single_dim);
}

#[test]
fn kani_concrete_playback_c06_cap_kernel_single_dim_8122253325527692904() {
    let concrete_vals: Vec<Vec<u8>> = vec![
        // 30733
        vec![13, 120],
        // 31773
        vec![29, 124],
        // 32189
        vec![189, 125],
        // -417
        vec![95, 254],
        // -7454
        vec![226, 226],
        // -15806
        vec![66, 194],
        // 8352
        vec![160, 32],
        // 16499
        vec![115, 64],
        // -16904
        vec![248, 189],
        // -887
        vec![137, 252],
        // 56
        vec![56, 0],
        // 0
        vec![0],
    ];
    kani::concrete_playback_run(concrete_vals, c06_cap_kernel_single_dim);
}

#[test]
fn kani_concrete_playback_c06_cap_kernel_single_dim_7036689098036283325() {
    let concrete_vals: Vec<Vec<u8>> = vec![
        // -1
        vec![255, 255],
        // -16386
        vec![254, 191],
        // -145
        vec![111, 255],
        // -1
        vec![255, 255],
        // -32511
        vec![1, 129],
        // -28528
        vec![144, 144],
        // -32768
        vec![0, 128],
        // 11986
        vec![210, 46],
        // -32320
        vec![192, 129],
        // 0
        vec![0, 0],
        // -16382
        vec![2, 192],
        // 1
        vec![1],
    ];
    kani::concrete_playback_run(concrete_vals, c06_cap_kernel_single_dim);
}
