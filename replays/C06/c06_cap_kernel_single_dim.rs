// replay for property C06, harness construction::features::capacity::verif_kani_proofs::c06_cap_kernel_single_dim (crate vrp-core, proof module capacity)
// failed: assertion failed: actual == expected @ capacity_proofs.rs:70
// run: /verif/check --replay /verif/replays/C06/c06_cap_kernel_single_dim.rs
#[test]
fn kani_concrete_playback_c06_cap_kernel_single_dim_6719595651198085160() {
    let concrete_vals: Vec<Vec<u8>> = vec![
        // 0
        vec![0, 0],
        // 0
        vec![0, 0],
        // 0
        vec![0, 0],
        // 1
        vec![1, 0],
        // 32767
        vec![255, 127],
        // 32767
        vec![255, 127],
        // 32510
        vec![254, 126],
        // 0
        vec![0, 0],
        // -32767
        vec![1, 128],
        // -32768
        vec![0, 128],
        // 1
        vec![1, 0],
        // 0
        vec![0],
    ];
    kani::concrete_playback_run(concrete_vals, c06_cap_kernel_single_dim);
}

#[test]
fn kani_concrete_playback_c06_cap_kernel_single_dim_11315683305282844155() {
    let concrete_vals: Vec<Vec<u8>> = vec![
        // -3316
        vec![12, 243],
        // -3
        vec![253, 255],
        // -2
        vec![254, 255],
        // -2
        vec![254, 255],
        // 514
        vec![2, 2],
        // 257
        vec![1, 1],
        // 257
        vec![1, 1],
        // -1
        vec![255, 255],
        // 0
        vec![0, 0],
        // 2
        vec![2, 0],
        // -2
        vec![254, 255],
        // 1
        vec![1],
    ];
    kani::concrete_playback_run(concrete_vals, c06_cap_kernel_single_dim);
}

#[test]
fn kani_concrete_playback_c06_cap_kernel_single_dim_10835528784923574438() {
    let concrete_vals: Vec<Vec<u8>> = vec![
        // -15
        vec![241, 255],
        // -1
        vec![255, 255],
        // -1
        vec![255, 255],
        // -32767
        vec![1, 128],
        // -32768
        vec![0, 128],
        // -32768
        vec![0, 128],
        // -258
        vec![254, 254],
        // -1
        vec![255, 255],
        // -7
        vec![249, 255],
        // -15
        vec![241, 255],
        // -32759
        vec![9, 128],
        // 1
        vec![1],
    ];
    kani::concrete_playback_run(concrete_vals, c06_cap_kernel_single_dim);
}

#[test]
fn kani_concrete_playback_c06_cap_kernel_single_dim_4906597883175476364() {
    let concrete_vals: Vec<Vec<u8>> = vec![
        // 32175
        vec![175, 125],
        // 30861
        vec![141, 120],
        // 21792
        vec![32, 85],
        // 5060
        vec![196, 19],
        // -3470
        vec![114, 242],
        // -8225
        vec![223, 223],
        // -17605
        vec![59, 187],
        // 14195
        vec![115, 55],
        // -13269
        vec![43, 204],
        // -286
        vec![226, 254],
        // 31825
        vec![81, 124],
        // 1
        vec![1],
    ];
    kani::concrete_playback_run(concrete_vals, c06_cap_kernel_single_dim);
}
