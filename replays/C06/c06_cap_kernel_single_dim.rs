// replay for property C06, harness construction::features::capacity::verif_kani_proofs::c06_cap_kernel_single_dim (crate vrp-core, proof module capacity)
// failed: assertion failed: actual == expected @ capacity_proofs.rs:70
// run: /verif/check --replay /verif/replays/C06/c06_cap_kernel_single_dim.rs
#[test]
fn kani_concrete_playback_c06_cap_kernel_single_dim_2567809127075630156() {
    let concrete_vals: Vec<Vec<u8>> = vec![
        // -2207
        vec![97, 247],
        // -23233
        vec![63, 165],
        // 493
        vec![237, 1],
        // 1741
        vec![205, 6],
        // -16192
        vec![192, 192],
        // 4626
        vec![18, 18],
        // 12850
        vec![50, 50],
        // -1047
        vec![233, 251],
        // 5354
        vec![234, 20],
        // -13279
        vec![33, 204],
        // 26238
        vec![126, 102],
        // 0
        vec![0],
    ];
    kani::concrete_playback_run(concrete_vals, c06_cap_kernel_single_dim);
}

#[test]
fn kani_concrete_playback_c06_cap_kernel_single_dim_11315683305282844155() {
    let concrete_vals: Vec<Vec<u8>> = vec![
        // -3316
        vec![12, 243],
        // -3
        vec![253, 255],
        // -2
        vec![254, 255],
        // -2
        vec![254, 255],
        // 514
        vec![2, 2],
        // 257
        vec![1, 1],
        // 257
        vec![1, 1],
        // -1
        vec![255, 255],
        // 0
        vec![0, 0],
        // 2
        vec![2, 0],
        // -2
        vec![254, 255],
        // 1
        vec![1],
    ];
    kani::concrete_playback_run(concrete_vals, c06_cap_kernel_single_dim);
}

#[test]
fn kani_concrete_playback_c06_cap_kernel_single_dim_11576661028084119404() {
    let concrete_vals: Vec<Vec<u8>> = vec![
        // -244
        vec![12, 255],
        // 32511
        vec![255, 126],
        // 0
        vec![0, 0],
        // -2
        vec![254, 255],
        // 0
        vec![0, 0],
        // -1
        vec![255, 255],
        // 257
        vec![1, 1],
        // -500
        vec![12, 254],
        // 243
        vec![243, 0],
        // -254
        vec![2, 255],
        // -2
        vec![254, 255],
        // 0
        vec![0],
    ];
    kani::concrete_playback_run(concrete_vals, c06_cap_kernel_single_dim);
}
