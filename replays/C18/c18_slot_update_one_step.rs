// replay for property C18, harness algorithms::rl::slot_machine::verif_kani_proofs::c18_slot_update_one_step (crate rosomaxa, proof module slot_machine)
// failed: assertion failed: count == n @ slot_machine_proofs.rs:70
// run: /verif/check --replay /verif/replays/C18/c18_slot_update_one_step.rs
#[test]
fn kani_concrete_playback_c18_slot_update_one_step_8634087076114422118() {
    let concrete_vals: Vec<Vec<u8>> = vec![
        // 3.607053e-308
        vec![38, 31, 224, 159, 255, 239, 25, 0],
        // 4.450148e-308
        vec![0, 0, 0, 0, 0, 0, 32, 0],
    ];
    kani::concrete_playback_run(concrete_vals, c18_slot_update_one_step);
}

#[test]
fn kani_concrete_playback_c18_slot_update_one_step_11184740451524993841() {
    let concrete_vals: Vec<Vec<u8>> = vec![
        // 6.705523e-6
        vec![0, 0, 64, 0, 0, 32, 220, 62],
        // 0
        vec![0, 0, 0, 0, 0, 0, 0, 0],
    ];
    kani::concrete_playback_run(concrete_vals, c18_slot_update_one_step);
}
