// replay for property C18, harness algorithms::rl::slot_machine::verif_kani_proofs::c18_slot_sample_preconditions (crate rosomaxa, proof module slot_machine)
// failed: assertion failed: std_dev.is_finite() && std_dev >= 0. @ slot_machine_proofs.rs:132; NaN on division @ <builtin-library-sqrt>:25
// run: /verif/check --replay /verif/replays/C18/c18_slot_sample_preconditions.rs
#[test]
fn kani_concrete_playback_c18_slot_sample_preconditions_12027491465791000803() {
    let concrete_vals: Vec<Vec<u8>> = vec![
        // 2
        vec![255, 255, 255, 255, 255, 255, 255, 63],
        // 1
        vec![1],
        // 2
        vec![255, 255, 255, 255, 255, 255, 255, 63],
        // -0
        vec![0, 0, 0, 0, 0, 0, 0, 128],
    ];
    kani::concrete_playback_run(concrete_vals, c18_slot_sample_preconditions);
}

#[test]
fn kani_concrete_playback_c18_slot_sample_preconditions_8259041569667452252() {
    let concrete_vals: Vec<Vec<u8>> = vec![
        // 3.492460e-10
        vec![0, 0, 0, 0, 0, 0, 248, 61],
        // 1
        vec![1],
        // 5.242880e+5
        vec![0, 0, 0, 0, 0, 0, 32, 65],
        // 1.999996
        vec![123, 193, 191, 121, 251, 255, 255, 63],
    ];
    kani::concrete_playback_run(concrete_vals, c18_slot_sample_preconditions);
}

#[test]
fn kani_concrete_playback_c18_slot_sample_preconditions_10579935683354627345() {
    let concrete_vals: Vec<Vec<u8>> = vec![
        // 3.645554e-304
        vec![63, 224, 233, 255, 251, 255, 239, 0],
        // 0
        vec![0],
        // 1.999996
        vec![123, 193, 191, 121, 251, 255, 255, 63],
    ];
    kani::concrete_playback_run(concrete_vals, c18_slot_sample_preconditions);
}
