// replay for property C09, harness construction::heuristics::insertions::verif_kani_proofs::c09_cost_spill_len7 (crate vrp-core, proof module insertions)
// failed: assertion failed: x.data.len() == 7 @ insertions_proofs.rs:718
// run: /verif/check --replay /verif/replays/C09/c09_cost_spill_len7.rs
#[test]
fn kani_concrete_playback_c09_cost_spill_len7_6514376898935465432() {
    let concrete_vals: Vec<Vec<u8>> = vec![
        // 0
        vec![0, 0, 0, 0],
        // 0
        vec![0, 0, 0, 0],
        // 0
        vec![0, 0, 0, 0],
        // 0
        vec![0, 0, 0, 0],
        // 0
        vec![0, 0, 0, 0],
        // 0
        vec![0, 0, 0, 0],
        // 0
        vec![0, 0, 0, 0],
    ];
    kani::concrete_playback_run(concrete_vals, c09_cost_spill_len7);
}
