// replay for property C09, harness construction::heuristics::insertions::verif_kani_proofs::c09_cost_algebra_1_2 (crate vrp-core, proof module insertions)
// failed: assertion failed: sum.data.len() == n && diff.data.len() == n @ insertions_proofs.rs:108
// run: /verif/check --replay /verif/replays/C09/c09_cost_algebra_1_2.rs
#[test]
fn kani_concrete_playback_c09_cost_algebra_1_2_9079384640070847339() {
    let concrete_vals: Vec<Vec<u8>> = vec![
        // 0
        vec![0, 0, 0, 0],
        // 0
        vec![0, 0, 0, 0],
        // 0
        vec![0, 0, 0, 0],
    ];
    kani::concrete_playback_run(concrete_vals, c09_cost_algebra_1_2);
}
