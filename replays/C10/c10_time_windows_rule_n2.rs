// replay for property C10, harness validation::common::verif_kani_proofs::c10_time_windows_rule_n2 (crate vrp-pragmatic, proof module common)
// failed: assertion failed: accepted == expected @ common_proofs.rs:50
// run: /verif/check --replay /verif/replays/C10/c10_time_windows_rule_n2.rs
#[test]
fn kani_concrete_playback_c10_time_windows_rule_n2_16641836327349289057() {
    let concrete_vals: Vec<Vec<u8>> = vec![
        // 1
        vec![1],
        // -3844
        vec![252, 240],
        // 2
        vec![2, 0],
        // 1
        vec![1],
        // -4005
        vec![91, 240],
        // 0
        vec![0, 0],
        // 1
        vec![1],
    ];
    kani::concrete_playback_run(concrete_vals, c10_time_windows_rule_n2);
}

#[test]
fn kani_concrete_playback_c10_time_windows_rule_n2_17384225399242397809() {
    let concrete_vals: Vec<Vec<u8>> = vec![
        // 1
        vec![1],
        // 0
        vec![0, 0],
        // -32768
        vec![0, 128],
        // 1
        vec![1],
        // 0
        vec![0, 0],
        // -32768
        vec![0, 128],
        // 0
        vec![0],
    ];
    kani::concrete_playback_run(concrete_vals, c10_time_windows_rule_n2);
}

#[test]
fn kani_concrete_playback_c10_time_windows_rule_n2_14377058342039382124() {
    let concrete_vals: Vec<Vec<u8>> = vec![
        // 1
        vec![1],
        // 0
        vec![0, 0],
        // 256
        vec![0, 1],
        // 1
        vec![1],
        // 258
        vec![2, 1],
        // -2
        vec![254, 255],
        // 0
        vec![0],
    ];
    kani::concrete_playback_run(concrete_vals, c10_time_windows_rule_n2);
}
