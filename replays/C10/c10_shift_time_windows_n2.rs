// replay for property C10, harness validation::vehicles::verif_kani_proofs::c10_shift_time_windows_n2 (crate vrp-pragmatic, proof module vehicles)
// failed: assertion failed: accepted == expected @ vehicles_proofs.rs:47
// run: /verif/check --replay /verif/replays/C10/c10_shift_time_windows_n2.rs
#[test]
fn kani_concrete_playback_c10_shift_time_windows_n2_12684297909493614014() {
    let concrete_vals: Vec<Vec<u8>> = vec![
        // -24573
        vec![3, 160],
        // -22527
        vec![1, 168],
        // -32768
        vec![0, 128],
        // -2560
        vec![0, 246],
        // -2
        vec![254, 255],
        // -2
        vec![254, 255],
        // 1
        vec![1],
        // -22527
        vec![1, 168],
        // -32768
        vec![0, 128],
        // 1
        vec![1],
    ];
    kani::concrete_playback_run(concrete_vals, c10_shift_time_windows_n2);
}

#[test]
fn kani_concrete_playback_c10_shift_time_windows_n2_4587071746929726521() {
    let concrete_vals: Vec<Vec<u8>> = vec![
        // 0
        vec![0, 0],
        // -32768
        vec![0, 128],
        // 0
        vec![0, 0],
        // -32768
        vec![0, 128],
        // 0
        vec![0, 0],
        // 0
        vec![0, 0],
        // 0
        vec![0],
        // 0
        vec![0, 0],
        // -32768
        vec![0, 128],
        // 0
        vec![0],
    ];
    kani::concrete_playback_run(concrete_vals, c10_shift_time_windows_n2);
}
