// replay for property C10, harness validation::common::verif_kani_proofs::c10_time_windows_rule_n3 (crate vrp-pragmatic, proof module common)
// failed: assertion failed: accepted == expected @ common_proofs.rs:50
// run: /verif/check --replay /verif/replays/C10/c10_time_windows_rule_n3.rs
#[test]
fn kani_concrete_playback_c10_time_windows_rule_n3_16848828527317719651() {
    let concrete_vals: Vec<Vec<u8>> = vec![
        // 1
        vec![1],
        // -1
        vec![255, 255],
        // -1
        vec![255, 255],
        // 1
        vec![1],
        // -16385
        vec![255, 191],
        // -1
        vec![255, 255],
        // 1
        vec![1],
        // -24577
        vec![255, 159],
        // -1
        vec![255, 255],
        // 1
        vec![1],
    ];
    kani::concrete_playback_run(concrete_vals, c10_time_windows_rule_n3);
}

#[test]
fn kani_concrete_playback_c10_time_windows_rule_n3_678035333410654009() {
    let concrete_vals: Vec<Vec<u8>> = vec![
        // 1
        vec![1],
        // 0
        vec![0, 0],
        // -32768
        vec![0, 128],
        // 1
        vec![1],
        // 0
        vec![0, 0],
        // -32768
        vec![0, 128],
        // 1
        vec![1],
        // 0
        vec![0, 0],
        // -32768
        vec![0, 128],
        // 0
        vec![0],
    ];
    kani::concrete_playback_run(concrete_vals, c10_time_windows_rule_n3);
}

#[test]
fn kani_concrete_playback_c10_time_windows_rule_n3_4725838397568498151() {
    let concrete_vals: Vec<Vec<u8>> = vec![
        // 1
        vec![1],
        // -2
        vec![254, 255],
        // 2
        vec![2, 0],
        // 1
        vec![1],
        // -7680
        vec![0, 226],
        // 0
        vec![0, 0],
        // 1
        vec![1],
        // -2
        vec![254, 255],
        // -32768
        vec![0, 128],
        // 1
        vec![1],
    ];
    kani::concrete_playback_run(concrete_vals, c10_time_windows_rule_n3);
}
