// replay for property C01, harness construction::features::capacity::verif_kani_proofs::c06_cap_kernel_single_dim (crate vrp-core, proof module capacity)
// failed: assertion failed: actual == expected @ capacity_proofs.rs:70
// run: /verif/check --replay /verif/replays/C01/c06_cap_kernel_single_dim.rs
#[test]
fn kani_concrete_playback_c06_cap_kernel_single_dim_7368352883428651259() {
    let concrete_vals: Vec<Vec<u8>> = vec![
        // 15351
        vec![247, 59],
        // 432
        vec![176, 1],
        // -67
        vec![189, 255],
        // -17473
        vec![191, 187],
        // -12465
        vec![79, 207],
        // -15806
        vec![66, 194],
        // -16320
        vec![64, 192],
        // 31
        vec![31, 0],
        // -892
        vec![132, 252],
        // 14913
        vec![65, 58],
        // -484
        vec![28, 254],
        // 0
        vec![0],
    ];
    kani::concrete_playback_run(concrete_vals, c06_cap_kernel_single_dim);
}

#[test]
fn kani_concrete_playback_c06_cap_kernel_single_dim_11315683305282844155() {
    let concrete_vals: Vec<Vec<u8>> = vec![
        // -3316
        vec![12, 243],
        // -3
        vec![253, 255],
        // -2
        vec![254, 255],
        // -2
        vec![254, 255],
        // 514
        vec![2, 2],
        // 257
        vec![1, 1],
        // 257
        vec![1, 1],
        // -1
        vec![255, 255],
        // 0
        vec![0, 0],
        // 2
        vec![2, 0],
        // -2
        vec![254, 255],
        // 1
        vec![1],
    ];
    kani::concrete_playback_run(concrete_vals, c06_cap_kernel_single_dim);
}

#[test]
fn kani_concrete_playback_c06_cap_kernel_single_dim_11576661028084119404() {
    let concrete_vals: Vec<Vec<u8>> = vec![
        // -244
        vec![12, 255],
        // 32511
        vec![255, 126],
        // 0
        vec![0, 0],
        // -2
        vec![254, 255],
        // 0
        vec![0, 0],
        // -1
        vec![255, 255],
        // 257
        vec![1, 1],
        // -500
        vec![12, 254],
        // 243
        vec![243, 0],
        // -254
        vec![2, 255],
        // -2
        vec![254, 255],
        // 0
        vec![0],
    ];
    kani::concrete_playback_run(concrete_vals, c06_cap_kernel_single_dim);
}

#[test]
fn kani_concrete_playback_c06_cap_kernel_single_dim_7986331733084501449() {
    let concrete_vals: Vec<Vec<u8>> = vec![
        // 15351
        vec![247, 59],
        // -25559
        vec![41, 156],
        // 16826
        vec![186, 65],
        // 2752
        vec![192, 10],
        // -10538
        vec![214, 214],
        // -15035
        vec![69, 197],
        // 16191
        vec![63, 63],
        // 31720
        vec![232, 123],
        // -142
        vec![114, 255],
        // 20424
        vec![200, 79],
        // 14121
        vec![41, 55],
        // 0
        vec![0],
    ];
    kani::concrete_playback_run(concrete_vals, c06_cap_kernel_single_dim);
}
