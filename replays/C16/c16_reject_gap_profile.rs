// replay for property C16, harness models::problem::costs::verif_kani_proofs::c16_reject_gap_profile (crate vrp-core, proof module costs)
// failed: assertion failed: create_matrix_transport_cost(vec![matrix(0, None, 4, 4),
matrix(2, None, 4, 4)]).is_err() @ costs_proofs.rs:171
// run: /verif/check --replay /verif/replays/C16/c16_reject_gap_profile.rs
#[test]
fn kani_concrete_playback_c16_reject_gap_profile_14529796391013740085() {
    let concrete_vals: Vec<Vec<u8>> = vec![
    ];
    kani::concrete_playback_run(concrete_vals, c16_reject_gap_profile);
}
