// replay for property C08, harness population::elitism::verif_kani_proofs::c08_elitism_add_all_k1_n2_max1 (crate rosomaxa, proof module elitism)
// failed: assertion failed: le(pop.individuals[0].f, seen[j].f) @ elitism_proofs.rs:56
// run: /verif/check --replay /verif/replays/C08/c08_elitism_add_all_k1_n2_max1.rs
#[test]
fn kani_concrete_playback_c08_elitism_add_all_k1_n2_max1_4748773536628154976() {
    let concrete_vals: Vec<Vec<u8>> = vec![
        // 32767
        vec![255, 127],
        // 32767
        vec![255, 127],
        // 32767
        vec![255, 127],
        // 2048
        vec![0, 8],
        // 255
        vec![255, 0],
        // -3
        vec![253, 255],
        // 1
        vec![1],
    ];
    kani::concrete_playback_run(concrete_vals, c08_elitism_add_all_k1_n2_max1);
}

#[test]
fn kani_concrete_playback_c08_elitism_add_all_k1_n2_max1_16175902611978321038() {
    let concrete_vals: Vec<Vec<u8>> = vec![
        // 224
        vec![224, 0],
        // 32767
        vec![255, 127],
        // 32767
        vec![255, 127],
        // 160
        vec![160, 0],
        // 160
        vec![160, 0],
        // -3
        vec![253, 255],
        // 1
        vec![1],
    ];
    kani::concrete_playback_run(concrete_vals, c08_elitism_add_all_k1_n2_max1);
}

#[test]
fn kani_concrete_playback_c08_elitism_add_all_k1_n2_max1_4782909486390490407() {
    let concrete_vals: Vec<Vec<u8>> = vec![
        // -64
        vec![192, 255],
        // 32767
        vec![255, 127],
        // 32767
        vec![255, 127],
        // -64
        vec![192, 255],
        // -64
        vec![192, 255],
        // -3
        vec![253, 255],
        // 1
        vec![1],
    ];
    kani::concrete_playback_run(concrete_vals, c08_elitism_add_all_k1_n2_max1);
}
