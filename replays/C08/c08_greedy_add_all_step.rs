// replay for property C08, harness population::greedy::verif_kani_proofs::c08_greedy_add_all_step (crate rosomaxa, proof module greedy)
// failed: assertion failed: le(best.f, batch[idx].f) @ greedy_proofs.rs:73
// run: /verif/check --replay /verif/replays/C08/c08_greedy_add_all_step.rs
#[test]
fn kani_concrete_playback_c08_greedy_add_all_step_9498392029691900043() {
    let concrete_vals: Vec<Vec<u8>> = vec![
        // 0
        vec![0],
        // -510
        vec![2, 254],
        // 3ul
        vec![3, 0, 0, 0, 0, 0, 0, 0],
        // -510
        vec![2, 254],
        // -511
        vec![1, 254],
        // -511
        vec![1, 254],
    ];
    kani::concrete_playback_run(concrete_vals, c08_greedy_add_all_step);
}

#[test]
fn kani_concrete_playback_c08_greedy_add_all_step_11923552793560146811() {
    let concrete_vals: Vec<Vec<u8>> = vec![
        // 1
        vec![1],
        // -48
        vec![208, 255],
        // 3ul
        vec![3, 0, 0, 0, 0, 0, 0, 0],
        // 32767
        vec![255, 127],
        // -2
        vec![254, 255],
        // -1665
        vec![127, 249],
    ];
    kani::concrete_playback_run(concrete_vals, c08_greedy_add_all_step);
}

#[test]
fn kani_concrete_playback_c08_greedy_add_all_step_2675332283984453863() {
    let concrete_vals: Vec<Vec<u8>> = vec![
        // 1
        vec![1],
        // -32767
        vec![1, 128],
        // 3ul
        vec![3, 0, 0, 0, 0, 0, 0, 0],
        // -32767
        vec![1, 128],
        // -32767
        vec![1, 128],
        // -32767
        vec![1, 128],
    ];
    kani::concrete_playback_run(concrete_vals, c08_greedy_add_all_step);
}
