// replay for property C08, harness population::elitism::verif_kani_proofs::c08_elitism_add_all_k0_n2_max1 (crate rosomaxa, proof module elitism)
// failed: assertion failed: le(pop.individuals[0].f, seen[j].f) @ elitism_proofs.rs:56
// run: /verif/check --replay /verif/replays/C08/c08_elitism_add_all_k0_n2_max1.rs
#[test]
fn kani_concrete_playback_c08_elitism_add_all_k0_n2_max1_8700626268541455115() {
    let concrete_vals: Vec<Vec<u8>> = vec![
        // 0
        vec![0, 0],
        // 0
        vec![0, 0],
        // 0
        vec![0, 0],
        // 0
        vec![0, 0],
        // 0
        vec![0, 0],
        // 0
        vec![0, 0],
    ];
    kani::concrete_playback_run(concrete_vals, c08_elitism_add_all_k0_n2_max1);
}

#[test]
fn kani_concrete_playback_c08_elitism_add_all_k0_n2_max1_15211440022716914430() {
    let concrete_vals: Vec<Vec<u8>> = vec![
        // 0
        vec![0, 0],
        // 0
        vec![0, 0],
        // 0
        vec![0, 0],
        // 0
        vec![0, 0],
        // -32768
        vec![0, 128],
        // 0
        vec![0, 0],
    ];
    kani::concrete_playback_run(concrete_vals, c08_elitism_add_all_k0_n2_max1);
}
