// replay for property C08, harness population::elitism::verif_kani_proofs::c08_elitism_select (crate rosomaxa, proof module elitism)
// failed: assertion failed: count == expected @ elitism_proofs.rs:315
// run: /verif/check --replay /verif/replays/C08/c08_elitism_select.rs
#[test]
fn kani_concrete_playback_c08_elitism_select_5372091270769558428() {
    let concrete_vals: Vec<Vec<u8>> = vec![
        // 2ul
        vec![2, 0, 0, 0, 0, 0, 0, 0],
        // -32767
        vec![1, 128],
        // -32767
        vec![1, 128],
        // -32767
        vec![1, 128],
        // 0ul
        vec![0, 0, 0, 0, 0, 0, 0, 0],
        // 1
        vec![1],
        // 0
        vec![0],
    ];
    kani::concrete_playback_run(concrete_vals, c08_elitism_select);
}

#[test]
fn kani_concrete_playback_c08_elitism_select_18292503019030758094() {
    let concrete_vals: Vec<Vec<u8>> = vec![
        // 2ul
        vec![2, 0, 0, 0, 0, 0, 0, 0],
        // -32767
        vec![1, 128],
        // -32767
        vec![1, 128],
        // -32767
        vec![1, 128],
        // 3ul
        vec![3, 0, 0, 0, 0, 0, 0, 0],
        // 0
        vec![0],
        // 2
        vec![2],
        // 0
        vec![0, 0, 0, 0],
        // 0
        vec![0, 0, 0, 0],
    ];
    kani::concrete_playback_run(concrete_vals, c08_elitism_select);
}

#[test]
fn kani_concrete_playback_c08_elitism_select_1935182830170415691() {
    let concrete_vals: Vec<Vec<u8>> = vec![
        // 1ul
        vec![1, 0, 0, 0, 0, 0, 0, 0],
        // -32767
        vec![1, 128],
        // -32767
        vec![1, 128],
        // -32767
        vec![1, 128],
        // 3ul
        vec![3, 0, 0, 0, 0, 0, 0, 0],
        // 1
        vec![1],
        // 1
        vec![1],
    ];
    kani::concrete_playback_run(concrete_vals, c08_elitism_select);
}
