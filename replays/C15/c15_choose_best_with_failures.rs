// replay for property C15, harness construction::heuristics::insertions::verif_kani_proofs::c15_choose_best_with_failures (crate vrp-core, proof module insertions)
// failed: assertion failed: best.as_success().is_some_and(|s| s.cost.cmp(&cl) == Ordering::Equal) @ insertions_proofs.rs:603; assertion failed: best.as_success().is_some_and(|s| s.cost.cmp(&cx) == Ordering::Equal) @ insertions_proofs.rs:617
// run: /verif/check --replay /verif/replays/C15/c15_choose_best_with_failures.rs
#[test]
fn kani_concrete_playback_c15_choose_best_with_failures_13488408598152459061() {
    let concrete_vals: Vec<Vec<u8>> = vec![
        // 0
        vec![0, 0, 0, 0, 0, 0, 0, 0],
        // 0
        vec![0, 0, 0, 0, 0, 0, 0, 0],
        // 0
        vec![0],
        // 0
        vec![0, 0, 0, 0],
        // 0
        vec![0],
    ];
    kani::concrete_playback_run(concrete_vals, c15_choose_best_with_failures);
}

#[test]
fn kani_concrete_playback_c15_choose_best_with_failures_14810213165861937452() {
    let concrete_vals: Vec<Vec<u8>> = vec![
        // 0
        vec![0, 0, 0, 0, 0, 0, 0, 0],
        // 0
        vec![0, 0, 0, 0, 0, 0, 0, 0],
        // 1
        vec![1],
        // 0
        vec![0, 0, 0, 0],
        // 0
        vec![0],
        // 0
        vec![0, 0, 0, 0, 0, 0, 0, 0],
        // 0
        vec![0, 0, 0, 0, 0, 0, 0, 0],
        // 0
        vec![0, 0, 0, 0],
        // 0
        vec![0],
        // 0
        vec![0, 0, 0, 0, 0, 0, 0, 0],
        // 0
        vec![0, 0, 0, 0, 0, 0, 0, 0],
    ];
    kani::concrete_playback_run(concrete_vals, c15_choose_best_with_failures);
}
