// replay for property C15, harness construction::heuristics::insertions::verif_kani_proofs::c15_tree3_mixed (crate vrp-core, proof module insertions)
// failed: assertion failed: c15_same(c15_cost_of(&result), expected) @ insertions_proofs.rs:679
// run: /verif/check --replay /verif/replays/C15/c15_tree3_mixed.rs
#[test]
fn kani_concrete_playback_c15_tree3_mixed_17000127610490466090() {
    let concrete_vals: Vec<Vec<u8>> = vec![
        // 0
        vec![0, 0, 0, 0, 0, 0, 0, 0],
        // 0
        vec![0, 0, 0, 0, 0, 0, 0, 0],
        // 0
        vec![0],
        // 0
        vec![0, 0, 0, 0],
        // 0
        vec![0],
        // 0
        vec![0, 0, 0, 0, 0, 0, 0, 0],
        // 0
        vec![0],
    ];
    kani::concrete_playback_run(concrete_vals, c15_tree3_mixed);
}

#[test]
fn kani_concrete_playback_c15_tree3_mixed_929230634855357385() {
    let concrete_vals: Vec<Vec<u8>> = vec![
        // -NaN
        vec![254, 255, 255, 255, 255, 255, 255, 255],
        // -NaN
        vec![255, 255, 255, 255, 255, 255, 255, 255],
        // 1
        vec![1],
    ];
    kani::concrete_playback_run(concrete_vals, c15_tree3_mixed);
}

#[test]
fn kani_concrete_playback_c15_tree3_mixed_11549090373126428364() {
    let concrete_vals: Vec<Vec<u8>> = vec![
        // 0
        vec![0, 0, 0, 0, 0, 0, 0, 0],
        // 0
        vec![0, 0, 0, 0, 0, 0, 0, 0],
        // 0
        vec![0],
    ];
    kani::concrete_playback_run(concrete_vals, c15_tree3_mixed);
}
