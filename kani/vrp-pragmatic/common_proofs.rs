//! Kani proof harnesses compiled as a child module of vrp-pragmatic/src/validation/common.rs (cfg(kani) only).
//!
//! C10 (time-window rule kernel, documented as E1103 and reused by E1302/E1303/E1304): a list of time windows is
//! accepted exactly when every element is a parsed window, every window has start <= end and - unless the
//! intersection check is skipped - no two windows intersect.
use super::*;

fn any_tw() -> TimeWindow {
    let (s, e): (i16, i16) = (kani::any(), kani::any());
    TimeWindow::new(s as f64, e as f64)
}

/// The documented rule, written pairwise (no sorting): all valid and no two windows share a point.
fn spec(tws: &[Option<TimeWindow>], skip_intersection_check: bool) -> bool {
    let n = tws.len();
    let mut i = 0;
    while i < n {
        let Some(a) = tws[i].as_ref() else { return false };
        if !(a.start <= a.end) {
            return false;
        }
        let mut j = i + 1;
        while j < n {
            let Some(b) = tws[j].as_ref() else { return false };
            if !skip_intersection_check && a.start <= b.end && b.start <= a.end {
                return false;
            }
            j += 1;
        }
        i += 1;
    }
    true
}

fn rule<const N: usize>() {
    let mut tws: Vec<Option<TimeWindow>> = Vec::new();
    let mut idx = 0;
    while idx < N {
        let parsed: bool = kani::any();
        tws.push(if parsed { Some(any_tw()) } else { None });
        idx += 1;
    }
    let skip: bool = kani::any();

    let accepted = check_time_windows(&tws, skip);
    let expected = spec(&tws, skip);

    kani::cover!(accepted, "accepted");
    kani::cover!(!accepted && tws.iter().all(|tw| tw.is_some()), "rejected-by-rule");
    assert!(accepted == expected);
    std::mem::forget(tws);
}

// @verif props=C10 tier=quick ob=tw_rule fn=check_time_windows,TimeWindow::intersects bounds="1 window, bounds any i16 as f64, element may be unparsable"
#[kani::proof]
#[kani::unwind(4)]
fn c10_time_windows_rule_n1() {
    rule::<1>();
}

// @verif props=C10 tier=quick ob=tw_rule fn=check_time_windows,TimeWindow::intersects bounds="2 windows, bounds any i16 as f64, elements may be unparsable"
#[kani::proof]
#[kani::unwind(5)]
fn c10_time_windows_rule_n2() {
    rule::<2>();
}

// @verif props=C10 tier=quick ob=tw_rule fn=check_time_windows,TimeWindow::intersects bounds="3 windows, bounds any i16 as f64, elements may be unparsable"
#[kani::proof]
#[kani::unwind(6)]
fn c10_time_windows_rule_n3() {
    rule::<3>();
}

// @verif props=C10 tier=thorough ob=tw_rule fn=check_time_windows,TimeWindow::intersects bounds="4 windows, bounds any i16 as f64, elements may be unparsable"
#[kani::proof]
#[kani::unwind(7)]
fn c10_time_windows_rule_n4() {
    rule::<4>();
}

// @verif props=C10 tier=quick ob=tw_total fn=check_time_windows bounds="0 windows / arbitrary f64 bit patterns (NaN, inf) in 2 windows: no panic"
#[kani::proof]
#[kani::unwind(5)]
fn c10_time_windows_total() {
    let skip: bool = kani::any();
    // the documentation does not say whether an empty list is allowed; only totality is demanded here
    let _ = check_time_windows(&[], skip);
    let tws = vec![Some(TimeWindow::new(kani::any(), kani::any())), Some(TimeWindow::new(kani::any(), kani::any()))];
    let accepted = check_time_windows(&tws, skip);
    kani::cover!(accepted, "accepted");
    kani::cover!(!accepted, "rejected");
    std::mem::forget(tws);
}

// Concrete-playback replays (`cargo kani playback`) are compiled from here; the file is written by /verif/check.
#[cfg(all(kani, test))]
mod verif_playback {
    #[allow(unused_imports)]
    use super::*;
    include!("/verif/replays/_active/vrp-pragmatic__common.rs");
}
