//! Kani proof harnesses compiled as a child module of vrp-pragmatic/src/validation/vehicles.rs (cfg(kani) only).
//!
//! C10: break (E1303) and reload (E1304) time windows follow the E1103 rule and must additionally intersect the shift.
use super::*;

fn any_tw() -> TimeWindow {
    let (s, e): (i16, i16) = (kani::any(), kani::any());
    TimeWindow::new(s as f64, e as f64)
}

fn valid(tw: &TimeWindow) -> bool {
    tw.start <= tw.end
}

fn meets(a: &TimeWindow, b: &TimeWindow) -> bool {
    a.start <= b.end && b.start <= a.end
}

fn shift_rule<const N: usize>() {
    let all = [any_tw(), any_tw(), any_tw()];
    let mut tws: Vec<Option<TimeWindow>> = Vec::new();
    let mut idx = 0;
    while idx < N {
        tws.push(Some(all[idx].clone()));
        idx += 1;
    }
    let has_shift: bool = kani::any();
    let shift = any_tw();
    let skip: bool = kani::any();

    let accepted = check_shift_time_windows(if has_shift { Some(shift.clone()) } else { None }, tws, skip);

    let mut expected = true;
    let mut i = 0;
    while i < N {
        expected &= valid(&all[i]);
        expected &= !has_shift || meets(&all[i], &shift);
        let mut j = i + 1;
        while j < N {
            expected &= skip || !meets(&all[i], &all[j]);
            j += 1;
        }
        i += 1;
    }
    kani::cover!(accepted && has_shift, "accepted-within-shift");
    kani::cover!(N == 0 || !accepted, "rejected");
    assert!(accepted == expected);
}

// @verif props=C10 tier=quick ob=shift_tw_rule fn=check_shift_time_windows,check_time_windows bounds="0 or 1 break/reload windows, optional shift window, bounds any i16 as f64"
#[kani::proof]
#[kani::unwind(5)]
fn c10_shift_time_windows_n0_n1() {
    shift_rule::<0>();
    shift_rule::<1>();
}

// @verif props=C10 tier=quick ob=shift_tw_rule fn=check_shift_time_windows,check_time_windows bounds="2 break/reload windows, optional shift window, bounds any i16 as f64"
#[kani::proof]
#[kani::unwind(6)]
fn c10_shift_time_windows_n2() {
    shift_rule::<2>();
}

// @verif props=C10 tier=thorough ob=shift_tw_rule fn=check_shift_time_windows,check_time_windows bounds="3 break/reload windows, optional shift window, bounds any i16 as f64"
#[kani::proof]
#[kani::unwind(7)]
fn c10_shift_time_windows_n3() {
    shift_rule::<3>();
}

// Concrete-playback replays (`cargo kani playback`) are compiled from here; the file is written by /verif/check.
#[cfg(all(kani, test))]
mod verif_playback {
    #[allow(unused_imports)]
    use super::*;
    include!("/verif/replays/_active/vrp-pragmatic__vehicles.rs");
}
