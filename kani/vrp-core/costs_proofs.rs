//! Kani proof harnesses compiled as a child module of vrp-core/src/models/problem/costs.rs (cfg(kani) only).
//!
//! C16: the time-agnostic matrix provider returns exactly the supplied entries (durations scaled, distances not),
//! inconsistent matrix sets are rejected, negative (unreachable) entries pass through.
use super::*;
use crate::construction::heuristics::RouteContext;
use crate::models::common::Dimensions;
use crate::models::problem::{Actor, Vehicle};
use crate::verif_support::*;

fn any_entry() -> Float {
    // i8: includes negative values (the "unreachable" marker is a negative entry)
    let v: i8 = kani::any();
    v as Float
}

fn any_matrix<const L: usize>() -> [Float; L] {
    let mut m = [0.; L];
    let mut idx = 0;
    while idx < L {
        m[idx] = any_entry();
        idx += 1;
    }
    m
}

fn any_scale() -> Float {
    let k: u8 = kani::any();
    match k % 4 {
        0 => 1.,
        1 => 2.,
        2 => 0.5,
        _ => 4.,
    }
}

fn actor_with_profile(profile: Profile) -> Arc<Actor> {
    let vehicle =
        Arc::new(Vehicle { profile, costs: costs(0., 0., 0.), dimens: Dimensions::default(), details: vec![] });
    actor_with(vehicle, 0, 0., Some(0), 1000.)
}

/// Stub for the time-aware constructor in harnesses that pass no timestamps at all: CBMC cannot constant-fold
/// `timestamp.is_some()` read from heap `Vec<MatrixData>` and would otherwise explore the std `HashMap` behind the
/// time-aware provider. Reaching the stub is a verification failure, so a wrong dispatch is still detected.
fn time_aware_must_not_be_built<T: TransportFallback>(
    _: Vec<MatrixData>,
    _: usize,
    _: T,
) -> Result<TimeAwareMatrixTransportCost<T>, GenericError> {
    panic!("time-aware provider selected for a matrix set without timestamps")
}

fn agnostic_values<const N: usize, const L: usize>() {
    let (dur0, dist0, dur1, dist1) = (any_matrix::<L>(), any_matrix::<L>(), any_matrix::<L>(), any_matrix::<L>());
    let m0 = MatrixData::new(0, None, dur0.to_vec(), dist0.to_vec());
    let m1 = MatrixData::new(1, None, dur1.to_vec(), dist1.to_vec());
    let swap: bool = kani::any();
    // the concrete provider type is built directly: a call through `Arc<dyn TransportCost>` makes CBMC explore every
    // implementor of the trait, including the HashMap-backed time-aware one (the dispatcher has its own harness below)
    let provider = TimeAgnosticMatrixTransportCost::new(if swap { vec![m1, m0] } else { vec![m0, m1] }, N, NoFallback);
    let provider = match provider {
        Ok(provider) => provider,
        Err(_) => panic!("a consistent matrix set must be accepted"),
    };
    assert!(provider.size() == N);

    let (p, from, to): (usize, usize, usize) = (kani::any(), kani::any(), kani::any());
    kani::assume(p < 2 && from < N && to < N);
    let scale = any_scale();
    let profile = Profile::new(p, Some(scale));
    let (dur, dist) = if p == 0 { (&dur0, &dist0) } else { (&dur1, &dist1) };

    let expected_duration = dur[from * N + to] * scale;
    let expected_distance = dist[from * N + to];
    assert!(provider.duration_approx(&profile, from, to) == expected_duration);
    assert!(provider.distance_approx(&profile, from, to) == expected_distance);
    // unreachable entries surface as negative values
    assert!((dur[from * N + to] < 0.) == (provider.duration_approx(&profile, from, to) < 0.));
    assert!((dist[from * N + to] < 0.) == (provider.distance_approx(&profile, from, to) < 0.));

    // every vehicle of that profile gets the same answers through the route based API, whatever the time
    let route_ctx = RouteContext::new(actor_with_profile(profile.clone()));
    let time: Float = any_u16f();
    let tt = if kani::any() { TravelTime::Departure(time) } else { TravelTime::Arrival(time) };
    assert!(provider.duration(route_ctx.route(), from, to, tt) == expected_duration);
    assert!(provider.distance(route_ctx.route(), from, to, tt) == expected_distance);

    kani::cover!(swap && p == 1 && from != to, "second-profile-given-first");
    kani::cover!(expected_duration < 0., "unreachable");
    std::mem::forget((provider, route_ctx));
}

// @verif props=C16 tier=quick ob=agnostic_values fn=create_matrix_transport_cost,TimeAgnosticMatrixTransportCost::new,TimeAgnosticMatrixTransportCost::duration_approx,TimeAgnosticMatrixTransportCost::distance_approx,TimeAgnosticMatrixTransportCost::duration,TimeAgnosticMatrixTransportCost::distance bounds="2 profiles x 2x2 matrices, entries any i8 as f64 (negative = unreachable), either input order, scale in {0.5,1,2,4}" stubs="f64::sqrt := exact table on 0..=16;Arc::drop_slow := no-op;TimeAwareMatrixTransportCost::new := panic (must be unreachable without timestamps)"
#[kani::proof]
#[kani::unwind(6)]
#[kani::stub(f64::sqrt, crate::verif_support::sqrt_small)]
#[kani::stub(std::sync::Arc::drop_slow, crate::verif_support::arc_drop_noop)]
#[kani::stub(TimeAwareMatrixTransportCost::new, time_aware_must_not_be_built)]
fn c16_agnostic_values_2x2() {
    agnostic_values::<2, 4>();
}

// @verif props=C16 tier=thorough ob=agnostic_values fn=create_matrix_transport_cost,TimeAgnosticMatrixTransportCost::new,TimeAgnosticMatrixTransportCost::duration_approx,TimeAgnosticMatrixTransportCost::distance_approx bounds="2 profiles x 3x3 matrices, entries any i8 as f64, either input order, scale in {0.5,1,2,4}" stubs="f64::sqrt := exact table on 0..=16;Arc::drop_slow := no-op;TimeAwareMatrixTransportCost::new := panic (must be unreachable without timestamps)"
#[kani::proof]
#[kani::unwind(11)]
#[kani::stub(f64::sqrt, crate::verif_support::sqrt_small)]
#[kani::stub(std::sync::Arc::drop_slow, crate::verif_support::arc_drop_noop)]
#[kani::stub(TimeAwareMatrixTransportCost::new, time_aware_must_not_be_built)]
fn c16_agnostic_values_3x3() {
    agnostic_values::<3, 9>();
}

fn matrix(index: usize, timestamp: Option<Float>, dur_len: usize, dist_len: usize) -> MatrixData {
    MatrixData::new(index, timestamp, vec![1.; dur_len], vec![1.; dist_len])
}

// @verif props=C16 tier=quick ob=agnostic_reject fn=create_matrix_transport_cost,TimeAgnosticMatrixTransportCost::new bounds="empty matrix set; matrix lengths in {1,4,9}" stubs="f64::sqrt := exact table on 0..=16;Arc::drop_slow := no-op;TimeAwareMatrixTransportCost::new := panic (must be unreachable without timestamps)"
#[kani::proof]
#[kani::unwind(11)]
#[kani::stub(f64::sqrt, crate::verif_support::sqrt_small)]
#[kani::stub(std::sync::Arc::drop_slow, crate::verif_support::arc_drop_noop)]
#[kani::stub(TimeAwareMatrixTransportCost::new, time_aware_must_not_be_built)]
fn c16_reject_empty() {
    assert!(create_matrix_transport_cost(vec![]).is_err());
    kani::cover!(true, "reached");
}

// @verif props=C16 tier=quick ob=agnostic_reject fn=create_matrix_transport_cost,TimeAgnosticMatrixTransportCost::new bounds="|distances| != |durations| in one matrix; matrix lengths in {1,4,9}" stubs="f64::sqrt := exact table on 0..=16;Arc::drop_slow := no-op;TimeAwareMatrixTransportCost::new := panic (must be unreachable without timestamps)"
#[kani::proof]
#[kani::unwind(11)]
#[kani::stub(f64::sqrt, crate::verif_support::sqrt_small)]
#[kani::stub(std::sync::Arc::drop_slow, crate::verif_support::arc_drop_noop)]
#[kani::stub(TimeAwareMatrixTransportCost::new, time_aware_must_not_be_built)]
fn c16_reject_len_mismatch() {
    assert!(create_matrix_transport_cost(vec![matrix(0, None, 4, 9)]).is_err());
    assert!(create_matrix_transport_cost(vec![matrix(0, None, 4, 4), matrix(1, None, 4, 1)]).is_err());
    kani::cover!(true, "reached");
}

// @verif props=C16 tier=quick ob=agnostic_reject fn=create_matrix_transport_cost,TimeAgnosticMatrixTransportCost::new bounds="different sizes across matrices (either order); matrix lengths in {1,4,9}" stubs="f64::sqrt := exact table on 0..=16;Arc::drop_slow := no-op;TimeAwareMatrixTransportCost::new := panic (must be unreachable without timestamps)"
#[kani::proof]
#[kani::unwind(11)]
#[kani::stub(f64::sqrt, crate::verif_support::sqrt_small)]
#[kani::stub(std::sync::Arc::drop_slow, crate::verif_support::arc_drop_noop)]
#[kani::stub(TimeAwareMatrixTransportCost::new, time_aware_must_not_be_built)]
fn c16_reject_size_mismatch() {
    assert!(create_matrix_transport_cost(vec![matrix(0, None, 4, 4), matrix(1, None, 9, 9)]).is_err());
    assert!(create_matrix_transport_cost(vec![matrix(1, None, 9, 9), matrix(0, None, 4, 4)]).is_err());
    kani::cover!(true, "reached");
}

// @verif props=C16 tier=quick ob=agnostic_reject fn=create_matrix_transport_cost,TimeAgnosticMatrixTransportCost::new bounds="duplicate profile index without timestamps; matrix lengths in {1,4,9}" stubs="f64::sqrt := exact table on 0..=16;Arc::drop_slow := no-op;TimeAwareMatrixTransportCost::new := panic (must be unreachable without timestamps)"
#[kani::proof]
#[kani::unwind(11)]
#[kani::stub(f64::sqrt, crate::verif_support::sqrt_small)]
#[kani::stub(std::sync::Arc::drop_slow, crate::verif_support::arc_drop_noop)]
#[kani::stub(TimeAwareMatrixTransportCost::new, time_aware_must_not_be_built)]
fn c16_reject_duplicate_profile() {
    assert!(create_matrix_transport_cost(vec![matrix(0, None, 4, 4), matrix(0, None, 4, 4)]).is_err());
    kani::cover!(true, "reached");
}

// @verif props=C16 tier=quick ob=agnostic_reject fn=create_matrix_transport_cost,TimeAgnosticMatrixTransportCost::new bounds="profile indices with a gap; matrix lengths in {1,4,9}" stubs="f64::sqrt := exact table on 0..=16;Arc::drop_slow := no-op;TimeAwareMatrixTransportCost::new := panic (must be unreachable without timestamps)"
#[kani::proof]
#[kani::unwind(11)]
#[kani::stub(f64::sqrt, crate::verif_support::sqrt_small)]
#[kani::stub(std::sync::Arc::drop_slow, crate::verif_support::arc_drop_noop)]
#[kani::stub(TimeAwareMatrixTransportCost::new, time_aware_must_not_be_built)]
fn c16_reject_gap_profile() {
    assert!(create_matrix_transport_cost(vec![matrix(0, None, 4, 4), matrix(2, None, 4, 4)]).is_err());
    kani::cover!(true, "reached");
}

// @verif props=C16 tier=quick ob=agnostic_reject fn=create_matrix_transport_cost,TimeAgnosticMatrixTransportCost::new bounds="timestamped matrix handed to the time-agnostic provider; matrix lengths in {1,4,9}" stubs="f64::sqrt := exact table on 0..=16;Arc::drop_slow := no-op;TimeAwareMatrixTransportCost::new := panic (must be unreachable without timestamps)"
#[kani::proof]
#[kani::unwind(11)]
#[kani::stub(f64::sqrt, crate::verif_support::sqrt_small)]
#[kani::stub(std::sync::Arc::drop_slow, crate::verif_support::arc_drop_noop)]
#[kani::stub(TimeAwareMatrixTransportCost::new, time_aware_must_not_be_built)]
fn c16_reject_timestamp_in_agnostic() {
    let t: Float = any_u8f();
    assert!(
        TimeAgnosticMatrixTransportCost::new(vec![matrix(0, None, 4, 4), matrix(1, Some(t), 4, 4)], 2, NoFallback)
            .is_err()
    );
    kani::cover!(true, "reached");
}

// @verif props=C16 tier=quick ob=agnostic_reject fn=create_matrix_transport_cost,TimeAgnosticMatrixTransportCost::new bounds="consistent twin (2 profiles, given in reverse order) is accepted with size 2; matrix lengths in {1,4,9}" stubs="f64::sqrt := exact table on 0..=16;Arc::drop_slow := no-op;TimeAwareMatrixTransportCost::new := panic (must be unreachable without timestamps)"
#[kani::proof]
#[kani::unwind(11)]
#[kani::stub(f64::sqrt, crate::verif_support::sqrt_small)]
#[kani::stub(std::sync::Arc::drop_slow, crate::verif_support::arc_drop_noop)]
#[kani::stub(TimeAwareMatrixTransportCost::new, time_aware_must_not_be_built)]
fn c16_reject_consistent_accepted() {
    let ok = create_matrix_transport_cost(vec![matrix(1, None, 4, 4), matrix(0, None, 4, 4)]);
    assert!(ok.as_ref().is_ok_and(|provider| provider.size() == 2));
    std::mem::forget(ok);
    kani::cover!(true, "reached");
}

// @verif props=C16 tier=quick ob=simple_values fn=SimpleTransportCost::new,SimpleTransportCost::duration_approx,SimpleTransportCost::distance_approx bounds="one 2x2 matrix, entries any i8 as f64; mismatching lengths rejected" stubs="f64::sqrt := exact table on 0..=16"
#[kani::proof]
#[kani::unwind(11)]
#[kani::stub(f64::sqrt, crate::verif_support::sqrt_small)]
fn c16_simple_transport_cost() {
    let (dur, dist) = (any_matrix::<4>(), any_matrix::<4>());
    let provider = SimpleTransportCost::new(dur.to_vec(), dist.to_vec());
    let provider = match provider {
        Ok(provider) => provider,
        Err(_) => panic!("consistent data must be accepted"),
    };
    let (from, to): (usize, usize) = (kani::any(), kani::any());
    kani::assume(from < 2 && to < 2);
    let profile = Profile::new(0, Some(any_scale()));
    assert!(provider.size() == 2);
    assert!(provider.duration_approx(&profile, from, to) == dur[from * 2 + to]);
    assert!(provider.distance_approx(&profile, from, to) == dist[from * 2 + to]);
    assert!(SimpleTransportCost::new(vec![1.; 4], vec![1.; 9]).is_err());
    kani::cover!(from == 1 && to == 0, "off-diagonal");
    std::mem::forget(provider);
}

// Concrete-playback replays (`cargo kani playback`) are compiled from here; the file is written by /verif/check.
#[cfg(all(kani, test))]
mod verif_playback {
    #[allow(unused_imports)]
    use super::*;
    include!("/verif/replays/_active/vrp-core__costs.rs");
}
