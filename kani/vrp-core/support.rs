//! Shared fixtures for the Kani proof harnesses of vrp-core (compiled only under cfg(kani)).
#![allow(missing_docs)]
#![allow(dead_code)]

use crate::models::common::*;
use crate::models::problem::*;
use crate::models::solution::{Activity, Place as APlace};
use rosomaxa::prelude::Float;
use std::sync::Arc;

pub fn costs(fixed: Float, per_distance: Float, per_time: Float) -> Costs {
    Costs { fixed, per_distance, per_driving_time: per_time, per_waiting_time: per_time, per_service_time: per_time }
}

/// Integer-valued f64 in [0, 255].
pub fn any_u8f() -> Float {
    let v: u8 = kani::any();
    v as Float
}

/// Integer-valued f64 in [0, 65535].
pub fn any_u16f() -> Float {
    let v: u16 = kani::any();
    v as Float
}

pub fn vehicle_with(dimens: Dimensions, costs: Costs) -> Arc<Vehicle> {
    Arc::new(Vehicle { profile: Profile::default(), costs, dimens, details: vec![] })
}

pub fn driver_zero() -> Arc<Driver> {
    Arc::new(Driver { costs: costs(0., 0., 0.), dimens: Default::default(), details: vec![] })
}

/// Creates an actor starting at `start_loc` (earliest departure `shift_start`), optionally ending at
/// `end_loc` (closed tour) with shift end `shift_end` (`Float::MAX` = unlimited).
pub fn actor_with(
    vehicle: Arc<Vehicle>,
    start_loc: Location,
    shift_start: Float,
    end_loc: Option<Location>,
    shift_end: Float,
) -> Arc<Actor> {
    let start =
        Some(VehiclePlace { location: start_loc, time: TimeInterval { earliest: Some(shift_start), latest: None } });
    let end = end_loc.map(|location| VehiclePlace {
        location,
        time: TimeInterval { earliest: None, latest: if shift_end == Float::MAX { None } else { Some(shift_end) } },
    });

    Arc::new(Actor {
        vehicle,
        driver: driver_zero(),
        detail: ActorDetail { start, end, time: TimeWindow { start: shift_start, end: shift_end } },
    })
}

pub fn single_with(dimens: Dimensions) -> Arc<Single> {
    Arc::new(Single { places: vec![], dimens })
}

pub fn job_activity(
    single: Arc<Single>,
    location: Location,
    duration: Float,
    tw_start: Float,
    tw_end: Float,
) -> Activity {
    Activity {
        place: APlace { idx: 0, location, duration, time: TimeWindow { start: tw_start, end: tw_end } },
        schedule: Schedule { arrival: 0., departure: 0. },
        job: Some(single),
        commute: None,
    }
}

pub fn depot_activity(location: Location, tw_start: Float, tw_end: Float) -> Activity {
    Activity {
        place: APlace { idx: 0, location, duration: 0., time: TimeWindow { start: tw_start, end: tw_end } },
        schedule: Schedule { arrival: tw_start, departure: tw_start },
        job: None,
        commute: None,
    }
}

/// Stub for `std::sync::Arc::drop_slow` (`#[kani::stub(std::sync::Arc::drop_slow, crate::verif_support::arc_drop_noop)]`):
/// the payload of an `Arc` whose last reference goes away is leaked instead of dropped. CBMC cannot
/// constant-fold reference counts or `Vec` lengths stored in heap objects, so every `Arc` drop otherwise
/// explores the complete drop glue of `Single`/`Actor`/`Dimensions` (with dynamic dispatch over every
/// `dyn Any` payload) up to the unwinding bound. Drop glue is not the subject of any property here.
pub fn arc_drop_noop<T: ?Sized, A: std::alloc::Allocator>(_this: &mut Arc<T, A>) {}

/// Exact model of `f64::sqrt` on the small integers that matrix lengths in the harnesses can take
/// (CBMC over-approximates `sqrt` nondeterministically). Values are the correctly rounded IEEE results.
pub fn sqrt_small(x: Float) -> Float {
    const TABLE: [Float; 17] = [
        0.0,
        1.0,
        1.4142135623730951,
        1.7320508075688772,
        2.0,
        2.23606797749979,
        2.449489742783178,
        2.6457513110645907,
        2.8284271247461903,
        3.0,
        3.1622776601683795,
        3.3166247903554,
        3.4641016151377544,
        3.605551275463989,
        3.7416573867739413,
        3.872983346207417,
        4.0,
    ];
    let n = x as usize;
    assert!(x >= 0. && n <= 16 && n as Float == x, "sqrt_small: argument outside the modelled table");
    TABLE[n]
}

/// A symbolic, time-independent routing matrix over `L` locations (durations and distances separate).
pub struct SymMatrix<const L: usize> {
    pub durations: [[Float; L]; L],
    pub distances: [[Float; L]; L],
}

impl<const L: usize> SymMatrix<L> {
    /// Entries are arbitrary integer-valued doubles in [0, 255].
    pub fn any_u8() -> Self {
        let mut durations = [[0.; L]; L];
        let mut distances = [[0.; L]; L];
        let mut i = 0;
        while i < L {
            let mut j = 0;
            while j < L {
                durations[i][j] = any_u8f();
                distances[i][j] = any_u8f();
                j += 1;
            }
            i += 1;
        }
        Self { durations, distances }
    }
}

impl<const L: usize> TransportCost for SymMatrix<L> {
    fn duration_approx(&self, _: &Profile, from: Location, to: Location) -> Float {
        self.durations[from][to]
    }

    fn distance_approx(&self, _: &Profile, from: Location, to: Location) -> Float {
        self.distances[from][to]
    }

    fn duration(&self, _: &crate::models::solution::Route, from: Location, to: Location, _: TravelTime) -> Float {
        self.durations[from][to]
    }

    fn distance(&self, _: &crate::models::solution::Route, from: Location, to: Location, _: TravelTime) -> Float {
        self.distances[from][to]
    }

    fn size(&self) -> usize {
        L
    }
}
