//! Kani proof harnesses compiled as a child module of vrp-core/src/construction/features/capacity.rs.
//!
//! C06 (6) / C01: `has_demand_violation` (the capacity gate of every insertion) decided for every
//! combination of cached state, capacity and static/dynamic demand.
use super::*;
use crate::construction::heuristics::RouteContext;
use crate::models::common::{Demand, Dimensions, MultiDimLoad, SingleDimLoad};
use crate::verif_support::*;

fn any_i16_load() -> SingleDimLoad {
    let v: i16 = kani::any();
    SingleDimLoad::new(v as i32)
}

/// Declarative capacity rule on one scalar dimension (`None` = no violation, `Some(flag)` = violation).
fn spec_single(
    cap: i32,
    past: i32,
    future: i32,
    current: i32,
    d: &Demand<SingleDimLoad>,
    stopped: bool,
) -> Option<bool> {
    let (sp, dp, sd, dd) = (d.pickup.0.value, d.pickup.1.value, d.delivery.0.value, d.delivery.1.value);
    // a static delivery is on board from the start of the interval: it must fit on top of the highest load seen so far
    if sd != 0 && past + sd > cap {
        return Some(stopped);
    }
    // a static pickup stays on board until the end: it must fit on top of the highest load still to come
    if sp != 0 && future + sp > cap {
        return Some(false);
    }
    // net change from here on
    let change = sp + dp - sd - dd;
    if change != 0 && (future + change > cap || current + change > cap) {
        return Some(false);
    }
    None
}

// @verif props=C06,C01 tier=quick ob=cap_kernel fn=has_demand_violation::<SingleDimLoad>,SingleDimLoad::can_fit,Demand::change bounds="all i16 loads; state at pivot symbolic"
#[kani::proof]
#[kani::unwind(4)]
fn c06_cap_kernel_single_dim() {
    let cap = any_i16_load();
    let mut dimens = Dimensions::default();
    dimens.set_vehicle_capacity(cap);
    let actor = actor_with(vehicle_with(dimens, costs(0., 0., 0.)), 0, 0., Some(0), 1000.);
    let mut route_ctx = RouteContext::new(actor);

    let (past, future, current) = (any_i16_load(), any_i16_load(), any_i16_load());
    // pivot index 1; index 0 holds other values which must not be read
    let (o1, o2, o3) = (any_i16_load(), any_i16_load(), any_i16_load());
    route_ctx.state_mut().set_max_past_capacity_states(vec![o1, past]);
    route_ctx.state_mut().set_max_future_capacity_states(vec![o2, future]);
    route_ctx.state_mut().set_current_capacity_states(vec![o3, current]);

    let demand = Demand::<SingleDimLoad> {
        pickup: (any_i16_load(), any_i16_load()),
        delivery: (any_i16_load(), any_i16_load()),
    };
    let stopped: bool = kani::any();

    let actual = has_demand_violation(&route_ctx, 1, Some(&demand), stopped);
    let expected = spec_single(cap.value, past.value, future.value, current.value, &demand, stopped);

    kani::cover!(actual.is_none(), "accepted");
    kani::cover!(actual == Some(true), "rejected-stopped");
    kani::cover!(actual == Some(false), "rejected-continue");
    assert!(actual == expected);

    std::mem::forget(route_ctx);
}

/// No demand => never a violation; no capacity on the vehicle => every demand is a violation with the
/// caller's `stopped` flag; state missing (index beyond the cached vectors) => treated as zero load.
// @verif props=C06,C01 tier=quick ob=cap_kernel fn=has_demand_violation::<SingleDimLoad> bounds="all i16 loads; no capacity / no cached state"
#[kani::proof]
#[kani::unwind(4)]
fn c06_cap_kernel_missing_parts() {
    let stopped: bool = kani::any();
    let demand = Demand::<SingleDimLoad> {
        pickup: (any_i16_load(), any_i16_load()),
        delivery: (any_i16_load(), any_i16_load()),
    };

    // vehicle without capacity
    let actor = actor_with(vehicle_with(Dimensions::default(), costs(0., 0., 0.)), 0, 0., Some(0), 1000.);
    let route_ctx = RouteContext::new(actor);
    assert!(has_demand_violation::<SingleDimLoad>(&route_ctx, 1, None, stopped).is_none());
    assert!(has_demand_violation(&route_ctx, 1, Some(&demand), stopped) == Some(stopped));
    std::mem::forget(route_ctx);

    // vehicle with capacity, no cached state at all
    let cap = any_i16_load();
    let mut dimens = Dimensions::default();
    dimens.set_vehicle_capacity(cap);
    let actor = actor_with(vehicle_with(dimens, costs(0., 0., 0.)), 0, 0., Some(0), 1000.);
    let route_ctx = RouteContext::new(actor);
    let actual = has_demand_violation(&route_ctx, 1, Some(&demand), stopped);
    let expected = spec_single(cap.value, 0, 0, 0, &demand, stopped);
    kani::cover!(actual.is_none(), "accepted-without-state");
    kani::cover!(actual.is_some(), "rejected-without-state");
    assert!(actual == expected);
    std::mem::forget(route_ctx);
}

// Concrete-playback replays (`cargo kani playback`) are compiled from here; the file is written by /verif/check.
#[cfg(all(kani, test))]
mod verif_playback {
    #[allow(unused_imports)]
    use super::*;
    include!("/verif/replays/_active/vrp-core__capacity.rs");
}
