//! Kani proof harnesses compiled as a child module of vrp-core/src/models/solution/tour.rs (cfg(kani) only).
//!
//! C14 (Tour part): inductive step. A tour is built by a concrete template (closed/open x k jobs), then ONE
//! operation with symbolic choice of position / job is applied and the well-formedness invariant is re-checked.
//! Any operation sequence is a chain of such steps. `Tour.jobs` is the list-backed set under cfg(kani).
//!
//! NOTE: these harnesses are NOT part of any registered check (annotation `props=C14-tour-dropped`): most of them exceed
//! 16 GB / 420 s under CBMC (DESIGN.md section 10).  The claimed part of C14 is the registry half (mirsmt registry_step).
use super::*;
use crate::models::common::Dimensions;
use crate::verif_support::*;
use std::sync::Arc;

fn any_place() -> (usize, f64) {
    let loc: u8 = kani::any();
    (loc as usize, any_u8f())
}

fn new_job_activity() -> (Activity, Job) {
    let single = single_with(Dimensions::default());
    // keep one extra reference alive: dropping a removed activity must not run the payload's drop glue
    std::mem::forget(single.clone());
    let (loc, dur) = any_place();
    (job_activity(single.clone(), loc, dur, 0., 1000.), Job::Single(single))
}

fn template<const K: usize>(closed: bool) -> (Tour, Vec<Job>) {
    let actor = actor_with(
        vehicle_with(Dimensions::default(), costs(0., 0., 0.)),
        0,
        0.,
        if closed { Some(0) } else { None },
        1000.,
    );
    let mut tour = Tour::new(&actor);
    std::mem::forget(actor);
    let mut jobs = Vec::new();
    let mut idx = 0;
    while idx < K {
        let (activity, job) = new_job_activity();
        tour.insert_last(activity);
        jobs.push(job);
        idx += 1;
    }
    (tour, jobs)
}

/// The representation invariant of a tour whose job activities are exactly `expected` (in visiting order).
fn check_wf(tour: &Tour, closed: bool, expected: &[Job]) {
    let k = expected.len();
    let total = k + if closed { 2 } else { 1 };
    assert!(tour.total() == total);
    assert!(tour.job_activity_count() == k);
    assert!(tour.job_count() == k);
    assert!(tour.has_jobs() == (k > 0));
    // depot ends in place
    assert!(tour.start().is_some_and(|a| a.job.is_none()));
    assert!(tour.get(0).is_some_and(|a| a.job.is_none()));
    if closed {
        assert!(tour.end().is_some_and(|a| a.job.is_none()));
        assert!(tour.end_idx() == Some(total - 1));
    } else {
        assert!(tour.end().is_some_and(|a| a.job.is_some() == (k > 0)));
    }
    // activities <-> job set, positions
    let mut idx = 0;
    while idx < k {
        let activity = tour.get(idx + 1).unwrap();
        assert!(activity.has_same_job(&expected[idx]));
        assert!(tour.contains(&expected[idx]) && tour.has_job(&expected[idx]));
        assert!(tour.index(&expected[idx]) == Some(idx + 1));
        assert!(tour.index_last(&expected[idx]) == Some(idx + 1));
        assert!(tour.job_activities(&expected[idx]).count() == 1);
        idx += 1;
    }
    assert!(tour.jobs().count() == k);
    // leg enumeration: consecutive pairs with indices 0.., plus the single-activity leg of an open tour with jobs
    let mut legs = 0;
    for (items, leg_idx) in tour.legs() {
        assert!(leg_idx == legs);
        if total == 1 {
            assert!(items.len() == 1);
        } else if leg_idx + 1 < total {
            assert!(items.len() == 2);
        } else {
            assert!(!closed && items.len() == 1);
        }
        legs += 1;
    }
    let expected_legs = if total == 1 {
        1
    } else if closed {
        total - 1
    } else {
        total
    };
    assert!(legs == expected_legs);
}

fn insert_step<const K: usize>(closed: bool) {
    let (mut tour, jobs) = template::<K>(closed);
    let (activity, job) = new_job_activity();
    let pos: usize = kani::any();
    kani::assume(pos >= 1 && pos <= K + 1);
    // positions are case-split concretely (a symbolic `Vec::insert` index is a symbolic memmove length)
    let mut expected = Vec::new();
    let mut p = 1;
    while p <= K + 1 {
        if pos == p {
            tour.insert_at(activity, p);
            let mut i = 0;
            while i < K + 1 {
                if i + 1 == p {
                    expected.push(job.clone());
                } else {
                    expected.push(jobs[if i + 1 < p { i } else { i - 1 }].clone());
                }
                i += 1;
            }
            break;
        }
        p += 1;
    }
    check_wf(&tour, closed, &expected);
    kani::cover!(pos == K + 1, "appended");
    kani::cover!(pos == 1, "first");
    std::mem::forget((tour, jobs, expected, job));
}

fn insert_last_step<const K: usize>(closed: bool) {
    let (mut tour, mut jobs) = template::<K>(closed);
    let (activity, job) = new_job_activity();
    tour.insert_last(activity);
    jobs.push(job);
    check_wf(&tour, closed, &jobs);
    kani::cover!(true, "reached");
    std::mem::forget((tour, jobs));
}

fn remove_step<const K: usize>(closed: bool) {
    let (mut tour, jobs) = template::<K>(closed);
    let (_absent_activity, absent) = new_job_activity();
    let which: usize = kani::any();
    kani::assume(which <= K);
    let mut expected = Vec::new();
    if which == K {
        // a job that is not in the tour: nothing changes, `false` is reported
        assert!(!tour.remove(&absent));
        let mut i = 0;
        while i < K {
            expected.push(jobs[i].clone());
            i += 1;
        }
    } else {
        let mut w = 0;
        while w < K {
            if which == w {
                assert!(tour.remove(&jobs[w]));
                assert!(!tour.contains(&jobs[w]));
                let mut i = 0;
                while i < K {
                    if i != w {
                        expected.push(jobs[i].clone());
                    }
                    i += 1;
                }
            }
            w += 1;
        }
    }
    check_wf(&tour, closed, &expected);
    kani::cover!(which == K, "absent");
    kani::cover!(K == 0 || which == 0, "first-removed");
    std::mem::forget((tour, jobs, expected, absent, _absent_activity));
}

fn remove_at_step<const K: usize>(closed: bool) {
    let (mut tour, jobs) = template::<K>(closed);
    let which: usize = kani::any();
    kani::assume(which < K);
    let mut expected = Vec::new();
    let mut w = 0;
    while w < K {
        if which == w {
            let removed = tour.remove_activity_at(w + 1);
            assert!(removed == jobs[w]);
            let mut i = 0;
            while i < K {
                if i != w {
                    expected.push(jobs[i].clone());
                }
                i += 1;
            }
        }
        w += 1;
    }
    check_wf(&tour, closed, &expected);
    kani::cover!(which + 1 == K, "last-removed");
    std::mem::forget((tour, jobs, expected));
}

fn deep_copy_step<const K: usize>(closed: bool) {
    let (tour, jobs) = template::<K>(closed);
    let mut copy = tour.deep_copy();
    check_wf(&copy, closed, &jobs);
    // mutate the copy: the original keeps its activities and schedules
    let (activity, _job) = new_job_activity();
    copy.insert_last(activity);
    if let Some(first) = copy.get_mut(0) {
        first.schedule.departure = 777.;
    }
    check_wf(&tour, closed, &jobs);
    assert!(tour.get(0).is_some_and(|a| a.schedule.departure == 0.));
    kani::cover!(true, "reached");
    std::mem::forget((tour, copy, jobs, _job));
}

// @verif props=C14-tour-dropped tier=quick mem=medium ob=tour_step fn=Tour::insert_at,Tour::legs,Tour::index,Tour::job_activity_count,Tour::new bounds="closed tour template with 0 single-job activities, one insert with symbolic position/job choice (case-split concretely)" stubs="Arc::drop_slow := no-op"
#[kani::proof]
#[kani::unwind(8)]
#[kani::stub(std::sync::Arc::drop_slow, crate::verif_support::arc_drop_noop)]
fn c14_insert_k0_closed() {
    insert_step::<0>(true);
}

// @verif props=C14-tour-dropped tier=quick mem=medium ob=tour_step fn=Tour::insert_at,Tour::legs,Tour::index,Tour::job_activity_count,Tour::new bounds="open tour template with 0 single-job activities, one insert with symbolic position/job choice (case-split concretely)" stubs="Arc::drop_slow := no-op"
#[kani::proof]
#[kani::unwind(8)]
#[kani::stub(std::sync::Arc::drop_slow, crate::verif_support::arc_drop_noop)]
fn c14_insert_k0_open() {
    insert_step::<0>(false);
}

// @verif props=C14-tour-dropped tier=quick mem=medium ob=tour_step fn=Tour::insert_at,Tour::legs,Tour::index,Tour::job_activity_count,Tour::new bounds="closed tour template with 1 single-job activities, one insert with symbolic position/job choice (case-split concretely)" stubs="Arc::drop_slow := no-op"
#[kani::proof]
#[kani::unwind(8)]
#[kani::stub(std::sync::Arc::drop_slow, crate::verif_support::arc_drop_noop)]
fn c14_insert_k1_closed() {
    insert_step::<1>(true);
}

// @verif props=C14-tour-dropped tier=quick mem=medium ob=tour_step fn=Tour::insert_at,Tour::legs,Tour::index,Tour::job_activity_count,Tour::new bounds="open tour template with 1 single-job activities, one insert with symbolic position/job choice (case-split concretely)" stubs="Arc::drop_slow := no-op"
#[kani::proof]
#[kani::unwind(8)]
#[kani::stub(std::sync::Arc::drop_slow, crate::verif_support::arc_drop_noop)]
fn c14_insert_k1_open() {
    insert_step::<1>(false);
}

// @verif props=C14-tour-dropped tier=thorough mem=medium ob=tour_step fn=Tour::insert_at,Tour::legs,Tour::index,Tour::job_activity_count,Tour::new bounds="closed tour template with 2 single-job activities, one insert with symbolic position/job choice (case-split concretely)" stubs="Arc::drop_slow := no-op"
#[kani::proof]
#[kani::unwind(8)]
#[kani::stub(std::sync::Arc::drop_slow, crate::verif_support::arc_drop_noop)]
fn c14_insert_k2_closed() {
    insert_step::<2>(true);
}

// @verif props=C14-tour-dropped tier=thorough mem=medium ob=tour_step fn=Tour::insert_at,Tour::legs,Tour::index,Tour::job_activity_count,Tour::new bounds="open tour template with 2 single-job activities, one insert with symbolic position/job choice (case-split concretely)" stubs="Arc::drop_slow := no-op"
#[kani::proof]
#[kani::unwind(8)]
#[kani::stub(std::sync::Arc::drop_slow, crate::verif_support::arc_drop_noop)]
fn c14_insert_k2_open() {
    insert_step::<2>(false);
}

// @verif props=C14-tour-dropped tier=thorough mem=medium ob=tour_step fn=Tour::insert_at,Tour::legs,Tour::index,Tour::job_activity_count,Tour::new bounds="closed tour template with 3 single-job activities, one insert with symbolic position/job choice (case-split concretely)" stubs="Arc::drop_slow := no-op"
#[kani::proof]
#[kani::unwind(8)]
#[kani::stub(std::sync::Arc::drop_slow, crate::verif_support::arc_drop_noop)]
fn c14_insert_k3_closed() {
    insert_step::<3>(true);
}

// @verif props=C14-tour-dropped tier=thorough mem=medium ob=tour_step fn=Tour::insert_at,Tour::legs,Tour::index,Tour::job_activity_count,Tour::new bounds="open tour template with 3 single-job activities, one insert with symbolic position/job choice (case-split concretely)" stubs="Arc::drop_slow := no-op"
#[kani::proof]
#[kani::unwind(8)]
#[kani::stub(std::sync::Arc::drop_slow, crate::verif_support::arc_drop_noop)]
fn c14_insert_k3_open() {
    insert_step::<3>(false);
}

// @verif props=C14-tour-dropped tier=quick mem=medium ob=tour_step fn=Tour::insert_last,Tour::insert_at,Tour::new bounds="closed tour template with 0 single-job activities, one insert_last with symbolic position/job choice (case-split concretely)" stubs="Arc::drop_slow := no-op"
#[kani::proof]
#[kani::unwind(8)]
#[kani::stub(std::sync::Arc::drop_slow, crate::verif_support::arc_drop_noop)]
fn c14_insert_last_k0_closed() {
    insert_last_step::<0>(true);
}

// @verif props=C14-tour-dropped tier=quick mem=medium ob=tour_step fn=Tour::insert_last,Tour::insert_at,Tour::new bounds="open tour template with 0 single-job activities, one insert_last with symbolic position/job choice (case-split concretely)" stubs="Arc::drop_slow := no-op"
#[kani::proof]
#[kani::unwind(8)]
#[kani::stub(std::sync::Arc::drop_slow, crate::verif_support::arc_drop_noop)]
fn c14_insert_last_k0_open() {
    insert_last_step::<0>(false);
}

// @verif props=C14-tour-dropped tier=quick mem=medium ob=tour_step fn=Tour::insert_last,Tour::insert_at,Tour::new bounds="closed tour template with 1 single-job activities, one insert_last with symbolic position/job choice (case-split concretely)" stubs="Arc::drop_slow := no-op"
#[kani::proof]
#[kani::unwind(8)]
#[kani::stub(std::sync::Arc::drop_slow, crate::verif_support::arc_drop_noop)]
fn c14_insert_last_k1_closed() {
    insert_last_step::<1>(true);
}

// @verif props=C14-tour-dropped tier=quick mem=medium ob=tour_step fn=Tour::insert_last,Tour::insert_at,Tour::new bounds="open tour template with 1 single-job activities, one insert_last with symbolic position/job choice (case-split concretely)" stubs="Arc::drop_slow := no-op"
#[kani::proof]
#[kani::unwind(8)]
#[kani::stub(std::sync::Arc::drop_slow, crate::verif_support::arc_drop_noop)]
fn c14_insert_last_k1_open() {
    insert_last_step::<1>(false);
}

// @verif props=C14-tour-dropped tier=thorough mem=medium ob=tour_step fn=Tour::insert_last,Tour::insert_at,Tour::new bounds="closed tour template with 2 single-job activities, one insert_last with symbolic position/job choice (case-split concretely)" stubs="Arc::drop_slow := no-op"
#[kani::proof]
#[kani::unwind(8)]
#[kani::stub(std::sync::Arc::drop_slow, crate::verif_support::arc_drop_noop)]
fn c14_insert_last_k2_closed() {
    insert_last_step::<2>(true);
}

// @verif props=C14-tour-dropped tier=thorough mem=medium ob=tour_step fn=Tour::insert_last,Tour::insert_at,Tour::new bounds="open tour template with 2 single-job activities, one insert_last with symbolic position/job choice (case-split concretely)" stubs="Arc::drop_slow := no-op"
#[kani::proof]
#[kani::unwind(8)]
#[kani::stub(std::sync::Arc::drop_slow, crate::verif_support::arc_drop_noop)]
fn c14_insert_last_k2_open() {
    insert_last_step::<2>(false);
}

// @verif props=C14-tour-dropped tier=thorough mem=medium ob=tour_step fn=Tour::insert_last,Tour::insert_at,Tour::new bounds="closed tour template with 3 single-job activities, one insert_last with symbolic position/job choice (case-split concretely)" stubs="Arc::drop_slow := no-op"
#[kani::proof]
#[kani::unwind(8)]
#[kani::stub(std::sync::Arc::drop_slow, crate::verif_support::arc_drop_noop)]
fn c14_insert_last_k3_closed() {
    insert_last_step::<3>(true);
}

// @verif props=C14-tour-dropped tier=thorough mem=medium ob=tour_step fn=Tour::insert_last,Tour::insert_at,Tour::new bounds="open tour template with 3 single-job activities, one insert_last with symbolic position/job choice (case-split concretely)" stubs="Arc::drop_slow := no-op"
#[kani::proof]
#[kani::unwind(8)]
#[kani::stub(std::sync::Arc::drop_slow, crate::verif_support::arc_drop_noop)]
fn c14_insert_last_k3_open() {
    insert_last_step::<3>(false);
}

// @verif props=C14-tour-dropped tier=quick mem=medium ob=tour_step fn=Tour::remove,Tour::contains,Tour::new bounds="closed tour template with 0 single-job activities, one remove with symbolic position/job choice (case-split concretely)" stubs="Arc::drop_slow := no-op"
#[kani::proof]
#[kani::unwind(8)]
#[kani::stub(std::sync::Arc::drop_slow, crate::verif_support::arc_drop_noop)]
fn c14_remove_k0_closed() {
    remove_step::<0>(true);
}

// @verif props=C14-tour-dropped tier=quick mem=medium ob=tour_step fn=Tour::remove,Tour::contains,Tour::new bounds="open tour template with 0 single-job activities, one remove with symbolic position/job choice (case-split concretely)" stubs="Arc::drop_slow := no-op"
#[kani::proof]
#[kani::unwind(8)]
#[kani::stub(std::sync::Arc::drop_slow, crate::verif_support::arc_drop_noop)]
fn c14_remove_k0_open() {
    remove_step::<0>(false);
}

// @verif props=C14-tour-dropped tier=quick mem=medium ob=tour_step fn=Tour::remove,Tour::contains,Tour::new bounds="closed tour template with 1 single-job activities, one remove with symbolic position/job choice (case-split concretely)" stubs="Arc::drop_slow := no-op"
#[kani::proof]
#[kani::unwind(8)]
#[kani::stub(std::sync::Arc::drop_slow, crate::verif_support::arc_drop_noop)]
fn c14_remove_k1_closed() {
    remove_step::<1>(true);
}

// @verif props=C14-tour-dropped tier=quick mem=medium ob=tour_step fn=Tour::remove,Tour::contains,Tour::new bounds="open tour template with 1 single-job activities, one remove with symbolic position/job choice (case-split concretely)" stubs="Arc::drop_slow := no-op"
#[kani::proof]
#[kani::unwind(8)]
#[kani::stub(std::sync::Arc::drop_slow, crate::verif_support::arc_drop_noop)]
fn c14_remove_k1_open() {
    remove_step::<1>(false);
}

// @verif props=C14-tour-dropped tier=thorough mem=medium ob=tour_step fn=Tour::remove,Tour::contains,Tour::new bounds="closed tour template with 2 single-job activities, one remove with symbolic position/job choice (case-split concretely)" stubs="Arc::drop_slow := no-op"
#[kani::proof]
#[kani::unwind(8)]
#[kani::stub(std::sync::Arc::drop_slow, crate::verif_support::arc_drop_noop)]
fn c14_remove_k2_closed() {
    remove_step::<2>(true);
}

// @verif props=C14-tour-dropped tier=thorough mem=medium ob=tour_step fn=Tour::remove,Tour::contains,Tour::new bounds="open tour template with 2 single-job activities, one remove with symbolic position/job choice (case-split concretely)" stubs="Arc::drop_slow := no-op"
#[kani::proof]
#[kani::unwind(8)]
#[kani::stub(std::sync::Arc::drop_slow, crate::verif_support::arc_drop_noop)]
fn c14_remove_k2_open() {
    remove_step::<2>(false);
}

// @verif props=C14-tour-dropped tier=thorough mem=medium ob=tour_step fn=Tour::remove,Tour::contains,Tour::new bounds="closed tour template with 3 single-job activities, one remove with symbolic position/job choice (case-split concretely)" stubs="Arc::drop_slow := no-op"
#[kani::proof]
#[kani::unwind(8)]
#[kani::stub(std::sync::Arc::drop_slow, crate::verif_support::arc_drop_noop)]
fn c14_remove_k3_closed() {
    remove_step::<3>(true);
}

// @verif props=C14-tour-dropped tier=thorough mem=medium ob=tour_step fn=Tour::remove,Tour::contains,Tour::new bounds="open tour template with 3 single-job activities, one remove with symbolic position/job choice (case-split concretely)" stubs="Arc::drop_slow := no-op"
#[kani::proof]
#[kani::unwind(8)]
#[kani::stub(std::sync::Arc::drop_slow, crate::verif_support::arc_drop_noop)]
fn c14_remove_k3_open() {
    remove_step::<3>(false);
}

// @verif props=C14-tour-dropped tier=quick mem=medium ob=tour_step fn=Tour::remove_activity_at,Tour::remove,Tour::new bounds="closed tour template with 1 single-job activities, one remove_at with symbolic position/job choice (case-split concretely)" stubs="Arc::drop_slow := no-op"
#[kani::proof]
#[kani::unwind(8)]
#[kani::stub(std::sync::Arc::drop_slow, crate::verif_support::arc_drop_noop)]
fn c14_remove_at_k1_closed() {
    remove_at_step::<1>(true);
}

// @verif props=C14-tour-dropped tier=quick mem=medium ob=tour_step fn=Tour::remove_activity_at,Tour::remove,Tour::new bounds="open tour template with 1 single-job activities, one remove_at with symbolic position/job choice (case-split concretely)" stubs="Arc::drop_slow := no-op"
#[kani::proof]
#[kani::unwind(8)]
#[kani::stub(std::sync::Arc::drop_slow, crate::verif_support::arc_drop_noop)]
fn c14_remove_at_k1_open() {
    remove_at_step::<1>(false);
}

// @verif props=C14-tour-dropped tier=thorough mem=medium ob=tour_step fn=Tour::remove_activity_at,Tour::remove,Tour::new bounds="closed tour template with 2 single-job activities, one remove_at with symbolic position/job choice (case-split concretely)" stubs="Arc::drop_slow := no-op"
#[kani::proof]
#[kani::unwind(8)]
#[kani::stub(std::sync::Arc::drop_slow, crate::verif_support::arc_drop_noop)]
fn c14_remove_at_k2_closed() {
    remove_at_step::<2>(true);
}

// @verif props=C14-tour-dropped tier=thorough mem=medium ob=tour_step fn=Tour::remove_activity_at,Tour::remove,Tour::new bounds="open tour template with 2 single-job activities, one remove_at with symbolic position/job choice (case-split concretely)" stubs="Arc::drop_slow := no-op"
#[kani::proof]
#[kani::unwind(8)]
#[kani::stub(std::sync::Arc::drop_slow, crate::verif_support::arc_drop_noop)]
fn c14_remove_at_k2_open() {
    remove_at_step::<2>(false);
}

// @verif props=C14-tour-dropped tier=thorough mem=medium ob=tour_step fn=Tour::remove_activity_at,Tour::remove,Tour::new bounds="closed tour template with 3 single-job activities, one remove_at with symbolic position/job choice (case-split concretely)" stubs="Arc::drop_slow := no-op"
#[kani::proof]
#[kani::unwind(8)]
#[kani::stub(std::sync::Arc::drop_slow, crate::verif_support::arc_drop_noop)]
fn c14_remove_at_k3_closed() {
    remove_at_step::<3>(true);
}

// @verif props=C14-tour-dropped tier=thorough mem=medium ob=tour_step fn=Tour::remove_activity_at,Tour::remove,Tour::new bounds="open tour template with 3 single-job activities, one remove_at with symbolic position/job choice (case-split concretely)" stubs="Arc::drop_slow := no-op"
#[kani::proof]
#[kani::unwind(8)]
#[kani::stub(std::sync::Arc::drop_slow, crate::verif_support::arc_drop_noop)]
fn c14_remove_at_k3_open() {
    remove_at_step::<3>(false);
}

// @verif props=C14-tour-dropped tier=quick mem=medium ob=tour_step fn=Tour::deep_copy,Activity::deep_copy,Tour::new bounds="closed tour template with 0 single-job activities, one deep_copy with symbolic position/job choice (case-split concretely)" stubs="Arc::drop_slow := no-op"
#[kani::proof]
#[kani::unwind(8)]
#[kani::stub(std::sync::Arc::drop_slow, crate::verif_support::arc_drop_noop)]
fn c14_deep_copy_k0_closed() {
    deep_copy_step::<0>(true);
}

// @verif props=C14-tour-dropped tier=quick mem=medium ob=tour_step fn=Tour::deep_copy,Activity::deep_copy,Tour::new bounds="open tour template with 0 single-job activities, one deep_copy with symbolic position/job choice (case-split concretely)" stubs="Arc::drop_slow := no-op"
#[kani::proof]
#[kani::unwind(8)]
#[kani::stub(std::sync::Arc::drop_slow, crate::verif_support::arc_drop_noop)]
fn c14_deep_copy_k0_open() {
    deep_copy_step::<0>(false);
}

// @verif props=C14-tour-dropped tier=quick mem=medium ob=tour_step fn=Tour::deep_copy,Activity::deep_copy,Tour::new bounds="closed tour template with 1 single-job activities, one deep_copy with symbolic position/job choice (case-split concretely)" stubs="Arc::drop_slow := no-op"
#[kani::proof]
#[kani::unwind(8)]
#[kani::stub(std::sync::Arc::drop_slow, crate::verif_support::arc_drop_noop)]
fn c14_deep_copy_k1_closed() {
    deep_copy_step::<1>(true);
}

// @verif props=C14-tour-dropped tier=quick mem=medium ob=tour_step fn=Tour::deep_copy,Activity::deep_copy,Tour::new bounds="open tour template with 1 single-job activities, one deep_copy with symbolic position/job choice (case-split concretely)" stubs="Arc::drop_slow := no-op"
#[kani::proof]
#[kani::unwind(8)]
#[kani::stub(std::sync::Arc::drop_slow, crate::verif_support::arc_drop_noop)]
fn c14_deep_copy_k1_open() {
    deep_copy_step::<1>(false);
}

// @verif props=C14-tour-dropped tier=thorough mem=medium ob=tour_step fn=Tour::deep_copy,Activity::deep_copy,Tour::new bounds="closed tour template with 2 single-job activities, one deep_copy with symbolic position/job choice (case-split concretely)" stubs="Arc::drop_slow := no-op"
#[kani::proof]
#[kani::unwind(8)]
#[kani::stub(std::sync::Arc::drop_slow, crate::verif_support::arc_drop_noop)]
fn c14_deep_copy_k2_closed() {
    deep_copy_step::<2>(true);
}

// @verif props=C14-tour-dropped tier=thorough mem=medium ob=tour_step fn=Tour::deep_copy,Activity::deep_copy,Tour::new bounds="open tour template with 2 single-job activities, one deep_copy with symbolic position/job choice (case-split concretely)" stubs="Arc::drop_slow := no-op"
#[kani::proof]
#[kani::unwind(8)]
#[kani::stub(std::sync::Arc::drop_slow, crate::verif_support::arc_drop_noop)]
fn c14_deep_copy_k2_open() {
    deep_copy_step::<2>(false);
}

// @verif props=C14-tour-dropped tier=thorough mem=medium ob=tour_step fn=Tour::deep_copy,Activity::deep_copy,Tour::new bounds="closed tour template with 3 single-job activities, one deep_copy with symbolic position/job choice (case-split concretely)" stubs="Arc::drop_slow := no-op"
#[kani::proof]
#[kani::unwind(8)]
#[kani::stub(std::sync::Arc::drop_slow, crate::verif_support::arc_drop_noop)]
fn c14_deep_copy_k3_closed() {
    deep_copy_step::<3>(true);
}

// @verif props=C14-tour-dropped tier=thorough mem=medium ob=tour_step fn=Tour::deep_copy,Activity::deep_copy,Tour::new bounds="open tour template with 3 single-job activities, one deep_copy with symbolic position/job choice (case-split concretely)" stubs="Arc::drop_slow := no-op"
#[kani::proof]
#[kani::unwind(8)]
#[kani::stub(std::sync::Arc::drop_slow, crate::verif_support::arc_drop_noop)]
fn c14_deep_copy_k3_open() {
    deep_copy_step::<3>(false);
}

// Concrete-playback replays (`cargo kani playback`) are compiled from here; the file is written by /verif/check.
#[cfg(all(kani, test))]
mod verif_playback {
    #[allow(unused_imports)]
    use super::*;
    include!("/verif/replays/_active/vrp-core__tour.rs");
}
