//! Kani proof harnesses compiled as a child module of vrp-core/src/construction/heuristics/insertions.rs.
//!
//! C09: order laws and +/- algebra of `InsertionCost`; C15: the reducer `choose_best_result`.
use super::*;
use std::cmp::Ordering;

/// An insertion cost with `N` symbolic components of arbitrary bit pattern (NaN, infinities, both zeros included).
fn any_cost<const N: usize>() -> ([Cost; 6], InsertionCost) {
    let mut data = [0.; 6];
    let mut idx = 0;
    while idx < N {
        data[idx] = kani::any();
        idx += 1;
    }
    (data, InsertionCost::new(&data[..N]))
}

/// An insertion cost with `N` symbolic integer-valued components, |v| <= 2^24.
fn any_int_cost<const N: usize>() -> ([Cost; 6], InsertionCost) {
    let mut data = [0.; 6];
    let mut idx = 0;
    while idx < N {
        let v: i32 = kani::any();
        kani::assume(v >= -(1 << 24) && v <= (1 << 24));
        data[idx] = v as Cost;
        idx += 1;
    }
    (data, InsertionCost::new(&data[..N]))
}

/// Reference: lexicographic comparison where a missing trailing component counts as zero.
/// Only used on inputs without NaN and without negative zero, where `<` is the intended scalar order.
fn spec_lex(a: &[Cost; 6], b: &[Cost; 6]) -> Ordering {
    let mut idx = 0;
    while idx < 6 {
        if a[idx] < b[idx] {
            return Ordering::Less;
        }
        if a[idx] > b[idx] {
            return Ordering::Greater;
        }
        idx += 1;
    }
    Ordering::Equal
}

fn plain(a: &[Cost; 6], n: usize) -> bool {
    let mut idx = 0;
    while idx < n {
        if a[idx].is_nan() || (a[idx] == 0. && a[idx].is_sign_negative()) {
            return false;
        }
        idx += 1;
    }
    true
}

fn pair_laws<const A: usize, const B: usize>() {
    let (da, a) = any_cost::<A>();
    let (db, b) = any_cost::<B>();

    let ab = a.cmp(&b);
    let ba = b.cmp(&a);
    // antisymmetry / totality: exactly one of <, ==, > and it is mirrored
    assert!(ab == ba.reverse());
    // reflexivity
    assert!(a.cmp(&a) == Ordering::Equal);
    // consistency of the derived operators
    assert!((a == b) == (ab == Ordering::Equal));
    assert!(a.partial_cmp(&b) == Some(ab));
    assert!((a > b) == (ab == Ordering::Greater));
    // equals the lexicographic order with missing components = 0
    if plain(&da, A) && plain(&db, B) {
        assert!(ab == spec_lex(&da, &db));
    }
    kani::cover!((ab == Ordering::Less && plain(&da, A) && plain(&db, B)) || (A == 0 && B == 0), "less");
    kani::cover!(ab == Ordering::Equal, "equal");
    std::mem::forget((a, b));
}

fn triple_laws<const A: usize, const B: usize, const C: usize>() {
    let (_, a) = any_cost::<A>();
    let (_, b) = any_cost::<B>();
    let (_, c) = any_cost::<C>();
    let (ab, bc, ac) = (a.cmp(&b), b.cmp(&c), a.cmp(&c));
    // transitivity of <= (covers <, == mixtures)
    if ab != Ordering::Greater && bc != Ordering::Greater {
        assert!(ac != Ordering::Greater);
        if ab == Ordering::Less || bc == Ordering::Less {
            assert!(ac == Ordering::Less);
        }
    }
    if ab == Ordering::Equal && bc == Ordering::Equal {
        assert!(ac == Ordering::Equal);
    }
    kani::cover!(ab == Ordering::Less && bc == Ordering::Less, "chain");
    kani::cover!(ab == Ordering::Equal && bc == Ordering::Equal, "all-equal");
    std::mem::forget((a, b, c));
}

fn algebra<const A: usize, const B: usize>() {
    let (dx, x) = any_int_cost::<A>();
    let (dy, y) = any_int_cost::<B>();
    let n = if A > B { A } else { B };

    let sum = &x + &y;
    let diff = &x - &y;
    assert!(sum.data.len() == n && diff.data.len() == n);
    let mut idx = 0;
    while idx < n {
        assert!(sum.data[idx] == dx[idx] + dy[idx]);
        assert!(diff.data[idx] == dx[idx] - dy[idx]);
        idx += 1;
    }
    // inverse up to the sign of zero (component-wise ==, missing = 0)
    let back1 = &sum - &y;
    let back2 = &diff + &y;
    let mut idx = 0;
    while idx < n {
        assert!(back1.data[idx] == dx[idx]);
        assert!(back2.data[idx] == dx[idx]);
        idx += 1;
    }
    assert!(back1.cmp(&x) == Ordering::Equal || !plain_zero_free(&back1));
    kani::cover!(n == 0 || dx[0] != 0. || dy[0] != 0., "nonzero");
    std::mem::forget((x, y, sum, diff, back1, back2));
}

fn plain_zero_free(c: &InsertionCost) -> bool {
    // total_cmp distinguishes -0 from +0; equality under cmp is only demanded when no negative zero arose
    c.data.iter().all(|v| !(*v == 0. && v.is_sign_negative()))
}

// @verif props=C09 tier=quick ob=cost_order fn=InsertionCost::cmp,InsertionCost::eq,InsertionCost::partial_cmp bounds="lengths 0 x 0, arbitrary f64 bit patterns (NaN, inf, +-0 included)"
#[kani::proof]
#[kani::unwind(8)]
fn c09_cost_pair_laws_0_0() {
    pair_laws::<0, 0>();
}

// @verif props=C09 tier=quick ob=cost_order fn=InsertionCost::cmp,InsertionCost::eq,InsertionCost::partial_cmp bounds="lengths 0 x 1, arbitrary f64 bit patterns (NaN, inf, +-0 included)"
#[kani::proof]
#[kani::unwind(8)]
fn c09_cost_pair_laws_0_1() {
    pair_laws::<0, 1>();
}

// @verif props=C09 tier=quick ob=cost_order fn=InsertionCost::cmp,InsertionCost::eq,InsertionCost::partial_cmp bounds="lengths 0 x 2, arbitrary f64 bit patterns (NaN, inf, +-0 included)"
#[kani::proof]
#[kani::unwind(8)]
fn c09_cost_pair_laws_0_2() {
    pair_laws::<0, 2>();
}

// @verif props=C09 tier=quick ob=cost_order fn=InsertionCost::cmp,InsertionCost::eq,InsertionCost::partial_cmp bounds="lengths 0 x 3, arbitrary f64 bit patterns (NaN, inf, +-0 included)"
#[kani::proof]
#[kani::unwind(8)]
fn c09_cost_pair_laws_0_3() {
    pair_laws::<0, 3>();
}

// @verif props=C09 tier=quick ob=cost_order fn=InsertionCost::cmp,InsertionCost::eq,InsertionCost::partial_cmp bounds="lengths 1 x 0, arbitrary f64 bit patterns (NaN, inf, +-0 included)"
#[kani::proof]
#[kani::unwind(8)]
fn c09_cost_pair_laws_1_0() {
    pair_laws::<1, 0>();
}

// @verif props=C09 tier=quick ob=cost_order fn=InsertionCost::cmp,InsertionCost::eq,InsertionCost::partial_cmp bounds="lengths 1 x 1, arbitrary f64 bit patterns (NaN, inf, +-0 included)"
#[kani::proof]
#[kani::unwind(8)]
fn c09_cost_pair_laws_1_1() {
    pair_laws::<1, 1>();
}

// @verif props=C09 tier=quick ob=cost_order fn=InsertionCost::cmp,InsertionCost::eq,InsertionCost::partial_cmp bounds="lengths 1 x 2, arbitrary f64 bit patterns (NaN, inf, +-0 included)"
#[kani::proof]
#[kani::unwind(8)]
fn c09_cost_pair_laws_1_2() {
    pair_laws::<1, 2>();
}

// @verif props=C09 tier=thorough ob=cost_order fn=InsertionCost::cmp,InsertionCost::eq,InsertionCost::partial_cmp bounds="lengths 1 x 3, arbitrary f64 bit patterns (NaN, inf, +-0 included)"
#[kani::proof]
#[kani::unwind(8)]
fn c09_cost_pair_laws_1_3() {
    pair_laws::<1, 3>();
}

// @verif props=C09 tier=quick ob=cost_order fn=InsertionCost::cmp,InsertionCost::eq,InsertionCost::partial_cmp bounds="lengths 2 x 0, arbitrary f64 bit patterns (NaN, inf, +-0 included)"
#[kani::proof]
#[kani::unwind(8)]
fn c09_cost_pair_laws_2_0() {
    pair_laws::<2, 0>();
}

// @verif props=C09 tier=quick ob=cost_order fn=InsertionCost::cmp,InsertionCost::eq,InsertionCost::partial_cmp bounds="lengths 2 x 1, arbitrary f64 bit patterns (NaN, inf, +-0 included)"
#[kani::proof]
#[kani::unwind(8)]
fn c09_cost_pair_laws_2_1() {
    pair_laws::<2, 1>();
}

// @verif props=C09 tier=quick ob=cost_order fn=InsertionCost::cmp,InsertionCost::eq,InsertionCost::partial_cmp bounds="lengths 2 x 2, arbitrary f64 bit patterns (NaN, inf, +-0 included)"
#[kani::proof]
#[kani::unwind(8)]
fn c09_cost_pair_laws_2_2() {
    pair_laws::<2, 2>();
}

// @verif props=C09 tier=thorough ob=cost_order fn=InsertionCost::cmp,InsertionCost::eq,InsertionCost::partial_cmp bounds="lengths 2 x 3, arbitrary f64 bit patterns (NaN, inf, +-0 included)"
#[kani::proof]
#[kani::unwind(8)]
fn c09_cost_pair_laws_2_3() {
    pair_laws::<2, 3>();
}

// @verif props=C09 tier=quick ob=cost_order fn=InsertionCost::cmp,InsertionCost::eq,InsertionCost::partial_cmp bounds="lengths 3 x 0, arbitrary f64 bit patterns (NaN, inf, +-0 included)"
#[kani::proof]
#[kani::unwind(8)]
fn c09_cost_pair_laws_3_0() {
    pair_laws::<3, 0>();
}

// @verif props=C09 tier=thorough ob=cost_order fn=InsertionCost::cmp,InsertionCost::eq,InsertionCost::partial_cmp bounds="lengths 3 x 1, arbitrary f64 bit patterns (NaN, inf, +-0 included)"
#[kani::proof]
#[kani::unwind(8)]
fn c09_cost_pair_laws_3_1() {
    pair_laws::<3, 1>();
}

// @verif props=C09 tier=thorough ob=cost_order fn=InsertionCost::cmp,InsertionCost::eq,InsertionCost::partial_cmp bounds="lengths 3 x 2, arbitrary f64 bit patterns (NaN, inf, +-0 included)"
#[kani::proof]
#[kani::unwind(8)]
fn c09_cost_pair_laws_3_2() {
    pair_laws::<3, 2>();
}

// @verif props=C09 tier=quick ob=cost_order fn=InsertionCost::cmp,InsertionCost::eq,InsertionCost::partial_cmp bounds="lengths 3 x 3, arbitrary f64 bit patterns (NaN, inf, +-0 included)"
#[kani::proof]
#[kani::unwind(8)]
fn c09_cost_pair_laws_3_3() {
    pair_laws::<3, 3>();
}

// @verif props=C09 tier=thorough ob=cost_order fn=InsertionCost::cmp,InsertionCost::eq,InsertionCost::partial_cmp bounds="lengths 6 x 6 (inline capacity 6), arbitrary f64 bit patterns"
#[kani::proof]
#[kani::unwind(8)]
fn c09_cost_pair_laws_6_6() {
    pair_laws::<6, 6>();
}

// @verif props=C09 tier=thorough ob=cost_order fn=InsertionCost::cmp,InsertionCost::eq,InsertionCost::partial_cmp bounds="lengths 6 x 0 (inline capacity 6), arbitrary f64 bit patterns"
#[kani::proof]
#[kani::unwind(8)]
fn c09_cost_pair_laws_6_0() {
    pair_laws::<6, 0>();
}

// @verif props=C09 tier=thorough ob=cost_order fn=InsertionCost::cmp,InsertionCost::eq,InsertionCost::partial_cmp bounds="lengths 0 x 6 (inline capacity 6), arbitrary f64 bit patterns"
#[kani::proof]
#[kani::unwind(8)]
fn c09_cost_pair_laws_0_6() {
    pair_laws::<0, 6>();
}

// @verif props=C09 tier=thorough ob=cost_order fn=InsertionCost::cmp,InsertionCost::eq,InsertionCost::partial_cmp bounds="lengths 5 x 6 (inline capacity 6), arbitrary f64 bit patterns"
#[kani::proof]
#[kani::unwind(8)]
fn c09_cost_pair_laws_5_6() {
    pair_laws::<5, 6>();
}

// @verif props=C09 tier=thorough ob=cost_order fn=InsertionCost::cmp,InsertionCost::eq,InsertionCost::partial_cmp bounds="lengths 4 x 2 (inline capacity 6), arbitrary f64 bit patterns"
#[kani::proof]
#[kani::unwind(8)]
fn c09_cost_pair_laws_4_2() {
    pair_laws::<4, 2>();
}

// @verif props=C09 tier=quick ob=cost_transitive fn=InsertionCost::cmp bounds="lengths 1,1,1, arbitrary f64 bit patterns"
#[kani::proof]
#[kani::unwind(8)]
fn c09_cost_transitive_1_1_1() {
    triple_laws::<1, 1, 1>();
}

// @verif props=C09 tier=quick ob=cost_transitive fn=InsertionCost::cmp bounds="lengths 0,1,2, arbitrary f64 bit patterns"
#[kani::proof]
#[kani::unwind(8)]
fn c09_cost_transitive_0_1_2() {
    triple_laws::<0, 1, 2>();
}

// @verif props=C09 tier=quick ob=cost_transitive fn=InsertionCost::cmp bounds="lengths 2,1,0, arbitrary f64 bit patterns"
#[kani::proof]
#[kani::unwind(8)]
fn c09_cost_transitive_2_1_0() {
    triple_laws::<2, 1, 0>();
}

// @verif props=C09 tier=quick ob=cost_transitive fn=InsertionCost::cmp bounds="lengths 1,2,1, arbitrary f64 bit patterns"
#[kani::proof]
#[kani::unwind(8)]
fn c09_cost_transitive_1_2_1() {
    triple_laws::<1, 2, 1>();
}

// @verif props=C09 tier=quick ob=cost_transitive fn=InsertionCost::cmp bounds="lengths 2,0,2, arbitrary f64 bit patterns"
#[kani::proof]
#[kani::unwind(8)]
fn c09_cost_transitive_2_0_2() {
    triple_laws::<2, 0, 2>();
}

// @verif props=C09 tier=quick ob=cost_transitive fn=InsertionCost::cmp bounds="lengths 2,2,2, arbitrary f64 bit patterns"
#[kani::proof]
#[kani::unwind(8)]
fn c09_cost_transitive_2_2_2() {
    triple_laws::<2, 2, 2>();
}

// @verif props=C09 tier=quick ob=cost_transitive fn=InsertionCost::cmp bounds="lengths 1,0,2, arbitrary f64 bit patterns"
#[kani::proof]
#[kani::unwind(8)]
fn c09_cost_transitive_1_0_2() {
    triple_laws::<1, 0, 2>();
}

// @verif props=C09 tier=thorough ob=cost_transitive fn=InsertionCost::cmp bounds="lengths 3,3,3, arbitrary f64 bit patterns"
#[kani::proof]
#[kani::unwind(8)]
fn c09_cost_transitive_3_3_3() {
    triple_laws::<3, 3, 3>();
}

// @verif props=C09 tier=thorough ob=cost_transitive fn=InsertionCost::cmp bounds="lengths 3,1,2, arbitrary f64 bit patterns"
#[kani::proof]
#[kani::unwind(8)]
fn c09_cost_transitive_3_1_2() {
    triple_laws::<3, 1, 2>();
}

// @verif props=C09 tier=thorough ob=cost_transitive fn=InsertionCost::cmp bounds="lengths 0,3,1, arbitrary f64 bit patterns"
#[kani::proof]
#[kani::unwind(8)]
fn c09_cost_transitive_0_3_1() {
    triple_laws::<0, 3, 1>();
}

// @verif props=C09 tier=thorough ob=cost_transitive fn=InsertionCost::cmp bounds="lengths 2,3,0, arbitrary f64 bit patterns"
#[kani::proof]
#[kani::unwind(8)]
fn c09_cost_transitive_2_3_0() {
    triple_laws::<2, 3, 0>();
}

// @verif props=C09 tier=thorough ob=cost_transitive fn=InsertionCost::cmp bounds="lengths 3,0,3, arbitrary f64 bit patterns"
#[kani::proof]
#[kani::unwind(8)]
fn c09_cost_transitive_3_0_3() {
    triple_laws::<3, 0, 3>();
}

// @verif props=C09 tier=thorough ob=cost_transitive fn=InsertionCost::cmp bounds="lengths 4,4,4, arbitrary f64 bit patterns"
#[kani::proof]
#[kani::unwind(8)]
fn c09_cost_transitive_4_4_4() {
    triple_laws::<4, 4, 4>();
}

// @verif props=C09 tier=thorough ob=cost_transitive fn=InsertionCost::cmp bounds="lengths 6,6,6, arbitrary f64 bit patterns"
#[kani::proof]
#[kani::unwind(8)]
fn c09_cost_transitive_6_6_6() {
    triple_laws::<6, 6, 6>();
}

// @verif props=C09 tier=quick ob=cost_algebra fn=InsertionCost::add,InsertionCost::sub bounds="lengths 0 x 0, integer-valued components |v|<=2^24"
#[kani::proof]
#[kani::unwind(8)]
fn c09_cost_algebra_0_0() {
    algebra::<0, 0>();
}

// @verif props=C09 tier=quick ob=cost_algebra fn=InsertionCost::add,InsertionCost::sub bounds="lengths 0 x 1, integer-valued components |v|<=2^24"
#[kani::proof]
#[kani::unwind(8)]
fn c09_cost_algebra_0_1() {
    algebra::<0, 1>();
}

// @verif props=C09 tier=thorough ob=cost_algebra fn=InsertionCost::add,InsertionCost::sub bounds="lengths 0 x 2, integer-valued components |v|<=2^24"
#[kani::proof]
#[kani::unwind(8)]
fn c09_cost_algebra_0_2() {
    algebra::<0, 2>();
}

// @verif props=C09 tier=thorough ob=cost_algebra fn=InsertionCost::add,InsertionCost::sub bounds="lengths 0 x 3, integer-valued components |v|<=2^24"
#[kani::proof]
#[kani::unwind(8)]
fn c09_cost_algebra_0_3() {
    algebra::<0, 3>();
}

// @verif props=C09 tier=quick ob=cost_algebra fn=InsertionCost::add,InsertionCost::sub bounds="lengths 1 x 0, integer-valued components |v|<=2^24"
#[kani::proof]
#[kani::unwind(8)]
fn c09_cost_algebra_1_0() {
    algebra::<1, 0>();
}

// @verif props=C09 tier=quick ob=cost_algebra fn=InsertionCost::add,InsertionCost::sub bounds="lengths 1 x 1, integer-valued components |v|<=2^24"
#[kani::proof]
#[kani::unwind(8)]
fn c09_cost_algebra_1_1() {
    algebra::<1, 1>();
}

// @verif props=C09 tier=quick ob=cost_algebra fn=InsertionCost::add,InsertionCost::sub bounds="lengths 1 x 2, integer-valued components |v|<=2^24"
#[kani::proof]
#[kani::unwind(8)]
fn c09_cost_algebra_1_2() {
    algebra::<1, 2>();
}

// @verif props=C09 tier=thorough ob=cost_algebra fn=InsertionCost::add,InsertionCost::sub bounds="lengths 1 x 3, integer-valued components |v|<=2^24"
#[kani::proof]
#[kani::unwind(8)]
fn c09_cost_algebra_1_3() {
    algebra::<1, 3>();
}

// @verif props=C09 tier=thorough ob=cost_algebra fn=InsertionCost::add,InsertionCost::sub bounds="lengths 2 x 0, integer-valued components |v|<=2^24"
#[kani::proof]
#[kani::unwind(8)]
fn c09_cost_algebra_2_0() {
    algebra::<2, 0>();
}

// @verif props=C09 tier=quick ob=cost_algebra fn=InsertionCost::add,InsertionCost::sub bounds="lengths 2 x 1, integer-valued components |v|<=2^24"
#[kani::proof]
#[kani::unwind(8)]
fn c09_cost_algebra_2_1() {
    algebra::<2, 1>();
}

// @verif props=C09 tier=quick ob=cost_algebra fn=InsertionCost::add,InsertionCost::sub bounds="lengths 2 x 2, integer-valued components |v|<=2^24"
#[kani::proof]
#[kani::unwind(8)]
fn c09_cost_algebra_2_2() {
    algebra::<2, 2>();
}

// @verif props=C09 tier=thorough ob=cost_algebra fn=InsertionCost::add,InsertionCost::sub bounds="lengths 2 x 3, integer-valued components |v|<=2^24"
#[kani::proof]
#[kani::unwind(8)]
fn c09_cost_algebra_2_3() {
    algebra::<2, 3>();
}

// @verif props=C09 tier=thorough ob=cost_algebra fn=InsertionCost::add,InsertionCost::sub bounds="lengths 3 x 0, integer-valued components |v|<=2^24"
#[kani::proof]
#[kani::unwind(8)]
fn c09_cost_algebra_3_0() {
    algebra::<3, 0>();
}

// @verif props=C09 tier=thorough ob=cost_algebra fn=InsertionCost::add,InsertionCost::sub bounds="lengths 3 x 1, integer-valued components |v|<=2^24"
#[kani::proof]
#[kani::unwind(8)]
fn c09_cost_algebra_3_1() {
    algebra::<3, 1>();
}

// @verif props=C09 tier=thorough ob=cost_algebra fn=InsertionCost::add,InsertionCost::sub bounds="lengths 3 x 2, integer-valued components |v|<=2^24"
#[kani::proof]
#[kani::unwind(8)]
fn c09_cost_algebra_3_2() {
    algebra::<3, 2>();
}

// @verif props=C09 tier=thorough ob=cost_algebra fn=InsertionCost::add,InsertionCost::sub bounds="lengths 3 x 3, integer-valued components |v|<=2^24"
#[kani::proof]
#[kani::unwind(8)]
fn c09_cost_algebra_3_3() {
    algebra::<3, 3>();
}

// ---------------------------------------------------------------------------------------------------------
// C15: `choose_best_result` is the reducer handed to rayon's fold/reduce. Its algebra is decided here.

use crate::models::common::Dimensions;
use crate::models::problem::Single;
use crate::utils::Either;
use crate::verif_support::*;

fn c15_actor() -> Arc<Actor> {
    let actor = actor_with(vehicle_with(Dimensions::default(), costs(0., 0., 0.)), 0, 0., Some(0), 1000.);
    std::mem::forget(actor.clone());
    actor
}

/// All leaves share one job whose `Arc` is additionally leaked once, so that dropping the loser inside the reducer
/// is a plain reference-count decrement (the drop glue of `Single`/`Dimensions` is not the subject here).
fn c15_job() -> Job {
    let job = Job::Single(single_with(Dimensions::default()));
    std::mem::forget(job.clone());
    job
}

fn c15_success<const N: usize>(actor: &Arc<Actor>) -> ([Cost; 6], InsertionResult) {
    let (data, cost) = any_cost::<N>();
    (
        data,
        InsertionResult::Success(InsertionSuccess { cost, job: c15_job(), activities: vec![], actor: actor.clone() }),
    )
}

fn c15_failure(with_job: bool) -> InsertionResult {
    let code: i32 = kani::any();
    let stopped: bool = kani::any();
    InsertionResult::make_failure_with_code(ViolationCode(code), stopped, if with_job { Some(c15_job()) } else { None })
}

fn c15_pair_ss<const A: usize, const B: usize>() {
    let (actor_l, actor_r) = (c15_actor(), c15_actor());
    let (_, left) = c15_success::<A>(&actor_l);
    let (_, right) = c15_success::<B>(&actor_r);
    let (cl, cr) = (left.as_success().unwrap().cost.clone(), right.as_success().unwrap().cost.clone());

    let result = InsertionResult::choose_best_result(left, right);
    let best = result.as_success().expect("success expected");
    // the winner is one of the operands and its cost is the minimum of both
    assert!(best.cost.cmp(&cl) != Ordering::Greater && best.cost.cmp(&cr) != Ordering::Greater);
    let from_left = Arc::ptr_eq(&best.actor, &actor_l);
    let from_right = Arc::ptr_eq(&best.actor, &actor_r);
    assert!(from_left != from_right);
    assert!(best.cost.cmp(if from_left { &cl } else { &cr }) == Ordering::Equal);
    // default cost selector agrees with the reducer
    let selector = BestResultSelector::default();
    let picked = match selector.select_cost(&cl, &cr) {
        Either::Left(c) => c,
        Either::Right(c) => c,
    };
    assert!(picked.cmp(&best.cost) == Ordering::Equal);
    kani::cover!(from_left && cl.cmp(&cr) == Ordering::Less, "left-wins");
    kani::cover!(from_right, "right-wins");
    kani::cover!(cl.cmp(&cr) == Ordering::Equal, "tie");
    std::mem::forget((result, cl, cr, actor_l, actor_r));
}

// @verif props=C15 tier=quick ob=reducer_pair fn=InsertionResult::choose_best_result,ResultSelector::select_cost bounds="Success x Success, cost lengths 1x1, arbitrary f64 bit patterns" stubs="Arc::drop_slow := no-op (payload of a last Arc reference is leaked; drop glue not the subject)"
#[kani::proof]
#[kani::unwind(8)]
#[kani::stub(std::sync::Arc::drop_slow, crate::verif_support::arc_drop_noop)]
fn c15_choose_best_ss_1_1() {
    c15_pair_ss::<1, 1>();
}

// @verif props=C15 tier=quick ob=reducer_pair fn=InsertionResult::choose_best_result,ResultSelector::select_cost bounds="Success x Success, cost lengths 2x2, arbitrary f64 bit patterns" stubs="Arc::drop_slow := no-op (payload of a last Arc reference is leaked; drop glue not the subject)"
#[kani::proof]
#[kani::unwind(8)]
#[kani::stub(std::sync::Arc::drop_slow, crate::verif_support::arc_drop_noop)]
fn c15_choose_best_ss_2_2() {
    c15_pair_ss::<2, 2>();
}

// @verif props=C15 tier=quick ob=reducer_pair fn=InsertionResult::choose_best_result,ResultSelector::select_cost bounds="Success x Success, cost lengths 1x2 (missing component = 0), arbitrary f64 bit patterns" stubs="Arc::drop_slow := no-op (payload of a last Arc reference is leaked; drop glue not the subject)"
#[kani::proof]
#[kani::unwind(8)]
#[kani::stub(std::sync::Arc::drop_slow, crate::verif_support::arc_drop_noop)]
fn c15_choose_best_ss_1_2() {
    c15_pair_ss::<1, 2>();
}

// @verif props=C15 tier=thorough ob=reducer_pair fn=InsertionResult::choose_best_result,ResultSelector::select_cost bounds="Success x Success, cost lengths 3x3, arbitrary f64 bit patterns" stubs="Arc::drop_slow := no-op (payload of a last Arc reference is leaked; drop glue not the subject)"
#[kani::proof]
#[kani::unwind(8)]
#[kani::stub(std::sync::Arc::drop_slow, crate::verif_support::arc_drop_noop)]
fn c15_choose_best_ss_3_3() {
    c15_pair_ss::<3, 3>();
}

// @verif props=C15 tier=thorough ob=reducer_pair fn=InsertionResult::choose_best_result,ResultSelector::select_cost bounds="Success x Success, cost lengths 3x2, arbitrary f64 bit patterns" stubs="Arc::drop_slow := no-op (payload of a last Arc reference is leaked; drop glue not the subject)"
#[kani::proof]
#[kani::unwind(8)]
#[kani::stub(std::sync::Arc::drop_slow, crate::verif_support::arc_drop_noop)]
fn c15_choose_best_ss_3_2() {
    c15_pair_ss::<3, 2>();
}

// @verif props=C15 tier=quick ob=reducer_pair fn=InsertionResult::choose_best_result,InsertionResult::make_failure bounds="Success x Failure, Failure x Success, Failure x Failure, identity element; cost length 2; symbolic codes/flags" stubs="Arc::drop_slow := no-op (payload of a last Arc reference is leaked; drop glue not the subject)"
#[kani::proof]
#[kani::unwind(8)]
#[kani::stub(std::sync::Arc::drop_slow, crate::verif_support::arc_drop_noop)]
fn c15_choose_best_with_failures() {
    let actor = c15_actor();
    // S x F
    let (_, left) = c15_success::<2>(&actor);
    let cl = left.as_success().unwrap().cost.clone();
    let with_job: bool = kani::any();
    let best = InsertionResult::choose_best_result(left, c15_failure(with_job));
    assert!(best.as_success().is_some_and(|s| s.cost.cmp(&cl) == Ordering::Equal));
    std::mem::forget(best);
    // F x S
    let (_, right) = c15_success::<2>(&actor);
    let cr = right.as_success().unwrap().cost.clone();
    let best = InsertionResult::choose_best_result(c15_failure(with_job), right);
    assert!(best.as_success().is_some_and(|s| s.cost.cmp(&cr) == Ordering::Equal));
    std::mem::forget(best);
    // identity element of the reduction is neutral on the cost, on either side
    let (_, x) = c15_success::<2>(&actor);
    let cx = x.as_success().unwrap().cost.clone();
    let best = InsertionResult::choose_best_result(InsertionResult::make_failure(), x);
    assert!(best.as_success().is_some_and(|s| s.cost.cmp(&cx) == Ordering::Equal));
    let best = InsertionResult::choose_best_result(best, InsertionResult::make_failure());
    assert!(best.as_success().is_some_and(|s| s.cost.cmp(&cx) == Ordering::Equal));
    std::mem::forget(best);
    // F x F stays a failure; a failure that names a job with a known code is not replaced by the anonymous identity
    let l = c15_failure(true);
    let best = InsertionResult::choose_best_result(l, InsertionResult::make_failure());
    match &best {
        InsertionResult::Failure(f) => assert!(f.job.is_some()),
        _ => panic!("failure expected"),
    }
    std::mem::forget(best);
    let best = InsertionResult::choose_best_result(c15_failure(kani::any()), c15_failure(kani::any()));
    assert!(best.as_success().is_none());
    kani::cover!(true, "reached");
    std::mem::forget((best, cl, cr, cx, actor));
}

fn c15_leaf(actor: &Arc<Actor>, kind: u8) -> (InsertionResult, Option<Cost>) {
    // kind: 0 = failure, 1 = identity, else success with one-component cost
    match kind {
        0 => (c15_failure(true), None),
        1 => (InsertionResult::make_failure(), None),
        _ => {
            let (d, r) = c15_success::<1>(actor);
            (r, Some(d[0]))
        }
    }
}

fn c15_min(a: Option<Cost>, b: Option<Cost>) -> Option<Cost> {
    match (a, b) {
        (Some(a), Some(b)) => Some(if a.total_cmp(&b) == Ordering::Greater { b } else { a }),
        (Some(a), None) => Some(a),
        (None, b) => b,
    }
}

fn c15_cost_of(r: &InsertionResult) -> Option<Cost> {
    r.as_success().map(|s| s.cost.data[0])
}

fn c15_same(a: Option<Cost>, b: Option<Cost>) -> bool {
    match (a, b) {
        (Some(a), Some(b)) => a.total_cmp(&b) == Ordering::Equal,
        (None, None) => true,
        _ => false,
    }
}

/// Reduction tree independence for three leaves: both tree shapes over the order (a, b, c); leaf kinds symbolic.
/// Commutativity on the cost (pair lemma above) + this associativity give every permutation and grouping.
fn c15_tree3(k0: u8, k1: u8, k2: u8) {
    let actor = c15_actor();
    let (a, ca) = c15_leaf(&actor, k0);
    let (b, cb) = c15_leaf(&actor, k1);
    let (c, cc) = c15_leaf(&actor, k2);
    let expected = c15_min(c15_min(ca, cb), cc);
    let shape: bool = kani::any();
    let result = if shape {
        InsertionResult::choose_best_result(InsertionResult::choose_best_result(a, b), c)
    } else {
        InsertionResult::choose_best_result(a, InsertionResult::choose_best_result(b, c))
    };
    assert!(c15_same(c15_cost_of(&result), expected));
    kani::cover!(shape, "left-deep");
    kani::cover!(!shape, "right-deep");
    std::mem::forget((result, actor));
}

// @verif props=C15 tier=quick ob=reducer_tree fn=InsertionResult::choose_best_result bounds="3 leaves all Success (1-component costs, arbitrary f64 bits), both tree shapes" stubs="Arc::drop_slow := no-op (payload of a last Arc reference is leaked; drop glue not the subject)"
#[kani::proof]
#[kani::unwind(8)]
#[kani::stub(std::sync::Arc::drop_slow, crate::verif_support::arc_drop_noop)]
fn c15_tree3_sss() {
    c15_tree3(2, 2, 2);
}

// @verif props=C15 tier=quick ob=reducer_tree fn=InsertionResult::choose_best_result bounds="3 leaves: Success, identity, Success / Failure, Success, identity; both tree shapes" stubs="Arc::drop_slow := no-op (payload of a last Arc reference is leaked; drop glue not the subject)"
#[kani::proof]
#[kani::unwind(8)]
#[kani::stub(std::sync::Arc::drop_slow, crate::verif_support::arc_drop_noop)]
fn c15_tree3_mixed() {
    c15_tree3(2, 1, 2);
    c15_tree3(0, 2, 1);
    c15_tree3(1, 0, 2);
    c15_tree3(0, 1, 0);
}

// @verif props=C09 tier=quick ob=cost_spill fn=InsertionCost::from_iter,InsertionCost::add,InsertionCost::sub bounds="7 components (one more than the inline capacity 6: the vector spills to the heap), integer-valued |v|<=2^24; right operand empty / one component"
#[kani::proof]
#[kani::unwind(10)]
fn c09_cost_spill_len7() {
    let mut d = [0.0f64; 7];
    let mut idx = 0;
    while idx < 7 {
        let v: i32 = kani::any();
        kani::assume(v > -(1 << 24) && v < (1 << 24));
        d[idx] = v as f64;
        idx += 1;
    }
    // collect keeps every component
    let x: InsertionCost = d.iter().copied().collect();
    assert!(x.data.len() == 7);
    let mut idx = 0;
    while idx < 7 {
        assert!(x.data[idx] == d[idx]);
        idx += 1;
    }
    // + and - with a shorter operand keep the length and the tail
    let w: i32 = kani::any();
    kani::assume(w > -(1 << 24) && w < (1 << 24));
    let y = InsertionCost::new(&[w as f64]);
    let sum = &x + &y;
    let back = &sum - &y;
    assert!(sum.data.len() == 7 && back.data.len() == 7);
    assert!(sum.data[0] == d[0] + w as f64 && sum.data[6] == d[6]);
    let mut idx = 0;
    while idx < 7 {
        assert!(back.data[idx] == d[idx]);
        idx += 1;
    }
    kani::cover!(d[6] != 0., "last component non-zero");
    std::mem::forget((x, y, sum, back));
}

// Concrete-playback replays (`cargo kani playback`) are compiled from here; the file is written by /verif/check.
#[cfg(all(kani, test))]
mod verif_playback {
    #[allow(unused_imports)]
    use super::*;
    include!("/verif/replays/_active/vrp-core__insertions.rs");
}
