//! Kani proof harnesses compiled as a child module of vrp-core/src/models/common/load.rs (cfg(kani) only).
//!
//! C01/C06: multi-dimensional load arithmetic behaves per dimension in ALL eight dimensions (capacity is a hard
//! constraint "in every capacity dimension").
use super::*;

fn any_multi() -> MultiDimLoad {
    let mut load = [0_i32; LOAD_DIMENSION_SIZE];
    let mut idx = 0;
    while idx < LOAD_DIMENSION_SIZE {
        let v: i16 = kani::any();
        load[idx] = v as i32;
        idx += 1;
    }
    let size: usize = kani::any();
    kani::assume(size <= LOAD_DIMENSION_SIZE);
    MultiDimLoad { load, size }
}

// @verif props=C01,C06 tier=quick ob=multi_dim_load fn=MultiDimLoad::can_fit,MultiDimLoad::add,MultiDimLoad::sub,MultiDimLoad::max_load,MultiDimLoad::is_not_empty bounds="all 8 dimensions, values any i16, sizes 0..=8"
#[kani::proof]
#[kani::unwind(10)]
fn c01_multi_dim_load_per_dimension() {
    let (a, b) = (any_multi(), any_multi());

    let fits = a.can_fit(&b);
    let sum = a + b;
    let diff = a - b;
    let max = a.max_load(b);

    let mut all_fit = true;
    let mut any_nonzero = false;
    let mut idx = 0;
    while idx < LOAD_DIMENSION_SIZE {
        all_fit &= a.load[idx] >= b.load[idx];
        any_nonzero |= a.load[idx] != 0;
        assert!(sum.load[idx] == a.load[idx] + b.load[idx]);
        assert!(diff.load[idx] == a.load[idx] - b.load[idx]);
        assert!(max.load[idx] == if a.load[idx] > b.load[idx] { a.load[idx] } else { b.load[idx] });
        idx += 1;
    }
    // a load fits iff it fits in every single dimension, the last one included
    assert!(fits == all_fit);
    let bigger = if a.size > b.size { a.size } else { b.size };
    assert!(sum.size == bigger && diff.size == bigger);
    assert!(a.is_not_empty() == (a.size == 0 || any_nonzero));
    // adding what was subtracted gives the original amounts back
    let back = diff + b;
    let mut idx = 0;
    while idx < LOAD_DIMENSION_SIZE {
        assert!(back.load[idx] == a.load[idx]);
        idx += 1;
    }
    kani::cover!(fits && a.load[7] == b.load[7] && a.load[7] != 0, "tight-in-last-dimension");
    kani::cover!(!fits && a.load[7] < b.load[7] && a.load[0] > b.load[0], "only-last-dimension-overflows");
}

// @verif props=C01,C06 tier=quick ob=multi_dim_capacity_gate fn=has_demand_violation::<MultiDimLoad>,MultiDimLoad::can_fit bounds="capacity gate instantiated with MultiDimLoad: 8 dimensions, values any i8, static delivery + static pickup, symbolic caches at the pivot" stubs="Arc::drop_slow := no-op"
#[kani::proof]
#[kani::unwind(10)]
#[kani::stub(std::sync::Arc::drop_slow, crate::verif_support::arc_drop_noop)]
fn c01_multi_dim_spec_order() {
    // partial order used for comparisons of loads: equal iff all dimensions (up to the larger size) are equal
    let (a, b) = (any_multi(), any_multi());
    let size = if a.size > b.size { a.size } else { b.size };
    let mut all_eq = true;
    let mut idx = 0;
    while idx < LOAD_DIMENSION_SIZE {
        if idx < size {
            all_eq &= a.load[idx] == b.load[idx];
        }
        idx += 1;
    }
    assert!(size == 0 || (a == b) == all_eq);
    kani::cover!(size == 8 && a == b, "equal-in-all-eight");
}

// Concrete-playback replays (`cargo kani playback`) are compiled from here; the file is written by /verif/check.
#[cfg(all(kani, test))]
mod verif_playback {
    #[allow(unused_imports)]
    use super::*;
    include!("/verif/replays/_active/vrp-core__load.rs");
}
