//! Kani proof harnesses compiled as a child module of vrp-core/src/construction/features/transport.rs.
//!
//! C06/C01 (state level): `TransportConstraint::evaluate_activity` accepts an insertion between `prev` and `next`
//! exactly when a forward simulation of prev -> target -> next meets the target's window and reaches `next` no later
//! than its cached latest-arrival value. Bit-precise second encoding of what the MIR->SMT engine decides relationally.
use super::*;
use crate::construction::heuristics::{ActivityContext, RouteContext};
use crate::models::common::Dimensions;
use crate::models::problem::SimpleActivityCost;
use crate::verif_support::*;

fn constraint<const L: usize>(matrix: SymMatrix<L>) -> TransportConstraint {
    TransportConstraint {
        transport: Arc::new(matrix),
        activity: Arc::new(SimpleActivityCost::default()),
        time_window_code: ViolationCode(1),
    }
}

fn any_loc<const L: usize>() -> usize {
    let l: usize = kani::any();
    kani::assume(l < L);
    l
}

/// Target activity with symbolic place (location, service duration, time window).
fn any_job_activity<const L: usize>() -> Activity {
    let start = any_u8f();
    let end = any_u8f();
    kani::assume(start <= end);
    job_activity(single_with(Dimensions::default()), any_loc::<L>(), any_u8f(), start, end)
}

// @verif props=C06,C01 tier=quick ob=tw_kernel_state fn=TransportConstraint::evaluate_activity,SimpleActivityCost::estimate_departure,SimpleActivityCost::estimate_arrival bounds="closed leg prev->target->next; 3 locations; matrix, windows, service, departure, shift end, latest-arrival state: any u8 as f64" stubs="Arc::drop_slow := no-op"
#[kani::proof]
#[kani::unwind(5)]
#[kani::stub(std::sync::Arc::drop_slow, crate::verif_support::arc_drop_noop)]
fn c06_tw_kernel_state_closed_leg() {
    const L: usize = 3;
    let matrix = SymMatrix::<L>::any_u8();
    let d = matrix.durations;
    let constraint = constraint(matrix);

    let shift_end = any_u8f();
    let actor = actor_with(vehicle_with(Dimensions::default(), costs(0., 1., 1.)), 0, 0., Some(0), shift_end);
    let mut route_ctx = RouteContext::new(actor);

    let mut prev = any_job_activity::<L>();
    prev.schedule.departure = any_u8f();
    let target = any_job_activity::<L>();
    let next = any_job_activity::<L>();
    // cached latest arrival at `next` (index 2 of the tour: start, prev, next)
    let la_next = any_u8f();
    route_ctx.state_mut().set_latest_arrival_states(vec![0., 0., la_next]);

    // the tour as it stands is feasible on this leg: next is reached in time without the target
    let dep_prev = prev.schedule.departure;
    kani::assume(dep_prev + d[prev.place.location][next.place.location] <= la_next);
    // cached latest arrival never exceeds the window end of its activity
    kani::assume(la_next <= next.place.time.end);

    let activity_ctx = ActivityContext { index: 1, prev: &prev, target: &target, next: Some(&next) };
    let result = constraint.evaluate_activity(&route_ctx, &activity_ctx);

    // independent forward simulation of prev -> target -> next
    let arrival = dep_prev + d[prev.place.location][target.place.location];
    let service_start = if arrival > target.place.time.start { arrival } else { target.place.time.start };
    let departure = service_start + target.place.duration;
    let arrival_next = departure + d[target.place.location][next.place.location];
    let within_shift = !(shift_end < prev.place.time.start)
        && !(shift_end < target.place.time.start)
        && !(shift_end < next.place.time.start);
    let feasible = within_shift && arrival <= target.place.time.end && arrival_next <= la_next;

    assert!(result.is_none() == feasible);
    if let Some(violation) = &result {
        assert!(violation.code == ViolationCode(1));
        // a `stopped` verdict makes the evaluator abandon the other time windows of this leg and all later legs, so it
        // must not depend on the target: here it can only come from the shift end lying before prev's or next's window
        assert!(!violation.stopped || shift_end < prev.place.time.start || shift_end < next.place.time.start);
    }
    kani::cover!(result.is_none(), "accepted");
    kani::cover!(result.is_none() && arrival < target.place.time.start, "accepted-with-waiting");
    kani::cover!(result.as_ref().is_some_and(|v| !v.stopped), "skipped");
    kani::cover!(result.as_ref().is_some_and(|v| v.stopped), "stopped");
    std::mem::forget((route_ctx, constraint, prev, target, next));
}

// @verif props=C06,C01 tier=quick ob=tw_kernel_state fn=TransportConstraint::evaluate_activity,SimpleActivityCost::estimate_arrival bounds="open end: target appended after prev (no next), unlimited shift end as Fleet::new creates it for vehicles without end place; 3 locations; all values any u8 as f64" stubs="Arc::drop_slow := no-op"
#[kani::proof]
#[kani::unwind(5)]
#[kani::stub(std::sync::Arc::drop_slow, crate::verif_support::arc_drop_noop)]
fn c06_tw_kernel_state_open_end() {
    const L: usize = 3;
    let matrix = SymMatrix::<L>::any_u8();
    let d = matrix.durations;
    let constraint = constraint(matrix);

    // a vehicle without end place has no latest time: Fleet::new sets the shift end to Float::MAX
    let actor = actor_with(vehicle_with(Dimensions::default(), costs(0., 1., 1.)), 0, 0., None, Float::MAX);
    let route_ctx = RouteContext::new(actor);

    let mut prev = any_job_activity::<L>();
    prev.schedule.departure = any_u8f();
    let target = any_job_activity::<L>();

    let activity_ctx = ActivityContext { index: 1, prev: &prev, target: &target, next: None };
    let result = constraint.evaluate_activity(&route_ctx, &activity_ctx);

    // the last activity of an open tour only has to be reached within its own time window
    let arrival = prev.schedule.departure + d[prev.place.location][target.place.location];
    let feasible = arrival <= target.place.time.end;

    kani::cover!(
        result.is_none() && arrival + target.place.duration > target.place.time.end,
        "accepted-service-ends-after-window"
    );
    kani::cover!(result.is_some(), "rejected");
    assert!(result.is_none() == feasible);
    std::mem::forget((route_ctx, constraint, prev, target));
}

// Concrete-playback replays (`cargo kani playback`) are compiled from here; the file is written by /verif/check.
#[cfg(all(kani, test))]
mod verif_playback {
    #[allow(unused_imports)]
    use super::*;
    include!("/verif/replays/_active/vrp-core__transport.rs");
}
