//! Kani proof harnesses compiled as a child module of rosomaxa/src/termination/min_variation.rs (cfg(kani) only).

// Concrete-playback replays (`cargo kani playback`) are compiled from here; the file is written by /verif/check.
#[cfg(all(kani, test))]
mod verif_playback {
    #[allow(unused_imports)]
    use super::*;
    include!("/verif/replays/_active/rosomaxa__min_variation.rs");
}
