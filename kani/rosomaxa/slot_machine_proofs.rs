//! Kani proof harnesses compiled as a child module of rosomaxa/src/algorithms/rl/slot_machine.rs (cfg(kani) only).
//!
//! C18: the conjugate update of the bandit arm keeps its learning state finite and valid, and `sample` hands
//! the distribution samplers arguments that satisfy their constructors' preconditions.
use super::*;
use std::cell::Cell;

/// Exact model of `f64::powi(x, 2)` (the only exponent used by the update); Kani's own `powi` is a
/// nondeterministic over-approximation.
fn powi_model(x: Float, n: i32) -> Float {
    assert!(n == 2, "only powi(_, 2) is modelled");
    x * x
}

#[derive(Clone)]
struct Act;

struct Fb(Float);

impl SlotFeedback for Fb {
    fn reward(&self) -> Float {
        self.0
    }
}

impl SlotAction for Act {
    type Context = ();
    type Feedback = Fb;

    fn take(&self, _: ()) -> Fb {
        Fb(0.)
    }
}

/// Records the arguments the slot machine passes to the samplers and answers with arbitrary values.
#[derive(Clone, Default)]
struct Probe {
    gamma_args: Cell<(Float, Float)>,
    normal_args: Cell<(Float, Float)>,
}

impl DistributionSampler for Probe {
    fn gamma(&self, shape: Float, scale: Float) -> Float {
        self.gamma_args.set((shape, scale));
        // a gamma sample is a non-negative finite number; exact zero is possible by underflow and is guarded by the code.
        // Subnormal samples (0 < v < 2.2e-308, probability < 1e-400 for shape >= 1.5) are excluded: 1/v overflows to
        // infinity and rand_distr's Normal::new rejects an infinite std_dev - recorded as an observation in DESIGN.md.
        let v: Float = kani::any();
        kani::assume((v == 0. || v >= Float::MIN_POSITIVE) && v.is_finite());
        v
    }

    fn normal(&self, mean: Float, std_dev: Float) -> Float {
        self.normal_args.set((mean, std_dev));
        mean
    }
}

const R_MAX: Float = 1048576.; // 2^20: several orders of magnitude above the documented reward range

fn any_reward() -> Float {
    let r: Float = kani::any();
    // zero and denormals included
    kani::assume(r >= 0. && r <= R_MAX);
    r
}

fn check_state(machine: &SlotMachine<Act, Probe>, n: usize, lo: Float, hi: Float) {
    let (alpha, beta, mu, v, count) = machine.get_params();
    assert!(count == n);
    assert!(alpha.is_finite() && beta.is_finite() && mu.is_finite() && v.is_finite());
    assert!(alpha > 0.);
    assert!(beta >= 10.);
    assert!(v >= 0.);
    assert!(alpha == 1. + n as Float / 2.);
    // mean within the hull of everything seen, widened by a rounding allowance (mu + (r - mu)/n is not exact)
    let slack = 9.5e-7; // 2^-20; hull values are <= 2^20, so this is ~2^-40 relative
    assert!(mu >= lo - slack && mu <= hi + slack);
}

// @verif props=C18 tier=quick ob=slot_update fn=SlotMachine::new,SlotMachine::update,SlotMachine::get_params bounds="history of length 1 from new(prior); prior, reward any f64 in [0, 2^20] (0 and denormals included)" stubs="f64::powi(x,2) := x*x (exact)"
#[kani::proof]
#[kani::unwind(3)]
#[kani::stub(f64::powi, powi_model)]
fn c18_slot_update_one_step() {
    let prior = any_reward();
    let mut machine = SlotMachine::new(prior, Act, Probe::default());
    check_state(&machine, 0, prior, prior);

    let r1 = any_reward();
    machine.update(&Fb(r1));
    check_state(&machine, 1, prior.min(r1), prior.max(r1));
    // after the first observation the mean IS the observation (n = 1): mu + (r - mu)/1
    kani::cover!(r1 == 0. && prior > 0., "zero-reward");
    kani::cover!(r1 > prior, "above-prior");
}

// @verif props=C18 tier=thorough ob=slot_update fn=SlotMachine::new,SlotMachine::update mem=heavy bounds="history of length 2 from new(prior); prior, rewards any f64 in [0, 2^20]" stubs="f64::powi(x,2) := x*x (exact)"
#[kani::proof]
#[kani::unwind(3)]
#[kani::stub(f64::powi, powi_model)]
fn c18_slot_update_two_steps() {
    let prior = any_reward();
    let mut machine = SlotMachine::new(prior, Act, Probe::default());
    let (r1, r2) = (any_reward(), any_reward());
    machine.update(&Fb(r1));
    machine.update(&Fb(r2));
    check_state(&machine, 2, prior.min(r1).min(r2), prior.max(r1).max(r2));
    kani::cover!(r2 > r1, "increasing");
}

// @verif props=C18 tier=quick ob=slot_sample fn=SlotMachine::sample bounds="state = new(prior) or one update; prior, reward any f64 in [0, 2^20]; gamma sample 0 or any normal finite f64 >= 2.2e-308" stubs="f64::powi(x,2) := x*x (exact); f64::sqrt is CBMC's over-approximation (result >= 0 for finite positive input, NaN-free)"
#[kani::proof]
#[kani::unwind(3)]
#[kani::stub(f64::powi, powi_model)]
fn c18_slot_sample_preconditions() {
    let prior = any_reward();
    let mut machine = SlotMachine::new(prior, Act, Probe::default());
    let updated: bool = kani::any();
    if updated {
        machine.update(&Fb(any_reward()));
    }

    let sample = machine.sample();

    let (shape, scale) = machine.sampler.gamma_args.get();
    let (mean, std_dev) = machine.sampler.normal_args.get();
    // rand_distr::Gamma::new requires shape > 0 and scale > 0, both finite; Normal::new requires finite mean and std_dev >= 0 finite
    assert!(shape > 0. && shape.is_finite());
    assert!(scale > 0. && scale.is_finite());
    assert!(mean.is_finite());
    assert!(std_dev.is_finite() && std_dev >= 0.);
    assert!(sample == mean);
    kani::cover!(updated, "after-update");
    kani::cover!(!updated, "fresh");
}

// Concrete-playback replays (`cargo kani playback`) are compiled from here; the file is written by /verif/check.
#[cfg(all(kani, test))]
mod verif_playback {
    #[allow(unused_imports)]
    use super::*;
    include!("/verif/replays/_active/rosomaxa__slot_machine.rs");
}
