//! Kani proof harnesses compiled as a child module of rosomaxa/src/population/elitism.rs (cfg(kani) only).
//!
//! C08 for `Elitism<Obj, Sol>`: inductive step from an arbitrary *sorted* state. The dedup predicate is
//! NONDETERMINISTIC (every call may answer true or false), which covers strictly more behaviours than the
//! default `relative_distance < 0.05` predicate.
use super::*;
use crate::verif_support::*;

fn le(a: Float, b: Float) -> bool {
    a.total_cmp(&b) != Ordering::Greater
}

fn make(max_population_size: usize, selection_size: usize, individuals: Vec<Sol>) -> Elitism<Obj, Sol> {
    Elitism {
        objective: Arc::new(Obj),
        random: nd_random(),
        selection_size,
        max_population_size,
        individuals,
        speed: None,
        dedup_fn: Box::new(|_, _, _| kani::any()),
    }
}

/// Checks the representation invariant + "never loses the best" against everything that was ever present/offered.
fn check_post(pop: &Elitism<Obj, Sol>, seen: &[Sol], max: usize) {
    let n = pop.individuals.len();
    assert!(n <= max);
    assert!(n >= 1 || seen.is_empty());
    assert!(pop.size() == n);
    // ranking is sorted
    let mut idx = 1;
    while idx < n {
        assert!(le(pop.individuals[idx - 1].f, pop.individuals[idx].f));
        idx += 1;
    }
    // every member was offered (tags are unique per offered individual and the fitness is unchanged)
    let mut idx = 0;
    while idx < n {
        let m = pop.individuals[idx];
        let mut found = false;
        let mut j = 0;
        while j < seen.len() {
            if seen[j].tag == m.tag && seen[j].f.to_bits() == m.f.to_bits() {
                found = true;
            }
            j += 1;
        }
        assert!(found);
        idx += 1;
    }
    // the first ranked is no worse than anything seen
    if n > 0 {
        let mut j = 0;
        while j < seen.len() {
            assert!(le(pop.individuals[0].f, seen[j].f));
            j += 1;
        }
        assert!(pop.ranked().next().is_some_and(|s| s.tag == pop.individuals[0].tag));
    }
}

fn sorted_state<const K: usize>() -> ([Sol; 3], Vec<Sol>) {
    let all = [any_sol(1), any_sol(2), any_sol(3)];
    kani::assume(le(all[0].f, all[1].f) && le(all[1].f, all[2].f));
    let state = match K {
        0 => vec![],
        1 => vec![all[0]],
        2 => vec![all[0], all[1]],
        _ => vec![all[0], all[1], all[2]],
    };
    (all, state)
}

/// One `add` from an arbitrary sorted state of exactly K individuals with `max_population_size` = MAX.
fn add_step<const K: usize, const MAX: usize>() {
    let (prev, state) = sorted_state::<K>();
    let mut pop = make(MAX, 2, state);
    let prev_best = if K > 0 { Some(prev[0].f) } else { None };

    let x = any_sol(4);
    let improved = pop.add(x);

    let seen = [x, prev[0], prev[1], prev[2]];
    check_post(&pop, &seen[..1 + K], MAX);
    // reported improvement <=> the first fitness changed
    let new_best = pop.individuals[0].f;
    assert!(improved == prev_best.is_none_or(|p| p != new_best));
    kani::cover!(improved, "improved");
    kani::cover!(K == 0 || !improved, "kept");
    kani::cover!(K == 0 || pop.individuals.len() < K + 1, "dedup-or-truncate");
    std::mem::forget(pop);
}

/// One `add_all` of N individuals from an arbitrary sorted state of exactly K individuals.
fn add_all_step<const K: usize, const N: usize, const MAX: usize>() {
    let (prev, state) = sorted_state::<K>();
    let mut pop = make(MAX, 2, state);

    let offered = [any_sol(4), any_sol(5), any_sol(6)];
    let batch = match N {
        0 => vec![],
        1 => vec![offered[0]],
        2 => vec![offered[0], offered[1]],
        _ => vec![offered[0], offered[1], offered[2]],
    };
    let improved = pop.add_all(batch);

    let mut seen = [offered[0]; 6];
    let mut idx = 0;
    while idx < N {
        seen[idx] = offered[idx];
        idx += 1;
    }
    let mut idx = 0;
    while idx < K {
        seen[N + idx] = prev[idx];
        idx += 1;
    }
    if N == 0 {
        // an empty batch changes nothing
        assert!(!improved && pop.individuals.len() == K);
    } else {
        check_post(&pop, &seen[..N + K], MAX);
    }
    kani::cover!(N == 0 || improved, "improved-by-batch");
    kani::cover!(K == 0 || !improved, "batch-not-better");
    std::mem::forget(pop);
}

// @verif props=C08 tier=quick ob=elitism_step fn=Elitism::add,Elitism::add_with_iter,Elitism::sort,Elitism::ensure_max_population_size,Elitism::is_improved bounds="arbitrary sorted state of 0 individuals, one add, max_population_size=1; fitness = any i16 as f64; dedup predicate nondeterministic"
#[kani::proof]
#[kani::unwind(8)]
fn c08_elitism_add_k0_max1() {
    add_step::<0, 1>();
}

// @verif props=C08 tier=quick ob=elitism_step fn=Elitism::add,Elitism::add_with_iter,Elitism::sort,Elitism::ensure_max_population_size,Elitism::is_improved bounds="arbitrary sorted state of 1 individuals, one add, max_population_size=1; fitness = any i16 as f64; dedup predicate nondeterministic"
#[kani::proof]
#[kani::unwind(8)]
fn c08_elitism_add_k1_max1() {
    add_step::<1, 1>();
}

// @verif props=C08 tier=quick ob=elitism_step fn=Elitism::add,Elitism::add_with_iter,Elitism::sort,Elitism::ensure_max_population_size,Elitism::is_improved bounds="arbitrary sorted state of 1 individuals, one add, max_population_size=2; fitness = any i16 as f64; dedup predicate nondeterministic"
#[kani::proof]
#[kani::unwind(8)]
fn c08_elitism_add_k1_max2() {
    add_step::<1, 2>();
}

// @verif props=C08 tier=quick ob=elitism_step fn=Elitism::add,Elitism::add_with_iter,Elitism::sort,Elitism::ensure_max_population_size,Elitism::is_improved bounds="arbitrary sorted state of 2 individuals, one add, max_population_size=2; fitness = any i16 as f64; dedup predicate nondeterministic"
#[kani::proof]
#[kani::unwind(8)]
fn c08_elitism_add_k2_max2() {
    add_step::<2, 2>();
}

// @verif props=C08 tier=quick ob=elitism_step fn=Elitism::add,Elitism::add_with_iter,Elitism::sort,Elitism::ensure_max_population_size,Elitism::is_improved bounds="arbitrary sorted state of 2 individuals, one add, max_population_size=3; fitness = any i16 as f64; dedup predicate nondeterministic"
#[kani::proof]
#[kani::unwind(8)]
fn c08_elitism_add_k2_max3() {
    add_step::<2, 3>();
}

// @verif props=C08 tier=thorough ob=elitism_step fn=Elitism::add,Elitism::add_with_iter,Elitism::sort,Elitism::ensure_max_population_size,Elitism::is_improved bounds="arbitrary sorted state of 3 individuals, one add, max_population_size=3; fitness = any i16 as f64; dedup predicate nondeterministic"
#[kani::proof]
#[kani::unwind(8)]
fn c08_elitism_add_k3_max3() {
    add_step::<3, 3>();
}

// @verif props=C08 tier=thorough ob=elitism_step fn=Elitism::add,Elitism::add_with_iter,Elitism::sort,Elitism::ensure_max_population_size,Elitism::is_improved bounds="arbitrary sorted state of 3 individuals, one add, max_population_size=4; fitness = any i16 as f64; dedup predicate nondeterministic"
#[kani::proof]
#[kani::unwind(8)]
fn c08_elitism_add_k3_max4() {
    add_step::<3, 4>();
}

// @verif props=C08 tier=thorough ob=elitism_step fn=Elitism::add,Elitism::add_with_iter,Elitism::sort,Elitism::ensure_max_population_size,Elitism::is_improved bounds="arbitrary sorted state of 2 individuals, one add, max_population_size=1; fitness = any i16 as f64; dedup predicate nondeterministic"
#[kani::proof]
#[kani::unwind(8)]
fn c08_elitism_add_k2_max1() {
    add_step::<2, 1>();
}

// @verif props=C08 tier=quick ob=elitism_step fn=Elitism::add_all,Elitism::add_with_iter,Elitism::sort,Elitism::ensure_max_population_size,Elitism::is_improved bounds="arbitrary sorted state of 0 individuals, batch of 0, max_population_size=2; dedup predicate nondeterministic"
#[kani::proof]
#[kani::unwind(8)]
fn c08_elitism_add_all_k0_n0_max2() {
    add_all_step::<0, 0, 2>();
}

// @verif props=C08 tier=quick ob=elitism_step fn=Elitism::add_all,Elitism::add_with_iter,Elitism::sort,Elitism::ensure_max_population_size,Elitism::is_improved bounds="arbitrary sorted state of 1 individuals, batch of 0, max_population_size=2; dedup predicate nondeterministic"
#[kani::proof]
#[kani::unwind(8)]
fn c08_elitism_add_all_k1_n0_max2() {
    add_all_step::<1, 0, 2>();
}

// @verif props=C08 tier=quick ob=elitism_step fn=Elitism::add_all,Elitism::add_with_iter,Elitism::sort,Elitism::ensure_max_population_size,Elitism::is_improved bounds="arbitrary sorted state of 0 individuals, batch of 2, max_population_size=2; dedup predicate nondeterministic"
#[kani::proof]
#[kani::unwind(8)]
fn c08_elitism_add_all_k0_n2_max2() {
    add_all_step::<0, 2, 2>();
}

// @verif props=C08 tier=quick ob=elitism_step fn=Elitism::add_all,Elitism::add_with_iter,Elitism::sort,Elitism::ensure_max_population_size,Elitism::is_improved bounds="arbitrary sorted state of 1 individuals, batch of 2, max_population_size=2; dedup predicate nondeterministic"
#[kani::proof]
#[kani::unwind(8)]
fn c08_elitism_add_all_k1_n2_max2() {
    add_all_step::<1, 2, 2>();
}

// @verif props=C08 tier=thorough ob=elitism_step fn=Elitism::add_all,Elitism::add_with_iter,Elitism::sort,Elitism::ensure_max_population_size,Elitism::is_improved bounds="arbitrary sorted state of 2 individuals, batch of 2, max_population_size=3; dedup predicate nondeterministic"
#[kani::proof]
#[kani::unwind(8)]
fn c08_elitism_add_all_k2_n2_max3() {
    add_all_step::<2, 2, 3>();
}

// @verif props=C08 tier=thorough ob=elitism_step fn=Elitism::add_all,Elitism::add_with_iter,Elitism::sort,Elitism::ensure_max_population_size,Elitism::is_improved bounds="arbitrary sorted state of 2 individuals, batch of 2, max_population_size=4; dedup predicate nondeterministic"
#[kani::proof]
#[kani::unwind(8)]
fn c08_elitism_add_all_k2_n2_max4() {
    add_all_step::<2, 2, 4>();
}

// @verif props=C08 tier=thorough ob=elitism_step fn=Elitism::add_all,Elitism::add_with_iter,Elitism::sort,Elitism::ensure_max_population_size,Elitism::is_improved bounds="arbitrary sorted state of 1 individuals, batch of 3, max_population_size=3; dedup predicate nondeterministic"
#[kani::proof]
#[kani::unwind(8)]
fn c08_elitism_add_all_k1_n3_max3() {
    add_all_step::<1, 3, 3>();
}

// @verif props=C08 tier=thorough ob=elitism_step fn=Elitism::add_all,Elitism::add_with_iter,Elitism::sort,Elitism::ensure_max_population_size,Elitism::is_improved bounds="arbitrary sorted state of 3 individuals, batch of 2, max_population_size=4; dedup predicate nondeterministic"
#[kani::proof]
#[kani::unwind(8)]
fn c08_elitism_add_all_k3_n2_max4() {
    add_all_step::<3, 2, 4>();
}

// @verif props=C08 tier=quick ob=elitism_step fn=Elitism::add_all,Elitism::add_with_iter,Elitism::sort,Elitism::ensure_max_population_size,Elitism::is_improved bounds="arbitrary sorted state of 0 individuals, batch of 2 LARGER than max_population_size=1; dedup predicate nondeterministic"
#[kani::proof]
#[kani::unwind(8)]
fn c08_elitism_add_all_k0_n2_max1() {
    add_all_step::<0, 2, 1>();
}

// @verif props=C08 tier=quick ob=elitism_step fn=Elitism::add_all,Elitism::add_with_iter,Elitism::sort,Elitism::ensure_max_population_size,Elitism::is_improved bounds="arbitrary sorted state of 1 individuals, batch of 2 LARGER than max_population_size=1; dedup predicate nondeterministic"
#[kani::proof]
#[kani::unwind(8)]
fn c08_elitism_add_all_k1_n2_max1() {
    add_all_step::<1, 2, 1>();
}

// @verif props=C08 tier=thorough ob=elitism_step fn=Elitism::add_all,Elitism::add_with_iter,Elitism::sort,Elitism::ensure_max_population_size,Elitism::is_improved bounds="arbitrary sorted state of 1 individuals, batch of 3 LARGER than max_population_size=2; dedup predicate nondeterministic"
#[kani::proof]
#[kani::unwind(8)]
fn c08_elitism_add_all_k1_n3_max2() {
    add_all_step::<1, 3, 2>();
}

// @verif props=C08 tier=thorough ob=elitism_step fn=Elitism::add_all,Elitism::add_with_iter,Elitism::sort,Elitism::ensure_max_population_size,Elitism::is_improved bounds="arbitrary sorted state of 2 individuals, batch of 3 LARGER than max_population_size=2; dedup predicate nondeterministic"
#[kani::proof]
#[kani::unwind(8)]
fn c08_elitism_add_all_k2_n3_max2() {
    add_all_step::<2, 3, 2>();
}

// @verif props=C08 tier=thorough ob=elitism_step fn=Elitism::add_all,Elitism::add_with_iter,Elitism::sort,Elitism::ensure_max_population_size,Elitism::is_improved bounds="arbitrary sorted state of 0 individuals, batch of 3 LARGER than max_population_size=1; dedup predicate nondeterministic"
#[kani::proof]
#[kani::unwind(8)]
fn c08_elitism_add_all_k0_n3_max1() {
    add_all_step::<0, 3, 1>();
}

// @verif props=C08 tier=quick ob=elitism_select fn=Elitism::select,Elitism::on_generation bounds="state of 0..=3 individuals, selection_size 0..=3, speed Unknown|Slow{ratio in {0,1/4,..,1}}; random index arbitrary within its contract"
#[kani::proof]
#[kani::unwind(6)]
fn c08_elitism_select() {
    let k: usize = kani::any();
    kani::assume(k <= 3);
    let (a, b, c) = (any_sol(1), any_sol(2), any_sol(3));
    let state = match k {
        0 => vec![],
        1 => vec![a],
        2 => vec![a, b],
        _ => vec![a, b, c],
    };
    let selection_size: usize = kani::any();
    kani::assume(selection_size <= 3);
    let mut pop = make(3, selection_size, state);
    let slow: bool = kani::any();
    let q: u8 = kani::any();
    kani::assume(q <= 4);
    if slow {
        pop.speed = Some(HeuristicSpeed::Slow { ratio: q as Float / 4., average: 0., median: None });
    }

    let mut count = 0;
    let mut first_tag = 0;
    for s in pop.select() {
        if count == 0 {
            first_tag = s.tag;
        }
        assert!(s.tag >= 1 && s.tag as usize <= k);
        count += 1;
    }
    if k == 0 {
        assert!(count == 0);
    } else {
        // the best individual is always selected first, and something is returned when a selection is requested
        let expected = if slow { ((selection_size as Float) * (q as Float / 4.)).max(1.).round() as usize } else { selection_size };
        assert!(count == expected);
        assert!(count == 0 || first_tag == 1);
        assert!(selection_size == 0 || count >= 1);
    }
    kani::cover!(count == 3, "three-selected");
    kani::cover!(slow && count == 1 && selection_size == 3, "slowed-down");
    std::mem::forget(pop);
}

// Concrete-playback replays (`cargo kani playback`) are compiled from here; the file is written by /verif/check.
#[cfg(all(kani, test))]
mod verif_playback {
    #[allow(unused_imports)]
    use super::*;
    include!("/verif/replays/_active/rosomaxa__elitism.rs");
}
