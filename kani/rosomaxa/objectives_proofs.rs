//! Kani proof harnesses compiled as a child module of rosomaxa/src/evolution/objectives.rs (cfg(kani) only).
//!
//! C09: `dominance_order` (the comparator used by multi-objective layers) is reflexive and antisymmetric.
use super::*;

fn order_fns<'a, const N: usize>() -> impl Iterator<Item = impl Fn(&'a [i8; N], &'a [i8; N]) -> Ordering> {
    (0..N).map(|idx| move |a: &'a [i8; N], b: &'a [i8; N]| a[idx].cmp(&b[idx]))
}

fn laws<const N: usize>() {
    let a: [i8; N] = kani::any();
    let b: [i8; N] = kani::any();

    let ab = dominance_order(&a, &b, order_fns::<N>());
    let ba = dominance_order(&b, &a, order_fns::<N>());
    let aa = dominance_order(&a, &a, order_fns::<N>());

    assert!(aa == Ordering::Equal);
    assert!(ab == ba.reverse());
    // Pareto semantics: Less iff a is no worse everywhere and better somewhere
    let mut no_worse = true;
    let mut better = false;
    let mut idx = 0;
    while idx < N {
        no_worse &= a[idx] <= b[idx];
        better |= a[idx] < b[idx];
        idx += 1;
    }
    assert!((ab == Ordering::Less) == (no_worse && better));
    kani::cover!(N == 0 || ab == Ordering::Less, "dominates");
    kani::cover!(N < 2 || (ab == Ordering::Equal && a != b), "incomparable");
}

// @verif props=C09 tier=quick ob=dominance fn=dominance_order bounds="1, 2 and 3 objective components, values any i8"
#[kani::proof]
#[kani::unwind(5)]
fn c09_dominance_order_laws_1_3() {
    laws::<1>();
    laws::<2>();
    laws::<3>();
}

// @verif props=C09 tier=thorough ob=dominance fn=dominance_order bounds="0 and 4 objective components, values any i8"
#[kani::proof]
#[kani::unwind(6)]
fn c09_dominance_order_laws_0_4() {
    laws::<0>();
    laws::<4>();
}

// Concrete-playback replays (`cargo kani playback`) are compiled from here; the file is written by /verif/check.
#[cfg(all(kani, test))]
mod verif_playback {
    #[allow(unused_imports)]
    use super::*;
    include!("/verif/replays/_active/rosomaxa__objectives.rs");
}
