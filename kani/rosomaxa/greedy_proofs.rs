//! Kani proof harnesses compiled as a child module of rosomaxa/src/population/greedy.rs (cfg(kani) only).
//!
//! C08 for `Greedy<Obj, Sol>` (the concrete instantiation is described in support.rs): inductive step from an
//! arbitrary state, so histories of any length follow by induction.
use super::*;
use crate::verif_support::*;

fn le(a: Float, b: Float) -> bool {
    a.total_cmp(&b) != Ordering::Greater
}

// @verif props=C08 tier=quick ob=greedy_step fn=Greedy::add,Greedy::select,Greedy::ranked,Greedy::size bounds="arbitrary state (None|Some), one add; fitness = any i16 as f64; selection_size<=3"
#[kani::proof]
#[kani::unwind(5)]
fn c08_greedy_add_step() {
    let has_best: bool = kani::any();
    let prev = any_sol(1);
    let selection_size: usize = kani::any();
    kani::assume(selection_size <= 3);
    let mut pop = Greedy::new(Arc::new(Obj), selection_size, if has_best { Some(prev) } else { None });

    let offered = any_sol(2);
    let improved = pop.add(offered);

    let best = pop.ranked().next().copied();
    let best = best.expect("population is not empty after an addition");
    // never worse than anything seen
    assert!(le(best.f, offered.f));
    assert!(!has_best || le(best.f, prev.f));
    // it is one of the offered individuals, and the earlier one on ties
    assert!((best.tag == 1 && has_best) || best.tag == 2);
    assert!(improved == (best.tag == 2));
    assert!(improved == (!has_best || offered.f.total_cmp(&prev.f) == Ordering::Less));
    assert!(pop.size() == 1);
    // selection returns only the stored individual, `selection_size` times
    let mut count = 0;
    for s in pop.select() {
        assert!(s.tag == best.tag);
        count += 1;
    }
    assert!(count == selection_size);
    assert!(pop.all().count() == 1);
    kani::cover!(improved && has_best, "improved");
    kani::cover!(!improved, "kept");
    std::mem::forget(pop);
}

// @verif props=C08 tier=quick ob=greedy_step fn=Greedy::add_all,Greedy::add bounds="arbitrary state (None|Some), batch of 0..=3; fitness = any i16 as f64"
#[kani::proof]
#[kani::unwind(6)]
fn c08_greedy_add_all_step() {
    let has_best: bool = kani::any();
    let prev = any_sol(0);
    let mut pop = Greedy::new(Arc::new(Obj), 1, if has_best { Some(prev) } else { None });

    let n: usize = kani::any();
    kani::assume(n <= 3);
    let batch = [any_sol(1), any_sol(2), any_sol(3)];
    let individuals = match n {
        0 => vec![],
        1 => vec![batch[0]],
        2 => vec![batch[0], batch[1]],
        _ => vec![batch[0], batch[1], batch[2]],
    };
    let improved = pop.add_all(individuals);

    let best = pop.ranked().next().copied();
    assert!(best.is_some() == (has_best || n > 0));
    assert!(pop.size() == usize::from(best.is_some()));
    if let Some(best) = best {
        let mut idx = 0;
        while idx < n {
            assert!(le(best.f, batch[idx].f));
            idx += 1;
        }
        assert!(!has_best || le(best.f, prev.f));
        assert!(best.tag as usize <= n && (best.tag != 0 || has_best));
        assert!(improved == (best.tag != 0));
    } else {
        assert!(!improved);
    }
    assert!(pop.select().count() == usize::from(best.is_some()));
    kani::cover!(improved && has_best && n == 3, "improved-by-batch");
    kani::cover!(!improved && n == 3, "batch-not-better");
    std::mem::forget(pop);
}

// Concrete-playback replays (`cargo kani playback`) are compiled from here; the file is written by /verif/check.
#[cfg(all(kani, test))]
mod verif_playback {
    #[allow(unused_imports)]
    use super::*;
    include!("/verif/replays/_active/rosomaxa__greedy.rs");
}
