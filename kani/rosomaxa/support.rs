//! Shared fixtures for the Kani proof harnesses of rosomaxa (compiled only under cfg(kani)).
#![allow(missing_docs)]
#![allow(dead_code)]

use crate::prelude::*;
use crate::population::Alternative;
use crate::utils::{Random, RandomGen};
use std::cmp::Ordering;
use std::sync::Arc;

/// The concrete instantiation of the population generics used by the harnesses: a scalar solution whose
/// fitness is an integer-valued f64 (from i16) plus a tag that identifies the individual.
#[derive(Clone, Copy)]
pub struct Sol {
    pub f: Float,
    pub tag: u8,
}

impl HeuristicSolution for Sol {
    fn fitness(&self) -> impl Iterator<Item = Float> {
        std::iter::once(self.f)
    }

    fn deep_copy(&self) -> Self {
        *self
    }
}

pub fn any_sol(tag: u8) -> Sol {
    let v: i16 = kani::any();
    Sol { f: v as Float, tag }
}

/// Minimisation objective on the scalar fitness (`total_cmp`).
pub struct Obj;

impl HeuristicObjective for Obj {
    type Solution = Sol;

    fn total_order(&self, a: &Sol, b: &Sol) -> Ordering {
        a.f.total_cmp(&b.f)
    }
}

impl Alternative for Obj {
    fn maybe_new(&self, _: &(dyn Random)) -> Self {
        Obj
    }
}

/// A `Random` whose every answer is an arbitrary value allowed by the documented contract of the method.
/// (`DefaultRandom` reaches rand's `gen_range`, which crashes the Kani compiler.)
pub struct NdRandom;

impl Random for NdRandom {
    fn uniform_int(&self, min: i32, max: i32) -> i32 {
        let v: i32 = kani::any();
        kani::assume(v >= min && v <= max);
        v
    }

    fn uniform_real(&self, min: Float, max: Float) -> Float {
        let v: Float = kani::any();
        kani::assume(v >= min && (v < max || min == max));
        v
    }

    fn is_head_not_tails(&self) -> bool {
        kani::any()
    }

    fn is_hit(&self, _: Float) -> bool {
        kani::any()
    }

    fn weighted(&self, weights: &[usize]) -> usize {
        let v: usize = kani::any();
        kani::assume(v < weights.len());
        v
    }

    fn get_rng(&self) -> RandomGen {
        RandomGen::new_repeatable()
    }
}

pub fn nd_random() -> Arc<dyn Random> {
    Arc::new(NdRandom)
}

pub fn arc_drop_noop<T: ?Sized, A: std::alloc::Allocator>(_this: &mut Arc<T, A>) {}
