//! List-backed stand-ins for the hash containers of vrp-core, compiled ONLY under `cfg(kani)`.
//!
//! hashbrown (SIMD group probing) and hashing of `TypeId`/pointers are intractable for CBMC (see
//! /verif/DESIGN.md section 0), so under the Kani compiler the `index` field of `Dimensions`,
//! `RouteState`, `SolutionState` and `Tour.jobs` are swapped to these association lists which expose the
//! same method names.  The hash containers themselves are therefore *trusted*; what is verified is the
//! vrp logic that reads and writes them.
#![allow(missing_docs)]
#![allow(dead_code)]

#[derive(Clone, Debug)]
pub struct ListMap<K, V> {
    items: Vec<(K, V)>,
}

impl<K, V> Default for ListMap<K, V> {
    fn default() -> Self {
        Self { items: Vec::new() }
    }
}

impl<K: PartialEq, V> ListMap<K, V> {
    pub fn with_capacity(_: usize) -> Self {
        Self { items: Vec::new() }
    }

    pub fn get(&self, key: &K) -> Option<&V> {
        let mut idx = 0;
        while idx < self.items.len() {
            if self.items[idx].0 == *key {
                return Some(&self.items[idx].1);
            }
            idx += 1;
        }
        None
    }

    pub fn insert(&mut self, key: K, value: V) -> Option<V> {
        let mut idx = 0;
        while idx < self.items.len() {
            if self.items[idx].0 == key {
                return Some(std::mem::replace(&mut self.items[idx].1, value));
            }
            idx += 1;
        }
        self.items.push((key, value));
        None
    }

    pub fn remove(&mut self, key: &K) -> Option<V> {
        let mut idx = 0;
        while idx < self.items.len() {
            if self.items[idx].0 == *key {
                return Some(self.items.remove(idx).1);
            }
            idx += 1;
        }
        None
    }

    pub fn contains_key(&self, key: &K) -> bool {
        self.get(key).is_some()
    }

    pub fn clear(&mut self) {
        self.items.clear();
    }

    pub fn len(&self) -> usize {
        self.items.len()
    }

    pub fn is_empty(&self) -> bool {
        self.items.is_empty()
    }
}

#[derive(Clone, Debug)]
pub struct ListSet<T> {
    items: Vec<T>,
}

impl<T> Default for ListSet<T> {
    fn default() -> Self {
        Self { items: Vec::new() }
    }
}

impl<T: PartialEq> ListSet<T> {
    pub fn contains(&self, value: &T) -> bool {
        let mut idx = 0;
        while idx < self.items.len() {
            if self.items[idx] == *value {
                return true;
            }
            idx += 1;
        }
        false
    }

    pub fn insert(&mut self, value: T) -> bool {
        if self.contains(&value) {
            false
        } else {
            self.items.push(value);
            true
        }
    }

    pub fn remove(&mut self, value: &T) -> bool {
        let mut idx = 0;
        while idx < self.items.len() {
            if self.items[idx] == *value {
                self.items.remove(idx);
                return true;
            }
            idx += 1;
        }
        false
    }

    pub fn iter(&self) -> std::slice::Iter<'_, T> {
        self.items.iter()
    }

    pub fn len(&self) -> usize {
        self.items.len()
    }

    pub fn is_empty(&self) -> bool {
        self.items.is_empty()
    }
}
