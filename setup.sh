#!/bin/sh
# Offline setup after a fresh restore: warm the Kani build caches (dependencies) so that checks only
# rebuild the workspace crates. Everything is rebuilt from /repo's working tree by each check anyway.
set -u
export CARGO_NET_OFFLINE=true
mkdir -p /verif/.cache /verif/evidence /verif/replays/_active
for crate in rosomaxa vrp-core vrp-pragmatic; do
  (cd /repo/$crate && cargo kani --only-codegen --target-dir /verif/.cache/kani-$crate >/verif/.cache/setup-$crate.log 2>&1) || echo "warm-up of $crate failed (checks will rebuild)"
done
[ -x /verif/tools/setup_extra.sh ] && /verif/tools/setup_extra.sh
exit 0
