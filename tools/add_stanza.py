#!/usr/bin/env python3
"""Adds the add-only `#[cfg(kani)] #[path=...] mod verif_kani_proofs;` stanza to a /repo source file
and creates the (empty) proof module under /verif/kani/<crate>/ if it does not exist yet.
usage: add_stanza.py <crate>/src/.../file.rs [...]"""
import os, sys
for rel in sys.argv[1:]:
    crate = rel.split('/')[0]
    stem = os.path.splitext(os.path.basename(rel))[0]
    if stem in ('lib', 'mod'):
        stem = (os.path.basename(os.path.dirname(rel)) if stem == 'mod' else 'lib')
    proof = f"/verif/kani/{crate}/{stem}_proofs.rs"
    src = os.path.join('/repo', rel)
    text = open(src).read()
    if proof in text:
        print('already hooked', rel)
        continue
    stanza = f'\n#[cfg(kani)]\n#[path = "{proof}"]\nmod verif_kani_proofs;\n'
    if not text.endswith('\n'):
        text += '\n'
    open(src, 'w').write(text + stanza)
    os.makedirs(os.path.dirname(proof), exist_ok=True)
    if not os.path.exists(proof):
        open(proof, 'w').write(f"//! Kani proof harnesses compiled as a child module of {rel} (cfg(kani) only).\n"
            f"\n// Concrete-playback replays (`cargo kani playback`) are compiled from here; the file is written by /verif/check.\n"
            f"#[cfg(all(kani, test))]\nmod verif_playback {{\n    #[allow(unused_imports)]\n    use super::*;\n"
            f"    include!(\"/verif/replays/_active/{crate}__{stem}.rs\");\n}}\n")
    print('hooked', rel, '->', proof)
