#!/usr/bin/env python3
"""Applies seeded changes to /repo one at a time, runs the property's quick check, restores /repo and records the outcome in
seeded/<id>/meta.json (key `detection`).  usage: record_detection.py <ID> [<ID> ...] [--note ID=text]"""
import json, os, re, subprocess, sys

ids = [a for a in sys.argv[1:] if not a.startswith('--')]
for sid in ids:
    d = f'/verif/seeded/{sid}'
    prop = sid.split('-')[0]
    if subprocess.run(['git', '-C', '/repo', 'status', '--short'], capture_output=True, text=True).stdout.strip():
        sys.exit('REPO NOT CLEAN')
    subprocess.run(['git', '-C', '/repo', 'apply', f'{d}/patch.diff'], check=True)
    try:
        p = subprocess.run(['./check', prop], cwd='/verif', env=dict(os.environ, VERIF_TIER='quick'), capture_output=True, text=True, timeout=7200)
    finally:
        subprocess.run(['git', '-C', '/repo', 'checkout', '--', '.'], check=True)
    out = p.stdout + p.stderr
    lines = [l[:200] for l in out.splitlines() if re.match(r'^(VIOLATION|INCONCLUSIVE|KNOWN)', l)]
    meta = json.load(open(f'{d}/meta.json'))
    old_note = (meta.get('detection') or {}).get('note', '')
    meta['detection'] = {'command': f'git -C /repo apply /verif/seeded/{sid}/patch.diff && VERIF_TIER=quick /verif/check {prop} ; git -C /repo checkout -- .',
                         'exit': p.returncode, 'caught': p.returncode == 1, 'reported': lines[:6], 'note': old_note}
    json.dump(meta, open(f'{d}/meta.json', 'w'), indent=1)
    print(sid, 'exit', p.returncode, lines[:2], flush=True)
