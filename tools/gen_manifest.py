#!/usr/bin/env python3
"""Regenerates /verif/MANIFEST.json from the table below (single source of truth for the interface file)."""
import json, subprocess

NA = {
 'C02': 'Job conservation lives entirely in SolutionContext/InsertionContext bookkeeping (std HashMap<Job,_>, HashSet<Job>, Registry) and the pragmatic writer; none of it can be constructed or hashed symbolically (RandomState needs a syscall; one hashbrown insert is undecided after 30 min under CBMC) and the quantifier is over full solves.',
 'C04': 'Quantifies over operator histories on InsertionContext; every operator needs Problem/Jobs (rayon-built index, DBSCAN), random streams and std hash containers - no operator body is encodable within reach of Kani or the MIR->SMT engine.',
 'C07': 'Crash points are quota polls inside Solver::solve / InsertionHeuristic::process; the poll index would be a natural symbolic variable but the code between polls is the whole solver, which cannot be encoded (the generation>=limit predicate itself is decided under C18).',
 'C11': 'Round trips go through serde_json parsing/printing and String/number formatting - unbounded loops over text - plus read_init_solution on full problems; outside bounded symbolic execution here.',
 'C12': 'The checker consumes pragmatic JSON models with string ids and std hash maps and needs a core Problem; breach injection is generate-and-run, not a solver query over this code.',
 'C13': 'Readers are line/whitespace tokenisers over BufReader<String> feeding Jobs::new/Fleet::new (rayon, hashing); the only arithmetic kernel (Euclidean matrix + indexing) is decided under C16.',
 'C19': 'The GSOM network is a HashMap<Coordinate, Node> grown/compacted with rayon and float geometry; Rosomaxa needs an Environment with thread pools; no kernel of the invariant is loop- and container-free.',
}
PENDING = 'check designed (DESIGN.md section 3) but not built/calibrated yet in this session; not claimed until it runs reliably on the unchanged tree'

CHECKS = {}

def check(pid, text, note, technique, design_ref):
    CHECKS[pid] = {
        'property_id': pid,
        'quick_cmd': f'VERIF_TIER=quick ./check {pid}',
        'thorough_cmd': f'VERIF_TIER=thorough ./check {pid}',
        'evidence_file': f'/verif/evidence/{pid}.json',
        'replay_cmd_template': './check --replay {path}',
        'engine': 'kani+mirsmt',
        'level_claimed': {'category': 'model_checking', 'text': text, 'design_ref': design_ref},
        'level_note': note,
        'technique': technique,
    }

exec(open('/verif/tools/manifest_checks.py').read())

ALL = ['C%02d' % i for i in range(1, 21)]
hooks = subprocess.run(['git', '-C', '/repo', 'log', '--format=%H %s'], capture_output=True, text=True).stdout.splitlines()
hook_commits = [l.split()[0] for l in hooks if ' hook:' in l or l.split(' ', 1)[1].startswith('hook:')]
man = {
 'version': 1,
 'setup_cmd': './setup.sh',
 'hooks': {
   'guard': 'cfg(kani) for proof modules, container swap and support code; cfg(reinterpretcat_vrp_verif) for six accessors used only by the native replay binary (schedule caches, load caches, one step of the variation criterion, the collection flavour of the insertion evaluator, the insertion step and its finalisation)',
   'enable': 'cargo kani sets --cfg kani; /verif/lib/mir_replay.py builds /verif/replay with RUSTFLAGS=--cfg reinterpretcat_vrp_verif; no other build sees the hooks',
   'baseline_off_cmd': 'cd /repo && cargo nextest run --workspace --no-fail-fast --test-threads 8 --offline || cargo test --workspace --no-fail-fast --offline',
   'source_commits': hook_commits,
   'add_only': True,
 },
 'engines': [
   {'name': 'kani', 'path': '/verif/lib/kani.py + /verif/kani/**', 'serves_properties': sorted(CHECKS), 'kind_free_text': 'Kani 0.68/CBMC 6.11 bounded model checking of proof harnesses compiled inside the real crates (cfg(kani) child modules); counterexamples replayed natively with cargo kani playback'},
   {'name': 'mirsmt', 'path': '/verif/mirsmt', 'serves_properties': sorted(CHECKS), 'kind_free_text': 'own MIR->SMT-LIB symbolic executor over rustc -Zunpretty=mir of /repo, decided by z3 (cvc5 cross-check); counterexamples replayed by the native /verif/replay binary'},
 ],
 'checks': [CHECKS[k] for k in sorted(CHECKS)],
 'notes': 'Technique family: solver-based bounded checking of the real code. Exit 0 holds within bounds; exit 1 + VIOLATION only for natively reproduced counterexamples not listed in known_findings.json; exit 2 inconclusive (timeout/OOM/unsupported construct/non-reproducing counterexample).',
 'not_applicable': [{'property_id': p, 'reason': NA.get(p, PENDING)} for p in ALL if p not in CHECKS],
}
json.dump(man, open('/verif/MANIFEST.json', 'w'), indent=1)
print('checks:', sorted(CHECKS), 'n/a:', [p for p in ALL if p not in CHECKS])
