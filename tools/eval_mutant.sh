#!/bin/bash
# usage: eval_mutant.sh <PROP> <patch.diff> [tier...]   - applies a seeded change to /repo, runs the check, restores /repo
set -u
PROP=$1; PATCH=$2; shift 2
TIERS=${@:-quick}
exec 9>/tmp/mutant.lock; flock 9
cd /repo && git status --short | grep -q . && { echo "REPO NOT CLEAN"; exit 3; }
git -C /repo apply "$PATCH" || { echo "PATCH DOES NOT APPLY"; exit 3; }
for T in $TIERS; do
  cd /verif && VERIF_TIER=$T timeout 7200 ./check $PROP > /tmp/mutant_${PROP}_$$.log 2>&1; RC=$?
  echo "== $PROP $(basename $(dirname $PATCH))/$(basename $PATCH) tier=$T exit=$RC"
  grep -E "^VIOLATION|^INCONCLUSIVE|^KNOWN" /tmp/mutant_${PROP}_$$.log | cut -c1-260 | head -8
  [ $RC -eq 1 ] && break
done
git -C /repo checkout -- . ; git -C /repo status --short
