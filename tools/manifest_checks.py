check('C06',
  'Bounded model checking of the insertion decision kernels in the real code: for every value of the symbolic inputs within the stated bounds the capacity gate (has_demand_violation) agrees with the declarative capacity rule; composition over whole tours and the time-window kernels are added by the MIR->SMT obligations. Kernel-level claim: the leg-scanning loop of the evaluator is outside.',
  'Trusted: Kani/CBMC, rustc MIR, std containers (swapped for association lists under cfg(kani)); bounds: i16 loads, pivot state symbolic; see evidence.bounds',
  'Kani/CBMC bounded model checking of in-crate harnesses over kani::any() inputs; MIR->SMT (z3) for fold closures',
  'DESIGN.md section 3 C06')
check('C09',
  'Bounded model checking of the comparison kernels in the real code: InsertionCost cmp/eq/partial_cmp satisfy reflexivity, antisymmetry, transitivity and totality for every f64 bit pattern (NaN, infinities, both zeros) and equal the lexicographic order with missing trailing components = 0 on plain values; + and - are element-wise with length = max and inverse to each other up to the sign of zero on integer-valued components |v|<=2^24 (for arbitrary floats the identity is false by IEEE rounding, so it is not demanded); dominance_order is reflexive and antisymmetric. Lengths are case-split concretely (0..3 quick, up to the inline capacity 6 thorough).',
  'Trusted: Kani/CBMC, rustc MIR, tinyvec as compiled. Goals assembled in goal_reader.rs and fitness extraction from real solutions are outside; the single-layer goal comparator is decided by the MIR->SMT engine when present.',
  'Kani/CBMC bounded model checking of in-crate harnesses over kani::any() inputs',
  'DESIGN.md section 3 C09')
check('C15',
  'The thread schedule of rayon fold/reduce is turned into data: the result is the reducer applied along some binary tree with identity elements inserted anywhere. Decided by CBMC on the real reducer InsertionResult::choose_best_result (and the default ResultSelector::select_cost): for every pair of operands (Success/Failure, symbolic costs of any bit pattern, lengths case-split) the winner carries the minimal cost, a Failure never beats a Success, make_failure() is neutral on the cost; and for three leaves both tree shapes give the minimum. With the total order of C09 the pair lemma implies independence for any number of leaves. Full solver runs under parallelism and the per-leaf evaluation fold are outside.',
  'Trusted: rayon implements its documented fold/reduce contract; thread_pool_execute indexing; Arc::drop_slow stubbed to a no-op (payload leaked) in these harnesses.',
  'Kani/CBMC bounded model checking of the reducer algebra (schedule = reduction tree made symbolic)',
  'DESIGN.md section 3 C15')
check('C08',
  'Inductive-step bounded model checking of the real population code for the instantiation Greedy<Obj,Sol>/Elitism<Obj,Sol> (scalar fitness from i16, total_cmp objective): from an ARBITRARY valid state (None|Some for Greedy; any sorted state of K individuals for Elitism, sizes case-split) one add / add_all keeps the ranking sorted, the size within max_population_size, every member one of the offered individuals, and the first ranked no worse than everything present or offered; the improvement flag is exact; select() returns only members, the best first, and something whenever non-empty. Elitism runs with a NONDETERMINISTIC dedup predicate (superset of the default). Histories of any length follow by induction over the sorted invariant; the step is what the solver decides.',
  'Trusted: Kani/CBMC; the instantiation of the generics; Random answers arbitrary values within the documented contract. Rosomaxa population (GSOM, Environment) and seeded full solves are outside.',
  'Kani/CBMC bounded model checking, inductive step from symbolic pre-state',
  'DESIGN.md section 3 C08')
check('C10',
  'Bounded model checking of the time-window rule kernel that E1103, E1302, E1303 and E1304 share (check_time_windows, check_shift_time_windows in the real crate): for 1..3 (quick) / 4 (thorough) windows with symbolic bounds and symbolic parsed/unparsed flags the list is accepted exactly when the documented rule holds (every window parsed, start<=end, pairwise non-intersecting unless skipped, breaks/reloads intersect the shift), and the kernel is total (no panic) for arbitrary f64 bit patterns. Only this kernel of the property is claimed: JSON/serde, RFC3339 parsing, id/duplicate/relation/objective/routing rules are outside.',
  'Trusted: Kani/CBMC, slice::sort_by as compiled. Window bounds are i16 widened to f64. The empty list is only checked for totality (documentation silent).',
  'Kani/CBMC bounded model checking of in-crate harnesses vs. a pairwise declarative rule',
  'DESIGN.md section 3 C10')
check('C16',
  'Bounded model checking of the matrix-backed routing providers in the real code: for 2 profiles x 2x2 (quick) / 3x3 (thorough) symbolic matrices (entries any i8, negative = unreachable) given in either order, every (profile, from, to) and scale in {0.5,1,2,4}, the time-agnostic provider returns exactly the supplied entry (durations x scale, distances unscaled), identically through the profile-based and the route-based API for any travel time; negative entries stay negative; empty sets, |dist|!=|dur|, different sizes, duplicate or gapped profile indices and timestamped matrices in the agnostic provider are rejected at construction; SimpleTransportCost likewise. Time-aware interpolation and the Euclidean matrix are decided by the MIR->SMT engine when present.',
  'Trusted: Kani/CBMC; stubs: f64::sqrt := exact table on the lengths used, Arc::drop_slow := no-op, TimeAwareMatrixTransportCost::new := panic (shown unreachable). Pragmatic create_transport_costs / error codes -> -1, haversine approximation, location_fallback are outside.',
  'Kani/CBMC bounded model checking of in-crate harnesses over symbolic matrices',
  'DESIGN.md section 3 C16')
check('C18',
  'Bounded model checking of the numeric kernels behind adaptive operator selection in the real code: SlotMachine::{new,update} from new(prior) for histories of length 1 (quick) / 2 (thorough) with prior and rewards ANY f64 in [0, 2^20] (zero and denormals included): all parameters finite, alpha = 1 + n/2 > 0, beta >= 10, variance >= 0, mean within the hull of {prior, rewards} widened by a stated rounding allowance; SlotMachine::sample hands the gamma/normal samplers arguments that satisfy the distribution constructors preconditions for every sampler answer (0 or any normal positive double). Further kernels (reward functions, termination math) are added by the MIR->SMT engine when present. Longer reward histories and arg-max / weighted selection (rejection sampling over generator output) are outside.',
  'Trusted: Kani/CBMC bit-precise IEEE semantics; stub f64::powi(x,2) := x*x; f64::sqrt is CBMC over-approximation (only sign/NaN-freeness is used). A subnormal gamma sample (probability < 1e-400) would overflow 1/precision - excluded by assumption and recorded as an observation.',
  'Kani/CBMC bounded model checking (bit-precise floating point) of in-crate harnesses',
  'DESIGN.md section 3 C18')
check('C01',
  'Kernel-level bounded verification of the hard-constraint gates in the real code (not of solver runs): with tours of up to 2 (quick) / 3 (thorough) jobs, closed and open, every insertion position and a fully symbolic target, (a) TransportConstraint::evaluate_activity composed with the real update_route_schedule accepts exactly the insertions whose resulting tour an independent simulation finds feasible, and a `stopped` verdict implies no later position is feasible; (b) the capacity gate composed with the real recalculate_states accepts exactly the insertions whose load profile stays within capacity (mixed static/dynamic demand); (c) TravelLimitConstraint accepts only insertions after which tour distance and duration stay within the limits (distance exact). All decided by z3 (cvc5 cross-check) over the MIR of the real functions; state-level kernels additionally by Kani bit-precisely.',
  'Trusted: rustc MIR, z3/cvc5, Kani/CBMC; exact-int float abstraction with proved side-conditions; routing uninterpreted and time-independent. The end-to-end quantifier over solves is outside.',
  'MIR->SMT symbolic execution of the real gates + Kani harnesses; counterexamples replayed natively',
  'DESIGN.md section 3 C01')
check('C03',
  'The numbers a solution reports come from update_route_schedule and get_total_cost: for tours of up to 2/3 jobs (closed/open) the complete real update_route_schedule (all three fold closures, executed from MIR) yields exactly the arrivals, departures, waiting sums, latest arrivals, total distance and total duration of an independent forward/backward simulation, and one step of the real cost fold adds fixed + per_distance*d + time_rate*T for vehicle and driver (None when totals are missing). The pragmatic writer (stop folding, rounding, tags) is outside.',
  'Trusted: as C01. Cost rates range over the stated vectors (the cost is a linear form in the rates).',
  'MIR->SMT symbolic execution vs. reference simulation (z3 + cvc5)',
  'DESIGN.md section 3 C03')
check('C05',
  'Mechanism claim: the functions that compute the cached tour state (schedules, latest arrivals, waiting, totals; load caches) are executed from MIR with ARBITRARY stale previous caches and previous schedules as symbolic inputs: every output equals the reference recomputation from the bare tour and provably mentions none of the stale values (history independence), the stale flag is raised by every mutable accessor. Solution-level aggregates and the string-keyed feature states are outside.',
  'Trusted: as C01.',
  'MIR->SMT symbolic execution with symbolic stale state (z3 + cvc5)',
  'DESIGN.md section 3 C05')
check('C20',
  'For tours of up to 2/3 jobs, every position and a symbolic target: the real DistanceObjective::estimate equals the change of the total distance, and the real CostObjective route+activity estimate equals the change of the total cost (fixed + distance + time, vehicle and driver) whenever no waiting exists before and after - decided over the MIR of estimate_leg / estimate_activity / analyze_route_leg / the ActivityCost and TransportCost default cost methods, with caches from the real update_route_schedule.',
  'Trusted: as C01. Unassigned / fleet-usage / total-value estimates are outside (their fitness needs InsertionContext).',
  'MIR->SMT symbolic execution vs. reference objective delta (z3 + cvc5)',
  'DESIGN.md section 3 C20')
