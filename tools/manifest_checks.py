check('C06',
  'Bounded model checking of the insertion decision kernels in the real code: for every value of the symbolic inputs within the stated bounds the capacity gate (has_demand_violation) agrees with the declarative capacity rule; composition over whole tours and the time-window kernels are added by the MIR->SMT obligations. Kernel-level claim: the leg-scanning loop of the evaluator is outside.',
  'Trusted: Kani/CBMC, rustc MIR, std containers (swapped for association lists under cfg(kani)); bounds: i16 loads, pivot state symbolic; see evidence.bounds',
  'Kani/CBMC bounded model checking of in-crate harnesses over kani::any() inputs; MIR->SMT (z3) for fold closures',
  'DESIGN.md section 3 C06')
