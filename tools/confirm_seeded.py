#!/usr/bin/env python3
"""Independent confirmation of seeded changes in a scratch worktree: demo passes without the change, fails with it, the
full existing suite passes with the change. Writes /verif/seeded/<id>/{patch.diff,demo.diff,README.md,meta.json}.
usage: [SEED_SRC=/tmp/mut2 SEED_IDS=A:C,B:D] confirm_seeded.py <PROP> <A|B> [...]"""
import json, os, re, shutil, subprocess, sys, time

WT = '/tmp/confirm/wt'
TARGET = '/tmp/confirm/target'
ENV = dict(os.environ, CARGO_TARGET_DIR=TARGET, CARGO_NET_OFFLINE='true')


def sh(cmd, cwd=WT, timeout=3600):
    p = subprocess.run(cmd, shell=True, cwd=cwd, env=ENV, capture_output=True, text=True, timeout=timeout)
    return p.returncode, p.stdout + p.stderr


def reset():
    sh('git checkout -- . && git clean -fdq -e target')


def demo_cmds(demo_diff):
    cmds = []
    for m in re.finditer(r'^\+\+\+ b/(\S+)$', open(demo_diff).read(), re.M):
        path = m.group(1)
        mi = re.match(r'^([\w-]+)/tests/([\w]+)\.rs$', path)
        mu = re.match(r'^([\w-]+)/tests/unit/.*/([\w]+)\.rs$', path)
        if mi:
            cmds.append(f'cargo test -p {mi.group(1)} --offline --test {mi.group(2)}')
        elif mu:
            cmds.append(f'cargo test -p {mu.group(1)} --offline --lib {mu.group(2)}')
        else:
            mg = re.match(r'^([\w-]+)/tests/.*/([\w]+)\.rs$', path)
            if mg and mg.group(2) != 'mod':
                # a module of the in-crate test tree (tests/features/..): filter by the module name
                cmds.append(f'cargo test -p {mg.group(1)} --offline {mg.group(2)}')
    return cmds


def summary(out):
    lines = [l for l in out.splitlines() if l.startswith('test result:') or 'tests run:' in l]
    return lines[-3:]


def main():
    os.makedirs('/tmp/confirm', exist_ok=True)
    if not os.path.exists(WT):
        subprocess.run(['git', '-C', '/repo', 'worktree', 'add', '--detach', WT, 'HEAD'], check=True)
    else:
        sh('git checkout -q --detach $(git -C /repo rev-parse HEAD)')
    args = sys.argv[1:]
    for prop, which in zip(args[0::2], args[1::2]):
        src = f"{os.environ.get('SEED_SRC', '/tmp/mut')}/{prop}/OUT/{which}"
        idmap = dict(x.split(':') for x in os.environ.get('SEED_IDS', '').split(',') if x)
        sid = f'{prop}-{idmap.get(which, which)}'
        dst = f'/verif/seeded/{sid}'
        os.makedirs(dst, exist_ok=True)
        for f in ('patch.diff', 'demo.diff', 'README.md'):
            if os.path.exists(os.path.join(src, f)):
                shutil.copyfile(os.path.join(src, f), os.path.join(dst, f))
        meta = {'id': sid, 'property': prop, 'confirmed_at_repo_commit': subprocess.run(['git', '-C', '/repo', 'rev-parse', '--short', 'HEAD'], capture_output=True, text=True).stdout.strip(), 'ran': []}
        reset()
        rc, out = sh(f'git apply {dst}/demo.diff')
        cmds = demo_cmds(f'{dst}/demo.diff')
        meta['demo_commands'] = cmds
        ok_without = True
        for c in cmds:
            rc, out = sh(c)
            meta['ran'].append({'cmd': c, 'with_change': False, 'rc': rc, 'summary': summary(out)})
            ok_without &= rc == 0
        rc, out = sh(f'git apply {dst}/patch.diff')
        meta['patch_applies'] = rc == 0
        fails_with = False
        for c in cmds:
            rc, out = sh(c)
            meta['ran'].append({'cmd': c, 'with_change': True, 'rc': rc, 'summary': summary(out)})
            fails_with |= rc != 0
        reset()
        sh(f'git apply {dst}/patch.diff')
        suite = 'cargo nextest run --workspace --no-fail-fast --tool-config-file pb:/w/lib/nextest.toml --profile pb --offline --test-threads 8'
        rc, out = sh(suite, timeout=5400)
        if rc != 0:   # known flaky solver-outcome tests: one retry
            rc2, out2 = sh(suite, timeout=5400)
            meta['ran'].append({'cmd': suite + ' (first run)', 'with_change': True, 'rc': rc, 'summary': summary(out)})
            rc, out = rc2, out2
        meta['ran'].append({'cmd': suite, 'with_change': True, 'rc': rc, 'summary': summary(out)})
        reset()
        meta['confirmed'] = {'demo_passes_without_change': ok_without, 'demo_fails_with_change': fails_with, 'suite_passes_with_change': rc == 0}
        readme = open(os.path.join(dst, 'README.md')).read() if os.path.exists(os.path.join(dst, 'README.md')) else ''
        m = re.search(r'(?is)trigger[^\n]*\n(.{0,700})', readme)
        meta['needs_to_manifest'] = (m.group(1).strip() if m else '')[:700]
        json.dump(meta, open(os.path.join(dst, 'meta.json'), 'w'), indent=1)
        print(sid, meta['confirmed'], flush=True)


if __name__ == '__main__':
    main()
