// replay for property C08, harness population::greedy::verif_kani_proofs::c08_greedy_add_all_step (crate rosomaxa, proof module greedy)
// failed: assertion failed: le(best.f, batch[idx].f) @ greedy_proofs.rs:73
// run: /verif/check --replay /verif/replays/C08/c08_greedy_add_all_step.rs
/// Test generated for harness `population::greedy::verif_kani_proofs::c08_greedy_add_all_step` 
///
/// Check for `assertion`: "assertion failed: le(best.f, batch[idx].f)"

#[test]
fn kani_concrete_playback_c08_greedy_add_all_step_667929383616006985() {
    let concrete_vals: Vec<Vec<u8>> = vec![
        // 1
        vec![1],
        // 256
        vec![0, 1],
        // 3ul
        vec![3, 0, 0, 0, 0, 0, 0, 0],
        // 1
        vec![1, 0],
        // 0
        vec![0, 0],
        // -1
        vec![255, 255],
    ];
    kani::concrete_playback_run(concrete_vals, c08_greedy_add_all_step);
}

/// Test generated for harness `population::greedy::verif_kani_proofs::c08_greedy_add_all_step` 
///
/// Check for `cover`: "improved-by-batch"

#[test]
fn kani_concrete_playback_c08_greedy_add_all_step_8223237342001172630() {
    let concrete_vals: Vec<Vec<u8>> = vec![
        // 1
        vec![1],
        // 1
        vec![1, 0],
        // 3ul
        vec![3, 0, 0, 0, 0, 0, 0, 0],
        // 384
        vec![128, 1],
        // -1
        vec![255, 255],
        // 1
        vec![1, 0],
    ];
    kani::concrete_playback_run(concrete_vals, c08_greedy_add_all_step);
}

/// Test generated for harness `population::greedy::verif_kani_proofs::c08_greedy_add_all_step` 
///
/// Check for `cover`: "batch-not-better"

#[test]
fn kani_concrete_playback_c08_greedy_add_all_step_3883191128126479047() {
    let concrete_vals: Vec<Vec<u8>> = vec![
        // 1
        vec![1],
        // -1007
        vec![17, 252],
        // 3ul
        vec![3, 0, 0, 0, 0, 0, 0, 0],
        // 384
        vec![128, 1],
        // -773
        vec![251, 252],
        // 1
        vec![1, 0],
    ];
    kani::concrete_playback_run(concrete_vals, c08_greedy_add_all_step);
}
