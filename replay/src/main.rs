//! Native replay of solver counterexamples from the MIR->SMT engine: builds the scenario described by a JSON case through
//! the PUBLIC API of the real crates, runs the real functions and prints what was observed. The property itself is
//! re-evaluated on these observations by /verif/lib (a counterexample that does not reproduce is an encoder defect).
use serde_json::{json, Value};
use std::collections::HashMap;
use std::sync::Arc;
use vrp_core::construction::enablers::{update_route_schedule, TotalDistanceTourState, TotalDurationTourState};
use vrp_core::construction::features::*;
use vrp_core::construction::heuristics::*;
use vrp_core::models::common::*;
use vrp_core::models::problem::*;
use vrp_core::models::solution::{Activity, Place as APlace, Registry};
use vrp_core::models::*;
use vrp_core::prelude::Float;
use vrp_core::rosomaxa::utils::DefaultRandom;

struct Matrix {
    dur: HashMap<(usize, usize), Float>,
    dist: HashMap<(usize, usize), Float>,
    dur_default: Float,
    dist_default: Float,
}

impl TransportCost for Matrix {
    fn duration_approx(&self, _: &Profile, from: Location, to: Location) -> Float {
        *self.dur.get(&(from, to)).unwrap_or(&self.dur_default)
    }
    fn distance_approx(&self, _: &Profile, from: Location, to: Location) -> Float {
        *self.dist.get(&(from, to)).unwrap_or(&self.dist_default)
    }
    fn duration(&self, _: &vrp_core::models::solution::Route, from: Location, to: Location, _: TravelTime) -> Float {
        *self.dur.get(&(from, to)).unwrap_or(&self.dur_default)
    }
    fn distance(&self, _: &vrp_core::models::solution::Route, from: Location, to: Location, _: TravelTime) -> Float {
        *self.dist.get(&(from, to)).unwrap_or(&self.dist_default)
    }
    fn size(&self) -> usize {
        0
    }
}

fn num(v: &Value) -> Float {
    if v.is_null() {
        Float::MAX
    } else {
        v.as_f64().expect("number expected")
    }
}

fn entries(v: &Value) -> HashMap<(usize, usize), Float> {
    v.as_array()
        .map(|a| {
            a.iter()
                .map(|e| ((e[0].as_u64().unwrap() as usize, e[1].as_u64().unwrap() as usize), e[2].as_f64().unwrap()))
                .collect()
        })
        .unwrap_or_default()
}

fn costs(v: &Value) -> Costs {
    let g = |k: &str| v.get(k).and_then(|x| x.as_f64()).unwrap_or(0.);
    Costs {
        fixed: g("fixed"),
        per_distance: g("per_distance"),
        per_driving_time: g("per_driving_time"),
        per_waiting_time: g("per_waiting_time"),
        per_service_time: g("per_service_time"),
    }
}

fn demand(v: &Value) -> Option<Demand<SingleDimLoad>> {
    let d = v.get("demand")?;
    if d.is_null() {
        return None;
    }
    let g = |k: &str| SingleDimLoad::new(d.get(k).and_then(|x| x.as_i64()).unwrap_or(0) as i32);
    Some(Demand { pickup: (g("sp"), g("dp")), delivery: (g("sd"), g("dd")) })
}

fn job_activity(v: &Value) -> Activity {
    let mut dimens = Dimensions::default();
    if let Some(d) = demand(v) {
        dimens.set_job_demand(d);
    }
    if v.get("reload").and_then(|r| r.as_bool()).unwrap_or(false) {
        dimens.set_job_id("reload".to_string());
    }
    let single = Arc::new(Single { places: vec![], dimens });
    Activity {
        place: APlace {
            idx: 0,
            location: v["loc"].as_u64().unwrap() as usize,
            duration: num(&v["dur"]),
            time: TimeWindow::new(num(&v["tws"]), num(&v["twe"])),
        },
        schedule: Schedule::new(0., 0.),
        job: Some(single),
        commute: None,
    }
}

fn observe(rc: &RouteContext) -> Value {
    let sched: Vec<Value> =
        rc.route().tour.all_activities().map(|a| json!([a.schedule.arrival, a.schedule.departure])).collect();
    let (latest_arrival, waiting) = vrp_core::construction::enablers::verif_schedule_caches(rc);
    let loads: Vec<Value> = vrp_core::construction::features::verif_capacity_caches::<SingleDimLoad>(rc)
        .into_iter()
        .map(|(c, p, f)| json!([c.map(|v| v.value), p.map(|v| v.value), f.map(|v| v.value)]))
        .collect();
    json!({
        "schedule": sched,
        "total_distance": rc.state().get_total_distance().copied(),
        "total_duration": rc.state().get_total_duration().copied(),
        "is_stale": rc.is_stale(),
        "latest_arrival": latest_arrival,
        "waiting": waiting,
        "loads": loads,
    })
}

fn violation(v: Option<ConstraintViolation>) -> Value {
    match v {
        None => Value::Null,
        Some(v) => json!({"code": v.code.0, "stopped": v.stopped}),
    }
}

struct TagKey;

/// An objective whose fitness is looked up by the tag stored in the solution state (exact f64 bit patterns).
struct TableObjective {
    values: Vec<Float>,
}

impl FeatureObjective for TableObjective {
    fn fitness(&self, solution: &InsertionContext) -> Float {
        let tag = *solution.solution.state.get_value::<TagKey, usize>().expect("tagged solution");
        self.values[tag]
    }

    fn estimate(&self, _: &MoveContext<'_>) -> Float {
        0.
    }
}

fn bits(v: &Value) -> Float {
    Float::from_bits(v.as_str().unwrap().parse::<u64>().unwrap())
}

/// Goal comparison replay: `fitness[layer][solution]` as decimal strings of the IEEE bit patterns.
fn goal_order(case: &Value) {
    use vrp_core::models::{Extras, GoalBuilder, Problem};
    let layers = case["fitness"].as_array().unwrap();
    let mut builder = GoalBuilder::default();
    for layer in layers {
        let values = layer.as_array().unwrap().iter().map(bits).collect();
        builder = builder.add_single(Arc::new(TableObjective { values }));
    }
    let goal = builder.build().unwrap();

    let vehicle = Vehicle {
        profile: Profile::default(),
        costs: costs(&Value::Null),
        dimens: Default::default(),
        details: vec![VehicleDetail {
            start: Some(VehiclePlace { location: 0, time: TimeInterval { earliest: Some(0.), latest: None } }),
            end: None,
        }],
    };
    let driver = Driver { costs: costs(&Value::Null), dimens: Default::default(), details: vec![] };
    let fleet = Arc::new(Fleet::new(vec![Arc::new(driver)], vec![Arc::new(vehicle)], |_| |_| 0));
    let transport: Arc<dyn TransportCost> =
        Arc::new(Matrix { dur: HashMap::new(), dist: HashMap::new(), dur_default: 0., dist_default: 0. });
    let activity: Arc<dyn ActivityCost> = Arc::new(SimpleActivityCost::default());
    let feature = TransportFeatureBuilder::new("transport")
        .set_transport_cost(transport.clone())
        .set_activity_cost(activity.clone())
        .build_minimize_cost()
        .unwrap();
    let goal_ctx = GoalContextBuilder::with_features(&[feature]).unwrap().build().unwrap();
    let logger: vrp_core::rosomaxa::utils::InfoLogger = Arc::new(|_| ());
    let jobs = vrp_core::models::problem::Jobs::new(&fleet, vec![], transport.as_ref(), &logger).unwrap();
    let problem = Arc::new(Problem {
        fleet,
        jobs: Arc::new(jobs),
        locks: vec![],
        goal: Arc::new(goal_ctx),
        activity,
        transport,
        extras: Arc::new(Extras::default()),
    });
    let environment = Arc::new(vrp_core::rosomaxa::utils::Environment::default());
    let n = layers[0].as_array().unwrap().len();
    let solutions: Vec<InsertionContext> = (0..n)
        .map(|tag| {
            let mut ctx = InsertionContext::new_empty(problem.clone(), environment.clone());
            ctx.solution.state.set_value::<TagKey, usize>(tag);
            ctx
        })
        .collect();
    let ord = |a: usize, b: usize| goal.total_order(&solutions[a], &solutions[b]) as i8;
    let mut table = vec![];
    for a in 0..n {
        let mut row = vec![];
        for b in 0..n {
            row.push(ord(a, b));
        }
        table.push(row);
    }
    println!("{}", serde_json::to_string(&json!({"order": table})).unwrap());
}

mod termination_replay {
    use std::cmp::Ordering;
    use vrp_core::rosomaxa::prelude::*;
    use vrp_core::rosomaxa::utils::Timer;

    pub struct Sol;
    impl HeuristicSolution for Sol {
        fn fitness(&self) -> impl Iterator<Item = Float> {
            std::iter::empty()
        }
        fn deep_copy(&self) -> Self {
            Sol
        }
    }
    pub struct Obj;
    impl HeuristicObjective for Obj {
        type Solution = Sol;
        fn total_order(&self, _: &Sol, _: &Sol) -> Ordering {
            Ordering::Equal
        }
    }
    pub struct Ctx {
        pub stats: HeuristicStatistics,
        pub objective: Obj,
    }
    impl HeuristicContext for Ctx {
        type Objective = Obj;
        type Solution = Sol;
        fn objective(&self) -> &Obj {
            &self.objective
        }
        fn selected(&self) -> Box<dyn Iterator<Item = &'_ Sol> + '_> {
            Box::new(std::iter::empty())
        }
        fn ranked(&self) -> Box<dyn Iterator<Item = &'_ Sol> + '_> {
            Box::new(std::iter::empty())
        }
        fn statistics(&self) -> &HeuristicStatistics {
            &self.stats
        }
        fn selection_phase(&self) -> SelectionPhase {
            SelectionPhase::Initial
        }
        fn environment(&self) -> &Environment {
            unimplemented!()
        }
        fn on_initial(&mut self, _: Sol, _: Timer) {}
        fn on_generation(&mut self, _: Vec<Sol>, _: Float, _: Timer) {}
        fn on_result(self) -> HeuristicResult<Obj, Sol> {
            unimplemented!()
        }
    }
}

/// Objective whose route-level and activity-level estimates are given per vehicle (one job).
struct PerVehicleObjective {
    route: Vec<Float>,
    activity: Vec<Float>,
    /// Optional route-level estimate per (vehicle, job) pair; overrides `route`.
    pair: Option<Vec<Vec<Float>>>,
}

impl FeatureObjective for PerVehicleObjective {
    fn fitness(&self, _: &InsertionContext) -> Float {
        0.
    }

    fn estimate(&self, move_ctx: &MoveContext<'_>) -> Float {
        let idx = |id: Option<&String>| id.unwrap()[1..].parse::<usize>().unwrap();
        match move_ctx {
            MoveContext::Route { job, route_ctx, .. } => match &self.pair {
                Some(pair) => pair[idx(route_ctx.route().actor.vehicle.dimens.get_vehicle_id())][idx(job.dimens().get_job_id())],
                None => self.route[idx(job.dimens().get_job_id())],
            },
            MoveContext::Activity { activity_ctx, .. } => {
                self.activity[idx(activity_ctx.target.job.as_ref().unwrap().dimens.get_job_id())]
            }
        }
    }
}

/// Parallel insertion evaluation of several jobs (estimates given per job) over empty routes under different thread counts.
fn fold_order(case: &Value) {
    use vrp_core::models::{Extras, FeatureBuilder, Problem};
    use vrp_core::rosomaxa::utils::ThreadPool;
    let floats = |v: &Value| v.as_array().unwrap().iter().map(|x| x.as_f64().unwrap()).collect::<Vec<_>>();
    let (route, activity) = (floats(&case["route_estimates"]), floats(&case["activity_estimates"]));
    let n_jobs = route.len();
    let pair: Option<Vec<Vec<Float>>> =
        case.get("pair_costs").filter(|v| !v.is_null()).map(|v| v.as_array().unwrap().iter().map(floats).collect());
    let n = case.get("routes").and_then(|v| v.as_u64()).unwrap_or(1) as usize;
    let vehicles = (0..n)
        .map(|idx| {
            let mut dimens = Dimensions::default();
            dimens.set_vehicle_id(format!("v{idx}"));
            Arc::new(Vehicle {
                profile: Profile::default(),
                costs: costs(&Value::Null),
                dimens,
                details: vec![VehicleDetail {
                    start: Some(VehiclePlace { location: 0, time: TimeInterval { earliest: Some(0.), latest: None } }),
                    end: None,
                }],
            })
        })
        .collect::<Vec<_>>();
    let driver = Driver { costs: costs(&Value::Null), dimens: Default::default(), details: vec![] };
    let fleet = Arc::new(Fleet::new(vec![Arc::new(driver)], vehicles, |_| |_| 0));
    let transport: Arc<dyn TransportCost> =
        Arc::new(Matrix { dur: HashMap::new(), dist: HashMap::new(), dur_default: 0., dist_default: 0. });
    let activity_cost: Arc<dyn ActivityCost> = Arc::new(SimpleActivityCost::default());
    let feature = FeatureBuilder::default()
        .with_name("table")
        .with_objective(PerVehicleObjective { route, activity, pair })
        .build()
        .unwrap();
    let goal_ctx = GoalContextBuilder::with_features(&[feature]).unwrap().build().unwrap();
    let logger: vrp_core::rosomaxa::utils::InfoLogger = Arc::new(|_| ());
    let multi_jobs: Vec<usize> = case.get("multi_jobs").and_then(|v| v.as_array()).map(|a| a.iter().map(|x| x.as_u64().unwrap() as usize).collect()).unwrap_or_default();
    let jobs: Vec<Job> = (0..n_jobs)
        .map(|idx| {
            let mk_single = || {
                let mut dimens = Dimensions::default();
                dimens.set_job_id(format!("j{idx}"));
                Arc::new(Single {
                    places: vec![Place { location: Some(1), duration: 0., times: vec![TimeSpan::Window(TimeWindow::max())] }],
                    dimens,
                })
            };
            if multi_jobs.contains(&idx) {
                // a two-task job: the activity-level estimate applies to each task
                let mut dimens = Dimensions::default();
                dimens.set_job_id(format!("j{idx}"));
                Job::Multi(Multi::new_shared(vec![mk_single(), mk_single()], dimens))
            } else {
                Job::Single(mk_single())
            }
        })
        .collect();
    let jobs_index = vrp_core::models::problem::Jobs::new(&fleet, jobs.clone(), transport.as_ref(), &logger).unwrap();
    let problem = Arc::new(Problem {
        fleet: fleet.clone(),
        jobs: Arc::new(jobs_index),
        locks: vec![],
        goal: Arc::new(goal_ctx),
        activity: activity_cost,
        transport,
        extras: Arc::new(Extras::default()),
    });
    let ictx = InsertionContext::new_empty(problem, Arc::new(vrp_core::rosomaxa::utils::Environment::default()));
    let routes: Vec<RouteContext> = fleet.actors.iter().map(|actor| RouteContext::new(actor.clone())).collect();
    let route_refs: Vec<&RouteContext> = routes.iter().collect();
    let job_refs: Vec<&Job> = jobs.iter().collect();
    let mut results = vec![];
    for threads in 1..=4 {
        for _ in 0..5 {
            let result = ThreadPool::new(threads).execute(|| {
                PositionInsertionEvaluator::default().evaluate_all(
                    &ictx,
                    &job_refs,
                    &route_refs,
                    &LegSelection::Exhaustive,
                    &BestResultSelector::default(),
                )
            });
            let cost: Option<Vec<Float>> = result.as_success().map(|s| s.cost.iter().collect());
            results.push(json!({"threads": threads, "cost": cost}));
        }
    }
    println!("{}", serde_json::to_string(&json!({"results": results})).unwrap());
}

/// Reducer replay: pair `left`/`right`, or three `leaves` combined along the given tree `shape`.
fn reducer(case: &Value) {
    let vehicle = Vehicle {
        profile: Profile::default(),
        costs: costs(&Value::Null),
        dimens: Default::default(),
        details: vec![VehicleDetail {
            start: Some(VehiclePlace { location: 0, time: TimeInterval { earliest: Some(0.), latest: None } }),
            end: None,
        }],
    };
    let driver = Driver { costs: costs(&Value::Null), dimens: Default::default(), details: vec![] };
    let fleet = Fleet::new(vec![Arc::new(driver)], vec![Arc::new(vehicle)], |_| |_| 0);
    let rc = RouteContext::new(fleet.actors[0].clone());
    let mk = |v: &Value| {
        let data: Vec<Float> = v.as_array().unwrap().iter().map(bits).collect();
        let job = Job::Single(Arc::new(Single { places: vec![], dimens: Default::default() }));
        InsertionResult::make_success(InsertionCost::new(&data), job, vec![], &rc)
    };
    let result = if let Some(leaves) = case.get("leaves") {
        let (a, b, c) = (mk(&leaves[0]), mk(&leaves[1]), mk(&leaves[2]));
        if case["shape"] == "left" {
            InsertionResult::choose_best_result(InsertionResult::choose_best_result(a, b), c)
        } else {
            InsertionResult::choose_best_result(a, InsertionResult::choose_best_result(b, c))
        }
    } else {
        InsertionResult::choose_best_result(mk(&case["left"]), mk(&case["right"]))
    };
    let cost: Option<Vec<String>> = result.as_success().map(|s| s.cost.iter().map(|v| v.to_bits().to_string()).collect());
    println!("{}", serde_json::to_string(&json!({"winner": cost})).unwrap());
}

fn max_generation(case: &Value) {
    use termination_replay::*;
    use vrp_core::rosomaxa::prelude::*;
    use vrp_core::rosomaxa::termination::{MaxGeneration, Termination};
    let mut ctx = Ctx { stats: HeuristicStatistics::default(), objective: Obj };
    ctx.stats.generation = case["generation"].as_u64().unwrap() as usize;
    let termination = MaxGeneration::<Ctx, Obj, Sol>::new(case["limit"].as_u64().unwrap() as usize);
    let estimate = termination.estimate(&ctx);
    let out = json!({
        "estimate": if estimate.is_nan() { Value::String("NaN".into()) } else { json!(estimate) },
        "is_termination": termination.is_termination(&mut ctx),
    });
    println!("{}", serde_json::to_string(&out).unwrap());
}

/// Time-dependent routing replay through the public constructor.
fn time_aware(case: &Value) {
    let floats = |v: &Value| v.as_array().unwrap().iter().map(|x| x.as_f64().unwrap()).collect::<Vec<_>>();
    let matrices = case["matrices"]
        .as_array()
        .unwrap()
        .iter()
        .map(|m| MatrixData::new(0, Some(m["timestamp"].as_f64().unwrap()), floats(&m["durations"]), floats(&m["distances"])))
        .collect::<Vec<_>>();
    let provider = create_matrix_transport_cost(matrices).unwrap();
    let vehicle = Vehicle {
        profile: Profile::default(),
        costs: costs(&Value::Null),
        dimens: Default::default(),
        details: vec![VehicleDetail {
            start: Some(VehiclePlace { location: 0, time: TimeInterval { earliest: Some(0.), latest: None } }),
            end: None,
        }],
    };
    let driver = Driver { costs: costs(&Value::Null), dimens: Default::default(), details: vec![] };
    let fleet = Fleet::new(vec![Arc::new(driver)], vec![Arc::new(vehicle)], |_| |_| 0);
    let rc = RouteContext::new(fleet.actors[0].clone());
    let (from, to) = (case["from"].as_u64().unwrap() as usize, case["to"].as_u64().unwrap() as usize);
    let q = case["query"].as_f64().unwrap();
    let out = json!({
        "distance": provider.distance(rc.route(), from, to, TravelTime::Departure(q)),
        "duration": provider.duration(rc.route(), from, to, TravelTime::Departure(q)),
    });
    println!("{}", serde_json::to_string(&out).unwrap());
}

/// Pragmatic solution writer replay: the problem is read by the real pragmatic reader from generated JSON, the tour is
/// built in the given visiting order, scheduled by the real `update_route_schedule` and written by `write_pragmatic`.
fn writer_tour(case: &Value) {
    use std::io::BufWriter;
    use vrp_core::models::Solution;
    use vrp_pragmatic::format::problem::PragmaticProblem;
    use vrp_pragmatic::format::solution::{write_pragmatic, PragmaticOutputType};
    let problem_json = case["problem"].to_string();
    // time-dependent routing: several matrices of one profile, each with its timestamp
    let matrices: Vec<String> = match case["matrices"].as_array() {
        Some(ms) => ms.iter().map(|m| m.to_string()).collect(),
        None => vec![case["matrix"].to_string()],
    };
    let problem = Arc::new((problem_json, matrices).read_pragmatic().unwrap_or_else(|e| setup_failed("cannot read problem", e)));
    let actor = problem.fleet.actors[0].clone();
    let mut rc = RouteContext::new(actor);
    for id in case["order"].as_array().unwrap() {
        use vrp_pragmatic::format::JobTypeDimension;
        let id = id.as_str().unwrap();
        // `job#n` = the n-th task of a multi job
        let (id, sub) = match id.split_once('#') {
            Some((id, sub)) => (id, Some(sub.parse::<usize>().unwrap())),
            None => (id, None),
        };
        // a vehicle break is the conditional job of type "break"; customer jobs are found by id
        let job = problem
            .jobs
            .all()
            .iter()
            .find(|j| {
                if id == "break" || id == "reload" {
                    j.dimens().get_job_type().is_some_and(|t| t == id)
                } else {
                    j.dimens().get_job_id().is_some_and(|jid| jid == id)
                }
            })
            .unwrap_or_else(|| setup_failed("job of the case not found in the problem", id))
            .clone();
        let single = match (&job, sub) {
            (Job::Multi(multi), Some(sub)) => multi.jobs[sub].clone(),
            _ => job.to_single().clone(),
        };
        let place_idx = case.get("place_index").and_then(|m| m.get(id)).and_then(|v| v.as_u64()).unwrap_or(0) as usize;
        let place = &single.places[place_idx];
        let time = match &place.times[0] {
            TimeSpan::Window(tw) => tw.clone(),
            _ => TimeWindow::max(),
        };
        rc.route_mut().tour.insert_last(Activity {
            place: APlace { idx: place_idx, location: place.location.unwrap(), duration: place.duration, time },
            schedule: Schedule::new(0., 0.),
            job: Some(single),
            commute: None,
        });
    }
    update_route_schedule(&mut rc, problem.activity.as_ref(), problem.transport.as_ref());
    let solution = Solution {
        cost: Default::default(),
        registry: Registry::new(&problem.fleet, Arc::new(DefaultRandom::default())),
        routes: vec![rc.route().deep_copy()],
        unassigned: vec![],
        telemetry: None,
    };
    let mut buffer = BufWriter::new(Vec::new());
    write_pragmatic(problem.as_ref(), &solution, PragmaticOutputType::OnlyPragmatic, &mut buffer).unwrap();
    let text = String::from_utf8(buffer.into_inner().unwrap()).unwrap();
    let written: Value = serde_json::from_str(&text).unwrap();
    println!("{}", serde_json::to_string(&json!({"solution": written})).unwrap());
}

/// Validation replay: the problem document is read by the real pragmatic reader; the reported error codes are printed.
fn job_rules(case: &Value) {
    use vrp_pragmatic::format::problem::PragmaticProblem;
    let problem_json = case["problem"].to_string();
    let matrix_json = case["matrix"].to_string();
    let codes: Vec<String> = match (problem_json, vec![matrix_json]).read_pragmatic() {
        Ok(_) => vec![],
        Err(errors) => errors.errors.iter().map(|e| e.code.clone()).collect(),
    };
    println!("{}", serde_json::to_string(&json!({"codes": codes})).unwrap());
}

/// Solution checker replay: problem, matrix and solution documents are parsed by the real (de)serialisers, the real
/// `CheckerContext::check` runs all rule groups; the error messages are printed.
fn checker(case: &Value) {
    use std::io::BufReader;
    use vrp_pragmatic::checker::CheckerContext;
    use vrp_pragmatic::format::problem::{deserialize_matrix, deserialize_problem, PragmaticProblem};
    use vrp_pragmatic::format::solution::deserialize_solution;
    let problem = deserialize_problem(BufReader::new(case["problem"].to_string().as_bytes())).unwrap_or_else(|e| setup_failed("problem", e));
    let matrix = deserialize_matrix(BufReader::new(case["matrix"].to_string().as_bytes())).unwrap_or_else(|e| setup_failed("matrix", e));
    let solution = deserialize_solution(BufReader::new(case["solution"].to_string().as_bytes())).unwrap_or_else(|e| setup_failed("solution", e));
    let core = Arc::new((problem.clone(), vec![matrix.clone()]).read_pragmatic().unwrap_or_else(|e| setup_failed("cannot read problem", e)));
    let errors: Vec<String> = match CheckerContext::new(core, problem, Some(vec![matrix]), solution).and_then(|ctx| ctx.check()) {
        Ok(()) => vec![],
        Err(errors) => errors.iter().map(|e| e.to_string()).collect(),
    };
    println!("{}", serde_json::to_string(&json!({"errors": errors})).unwrap());
}

/// A failure to set the scenario up (documents rejected by the reader, ..) is not a behaviour of the code under test:
/// exit code 3, distinguished from a panic (101) by the caller.
fn setup_failed(what: &str, err: impl std::fmt::Display) -> ! {
    eprintln!("REPLAY-SETUP-FAILED {what}: {err}");
    std::process::exit(3)
}

/// Routing documents through the real reader: error codes if rejected, otherwise every (from, to) entry of the provider.
fn matrix_read(case: &Value) {
    use vrp_pragmatic::format::problem::PragmaticProblem;
    let size = case["size"].as_u64().unwrap() as usize;
    match (case["problem"].to_string(), vec![case["matrix"].to_string()]).read_pragmatic() {
        Err(errors) => {
            let codes: Vec<String> = errors.errors.iter().map(|e| e.code.clone()).collect();
            println!("{}", serde_json::to_string(&json!({"rejected": codes})).unwrap());
        }
        Ok(problem) => {
            let profile = Profile::default();
            let mut dur = vec![];
            let mut dist = vec![];
            for from in 0..size {
                for to in 0..size {
                    dur.push(problem.transport.duration_approx(&profile, from, to));
                    dist.push(problem.transport.distance_approx(&profile, from, to));
                }
            }
            println!("{}", serde_json::to_string(&json!({"durations": dur, "distances": dist})).unwrap());
        }
    }
}

/// One step of the variation criterion (sample window) on a real heuristic context: the window state is preloaded, the
/// generation counter is advanced by real `on_generation` calls, the step goes through the replay accessor.
fn min_variation(case: &Value) {
    use rosomaxa::example::{VectorContext, VectorObjective};
    use rosomaxa::population::Greedy;
    use rosomaxa::prelude::{Environment, HeuristicContext, Stateful, TelemetryMode};
    use rosomaxa::termination::MinVariation;
    use rosomaxa::utils::Timer;
    let rows = |v: &Value| -> Vec<Vec<Float>> {
        v.as_array().unwrap().iter().map(|r| r.as_array().unwrap().iter().map(|x| x.as_f64().unwrap()).collect()).collect()
    };
    let sample = case["sample"].as_u64().unwrap() as usize;
    let generation = case["generation"].as_u64().unwrap() as usize;
    let objective = Arc::new(VectorObjective::new(Arc::new(|data: &[Float]| data.iter().sum()), Arc::new(|data: &[Float]| data.to_vec())));
    let mut ctx = VectorContext::new(
        objective.clone(),
        Box::new(Greedy::new(objective, 1, None)),
        TelemetryMode::None,
        Arc::new(Environment::default()),
    );
    // the counter is advanced by the real bookkeeping until it shows the generation of the case
    for _ in 0..(generation + 2) {
        if ctx.statistics().generation == generation {
            break;
        }
        ctx.on_generation(vec![], 0.1, Timer::start());
    }
    if ctx.statistics().generation != generation {
        setup_failed("generation counter", format!("{} after {generation} on_generation calls", ctx.statistics().generation));
    }
    ctx.set_state(0, rows(&case["window"]));
    let criterion = MinVariation::<VectorContext, _, _, _>::new_with_sample(sample, case["threshold"].as_f64().unwrap(), true, 0);
    let fitness: Vec<Float> = case["fitness"].as_array().unwrap().iter().map(|x| x.as_f64().unwrap()).collect();
    let fired = criterion.verif_update_and_check(&mut ctx, fitness);
    println!("{}", serde_json::to_string(&json!({"fired": fired})).unwrap());
}

/// Initial solution reader: the written solution document of the case is read back against the problem.
fn init_read(case: &Value) {
    use std::io::BufReader;
    use vrp_pragmatic::format::problem::PragmaticProblem;
    use vrp_pragmatic::format::solution::read_init_solution;
    let problem = Arc::new(
        (case["problem"].to_string(), vec![case["matrix"].to_string()])
            .read_pragmatic()
            .unwrap_or_else(|e| setup_failed("cannot read problem", e)),
    );
    let text = case["solution"].to_string();
    let out = match read_init_solution(BufReader::new(text.as_bytes()), problem, Arc::new(DefaultRandom::default())) {
        Err(err) => json!({"error": err.to_string()}),
        Ok(solution) => json!({"routes": solution.routes.iter().map(|r| r.tour.all_activities().filter(|a| a.job.is_some())
            .map(|a| json!({"place_idx": a.place.idx, "duration": a.place.duration, "location": a.place.location})).collect::<Vec<_>>()).collect::<Vec<_>>(),
            "unassigned": solution.unassigned.len()}),
    };
    println!("{}", serde_json::to_string(&out).unwrap());
}

/// Vehicle registry: a fleet with the given group sizes, the given actors taken into use, then one operation.
fn registry(case: &Value) {
    use vrp_core::construction::heuristics::RegistryContext;
    let _ = std::marker::PhantomData::<RegistryContext>;
    let groups: Vec<usize> = case["groups"].as_array().unwrap().iter().map(|g| g.as_u64().unwrap() as usize).collect();
    let mut vehicles = vec![];
    for (g, size) in groups.iter().enumerate() {
        for i in 0..*size {
            let mut dimens = Dimensions::default();
            dimens.set_vehicle_id(format!("v{g}_{i}"));
            vehicles.push(Arc::new(Vehicle {
                profile: Profile::default(),
                costs: costs(&Value::Null),
                dimens,
                details: vec![VehicleDetail {
                    start: Some(VehiclePlace { location: 0, time: TimeInterval { earliest: Some(0.), latest: None } }),
                    end: None,
                }],
            }));
        }
    }
    let driver = Driver { costs: costs(&Value::Null), dimens: Default::default(), details: vec![] };
    // group key = the group number encoded in the vehicle id
    let fleet = Fleet::new(vec![Arc::new(driver)], vehicles, |_| {
        Box::new(|actor: &Actor| {
            let id = actor.vehicle.dimens.get_vehicle_id().unwrap();
            id[1..id.find('_').unwrap()].parse::<usize>().unwrap()
        })
    });
    let id_of = |a: &Arc<Actor>| a.vehicle.dimens.get_vehicle_id().unwrap().clone();
    let find = |id: &str| fleet.actors.iter().find(|a| a.vehicle.dimens.get_vehicle_id().unwrap() == id).unwrap().clone();
    let mut reg = Registry::new(&fleet, Arc::new(DefaultRandom::default()));
    for id in case["in_use"].as_array().unwrap() {
        reg.use_actor(find(id.as_str().unwrap()).as_ref());
    }
    let target = find(case["target"].as_str().unwrap());
    if case["level"] == "context" {
        // the same bookkeeping as the heuristics see it: RegistryContext on top of the registry
        use vrp_core::construction::features::create_minimize_tours_feature;
        let goal = GoalContextBuilder::with_features(&[create_minimize_tours_feature("f").unwrap()]).unwrap().build().unwrap();
        let mut rctx = RegistryContext::new(&goal, reg);
        let route_id = |rc: &RouteContext| id_of(&rc.route().actor);
        let mut results: Vec<bool> = vec![];
        let mut routes: Vec<Option<String>> = vec![];
        let mut copy_available: Option<Vec<String>> = None;
        let mut slice_routes: Option<Vec<String>> = None;
        let avail_of = |r: &RegistryContext| {
            let mut ids: Vec<String> = r.resources().available().map(|a| id_of(&a)).collect();
            ids.sort();
            ids
        };
        match case["op"].as_str().unwrap() {
            "get_route" => {
                let r = rctx.get_route(&target);
                results.push(r.is_some());
                routes.push(r.as_ref().map(route_id));
            }
            "get-twice" => {
                for _ in 0..2 {
                    let r = rctx.get_route(&target);
                    results.push(r.is_some());
                    routes.push(r.as_ref().map(route_id));
                }
            }
            "use_route" => {
                let rc = RouteContext::new(target.clone());
                results.push(rctx.use_route(&rc));
            }
            "free_route" => {
                let rc = RouteContext::new(target.clone());
                results.push(rctx.free_route(rc));
            }
            "slice" => {
                let keep: Vec<String> = case["keep"].as_array().unwrap().iter().map(|k| k.as_str().unwrap().to_string()).collect();
                let mut slice = rctx.deep_slice(|actor| keep.contains(actor.vehicle.dimens.get_vehicle_id().unwrap()));
                // which actors the slice can serve at all: ask for every actor on a further copy
                let mut probe = slice.deep_copy();
                let mut served: Vec<String> = fleet.actors.iter().filter(|a| {
                    probe.free_route(RouteContext::new((*a).clone()));
                    probe.get_route(a).is_some()
                }).map(id_of).collect();
                served.sort();
                slice_routes = Some(served);
                let r = slice.get_route(&target);
                results.push(r.is_some());
                routes.push(r.as_ref().map(route_id));
                copy_available = Some(avail_of(&slice));
            }
            "copy" => {
                let mut copy = rctx.deep_copy();
                let r = copy.get_route(&target);
                results.push(r.is_some());
                routes.push(r.as_ref().map(route_id));
                copy_available = Some(avail_of(&copy));
            }
            _ => {}
        }
        let available = avail_of(&rctx);
        let next: Vec<Vec<String>> = (0..64).map(|_| rctx.next_route().map(route_id).collect()).collect();
        println!("{}", serde_json::to_string(&json!({"results": results, "routes": routes, "available": available, "next": next,
            "copy_available": copy_available, "slice_all": slice_routes})).unwrap());
        return;
    }
    let mut results = vec![];
    let mut copy_available: Option<Vec<String>> = None;
    let mut slice_all: Option<Vec<String>> = None;
    let mut foreign_accepted: Option<Vec<String>> = None;
    match case["op"].as_str().unwrap() {
        "use" => results.push(reg.use_actor(target.as_ref())),
        "free" => results.push(reg.free_actor(&target)),
        "use-twice" => {
            results.push(reg.use_actor(target.as_ref()));
            results.push(reg.use_actor(target.as_ref()));
        }
        "slice" => {
            let keep: Vec<String> = case["keep"].as_array().unwrap().iter().map(|k| k.as_str().unwrap().to_string()).collect();
            let mut slice = reg.deep_slice(|actor| keep.contains(actor.vehicle.dimens.get_vehicle_id().unwrap()));
            let mut all: Vec<String> = slice.all().map(|a| id_of(&a)).collect();
            all.sort();
            // a slice must not know the actors that were sliced away: releasing one of them into a further slice is refused
            let mut probe = reg.deep_slice(|actor| keep.contains(actor.vehicle.dimens.get_vehicle_id().unwrap()));
            let foreign: Vec<String> = fleet.actors.iter().filter(|a| !keep.contains(&id_of(a))).filter(|a| probe.free_actor(a)).map(id_of).collect();
            foreign_accepted = Some(foreign);
            results.push(slice.use_actor(target.as_ref()));
            let mut ids: Vec<String> = slice.available().map(|a| id_of(&a)).collect();
            ids.sort();
            copy_available = Some(ids);
            slice_all = Some(all);
        }
        "copy" => {
            let mut copy = reg.deep_copy();
            results.push(copy.use_actor(target.as_ref()));
            let mut ids: Vec<String> = copy.available().map(|a| id_of(&a)).collect();
            ids.sort();
            copy_available = Some(ids);
        }
        _ => {}
    }
    let mut available: Vec<String> = reg.available().map(|a| id_of(&a)).collect();
    available.sort();
    let next: Vec<Vec<String>> = (0..64).map(|_| reg.next().map(|a| id_of(&a)).collect()).collect();
    println!("{}", serde_json::to_string(&json!({"results": results, "available": available, "next": next, "copy_available": copy_available, "slice_all": slice_all,
        "foreign_accepted": foreign_accepted})).unwrap());
}

/// One operation on a real `Tour` (C14): the tour is built through the public API from the label sequence of the case.
fn tour_step(case: &Value) {
    use vrp_core::models::solution::Tour;
    let closed = case["closed"].as_bool().unwrap();
    let vehicle = Vehicle {
        profile: Profile::default(),
        costs: costs(&Value::Null),
        dimens: Default::default(),
        details: vec![VehicleDetail {
            start: Some(VehiclePlace { location: 0, time: TimeInterval { earliest: Some(0.), latest: None } }),
            end: if closed { Some(VehiclePlace { location: 0, time: TimeInterval { earliest: None, latest: Some(1000.) } }) } else { None },
        }],
    };
    let driver = Driver { costs: costs(&Value::Null), dimens: Default::default(), details: vec![] };
    let fleet = Fleet::new(vec![Arc::new(driver)], vec![Arc::new(vehicle)], |_| |_| 0);
    let actor = fleet.actors[0].clone();
    let mk = |id: &str| {
        let mut dimens = Dimensions::default();
        dimens.set_job_id(id.to_string());
        Arc::new(Single { places: vec![], dimens })
    };
    let multi = Multi::new_shared(vec![mk("sB1"), mk("sB2")], Dimensions::default());
    let singles: HashMap<String, Arc<Single>> = vec![
        ("sA".to_string(), mk("sA")),
        ("sB1".to_string(), multi.jobs[0].clone()),
        ("sB2".to_string(), multi.jobs[1].clone()),
        ("sC".to_string(), mk("sC")),
        ("sD".to_string(), mk("sD")),
    ]
    .into_iter()
    .collect();
    let job_of = |name: &str| match name {
        "A" => Job::Single(singles["sA"].clone()),
        "M" => Job::Multi(multi.clone()),
        "C" => Job::Single(singles["sC"].clone()),
        _ => Job::Single(singles["sD"].clone()),
    };
    let job_name = |job: &Job| match job {
        Job::Multi(_) => "M".to_string(),
        Job::Single(s) => match s.dimens.get_job_id().unwrap().as_str() {
            "sA" => "A".to_string(),
            "sC" => "C".to_string(),
            _ => "D".to_string(),
        },
    };
    let mut tour = Tour::new(&actor);
    for lab in case["pre"].as_array().unwrap().iter().map(|l| l.as_str().unwrap()) {
        if lab != "start" && lab != "end" {
            tour.insert_last(Activity::new_with_job(singles[lab].clone()));
        }
    }
    let original = if case["op"] == "copy" { Some(tour.deep_copy()) } else { None };
    let mut result = Value::Null;
    let arg = &case["arg"];
    let mut subject = if case["op"] == "copy" { tour.deep_copy() } else { Tour::default() };
    let t: &mut Tour = if case["op"] == "copy" { &mut subject } else { &mut tour };
    match case["op"].as_str().unwrap() {
        "insert_at" => {
            t.insert_at(Activity::new_with_job(singles[arg[0].as_str().unwrap()].clone()), arg[1].as_u64().unwrap() as usize);
        }
        "insert_last" => {
            t.insert_last(Activity::new_with_job(singles[arg.as_str().unwrap()].clone()));
        }
        "remove" => result = json!(t.remove(&job_of(arg.as_str().unwrap()))),
        "remove_activity_at" => result = json!(job_name(&t.remove_activity_at(arg.as_u64().unwrap() as usize))),
        "copy" => {
            t.insert_at(Activity::new_with_job(singles[arg[0][0].as_str().unwrap()].clone()), arg[0][1].as_u64().unwrap() as usize);
            t.remove(&job_of(arg[1].as_str().unwrap()));
        }
        _ => {}
    }
    let observe = |t: &Tour| {
        let total = t.total();
        let label = |idx: usize, a: &Activity| match &a.job {
            Some(s) => s.dimens.get_job_id().unwrap().clone(),
            None if idx == 0 => "start".to_string(),
            None if closed && idx + 1 == total => "end".to_string(),
            None => "?".to_string(),
        };
        let labels: Vec<String> = t.all_activities().enumerate().map(|(i, a)| label(i, a)).collect();
        let legs: Vec<Value> = t.legs().map(|(acts, idx)| json!([acts.iter().enumerate().map(|(o, a)| label(idx + o, a)).collect::<Vec<_>>(), idx])).collect();
        let mut jobs: Vec<String> = t.jobs().map(&job_name).collect();
        jobs.sort();
        let per_job: serde_json::Map<String, Value> = ["A", "M", "C", "D"].iter().map(|j| {
            let job = job_of(j);
            let contains = if t.contains(&job) == t.has_job(&job) { json!(t.contains(&job)) } else { json!("contains/has_job disagree") };
            (j.to_string(), json!({"contains": contains, "index": t.index(&job), "index_last": t.index_last(&job), "activities": t.job_activities(&job).count()}))
        }).collect();
        json!({"labels": labels, "total": total, "job_activity_count": t.job_activity_count(), "job_count": t.job_count(), "has_jobs": t.has_jobs(),
               "jobs": jobs, "legs": legs, "end_idx": t.end_idx(), "per_job": per_job,
               "start_is_first": t.start().map(|a| a.job.is_none()).unwrap_or(false),
               "end_is_last": t.end().map(|a| a.job.is_none() == closed || total == 1).unwrap_or(false)})
    };
    let out = json!({"result": result, "after": observe(t), "original": original.as_ref().map(|_| observe(&tour))});
    println!("{}", serde_json::to_string(&out).unwrap());
}

/// Group feature (C05 / C01): routes with grouped jobs, refreshed or not, then the solution-level refresh and the group rule.
fn group_state(case: &Value) {
    use vrp_core::construction::features::{create_group_feature, create_minimize_tours_feature, JobGroupDimension};
    let routes_doc = case["routes"].as_array().unwrap();
    let same_vehicle = case.get("same_vehicle").and_then(|v| v.as_bool()).unwrap_or(false);
    let insertion = case.get("refresh").and_then(|v| v.as_str()) == Some("insertion");
    let vehicles: Vec<Arc<Vehicle>> = if same_vehicle {
        // ONE vehicle id with one shift per route: Fleet::new makes one actor per shift
        let mut dimens = Dimensions::default();
        dimens.set_vehicle_id("v".to_string());
        vec![Arc::new(Vehicle {
            profile: Profile::default(),
            costs: costs(&Value::Null),
            dimens,
            details: (0..routes_doc.len())
                .map(|i| VehicleDetail {
                    start: Some(VehiclePlace { location: 0, time: TimeInterval { earliest: Some(1000. * i as Float), latest: None } }),
                    end: Some(VehiclePlace { location: 0, time: TimeInterval { earliest: None, latest: Some(1000. * i as Float + 999.) } }),
                })
                .collect(),
        })]
    } else { (0..routes_doc.len())
        .map(|i| {
            let mut dimens = Dimensions::default();
            dimens.set_vehicle_id(format!("v{i}"));
            Arc::new(Vehicle {
                profile: Profile::default(),
                costs: costs(&Value::Null),
                dimens,
                details: vec![VehicleDetail {
                    start: Some(VehiclePlace { location: 0, time: TimeInterval { earliest: Some(0.), latest: None } }),
                    end: Some(VehiclePlace { location: 0, time: TimeInterval { earliest: None, latest: Some(1000.) } }),
                }],
            })
        })
        .collect() };
    let driver = Driver { costs: costs(&Value::Null), dimens: Default::default(), details: vec![] };
    let fleet = Fleet::new(vec![Arc::new(driver)], vehicles, |_| |_| 0);
    let mk_single = |group: &Value| {
        let mut dimens = Dimensions::default();
        if let Some(g) = group.as_str() {
            dimens.set_job_group(g.to_string());
        }
        Arc::new(Single { places: vec![], dimens })
    };
    let total_jobs: usize = routes_doc.iter().map(|r| r["groups"].as_array().unwrap().len()).sum::<usize>() + 1;
    let goal = GoalContextBuilder::with_features(&[
        create_group_feature("group", total_jobs, ViolationCode(7)).unwrap(),
        create_minimize_tours_feature("tours").unwrap(),
    ])
    .unwrap()
    .build()
    .unwrap();
    let mut routes = vec![];
    for (i, r) in routes_doc.iter().enumerate() {
        let mut rc = RouteContext::new(fleet.actors[i].clone());
        let groups = r["groups"].as_array().unwrap();
        let upto = if insertion && i == 0 { groups.len() - 1 } else { groups.len() };
        for g in groups.iter().take(upto) {
            rc.route_mut().tour.insert_last(Activity::new_with_job(mk_single(g)));
        }
        if insertion || !r["stale"].as_bool().unwrap() {
            // a route that was refreshed on its own and not touched since: not stale
            goal.accept_route_state(&mut rc);
        }
        routes.push(rc);
    }
    let job = Job::Single(mk_single(&case["group"]));
    let registry = Registry::new(&fleet, Arc::new(DefaultRandom::default()));
    let mut solution_ctx = SolutionContext {
        required: vec![job.clone()],
        ignored: vec![],
        unassigned: Default::default(),
        locked: Default::default(),
        routes,
        registry: RegistryContext::new(&goal, registry),
        state: Default::default(),
    };
    let stale_before: Vec<bool> = solution_ctx.routes.iter().map(|rc| rc.is_stale()).collect();
    if insertion {
        // every route was refreshed on its own; now the last job of route 0 arrives and only the insertion callback runs
        goal.accept_solution_state(&mut solution_ctx);
        // route 0 is refreshed on its own afterwards (its tag is cleared, the group state has no route-level refresh); the others keep theirs
        let _ = solution_ctx.routes[0].route_mut(); // touched: stale, so the route-level refresh really runs
        goal.accept_route_state(&mut solution_ctx.routes[0]);
        let last = mk_single(routes_doc[0]["groups"].as_array().unwrap().last().unwrap());
        solution_ctx.routes[0].route_mut().tour.insert_last(Activity::new_with_job(last.clone()));
        goal.accept_insertion(&mut solution_ctx, 0, &Job::Single(last));
    } else {
        goal.accept_solution_state(&mut solution_ctx);
    }
    let target = if insertion { solution_ctx.routes.len() - 1 } else { 0 };
    let verdict = goal.evaluate(&MoveContext::route(&solution_ctx, &solution_ctx.routes[target], &job));
    println!("{}", serde_json::to_string(&json!({"rejected": verdict.is_some(), "stale_before": stale_before})).unwrap());
}

/// An insertion context made from a solution (C14): which tours are kept and which vehicles the registry offers afterwards.
fn ctx_from_solution(case: &Value) {
    use vrp_core::models::{Extras, Problem, Solution};
    let kinds: Vec<String> = case["tours"].as_array().unwrap().iter().map(|k| k.as_str().unwrap().to_string()).collect();
    let vehicles: Vec<Arc<Vehicle>> = (0..kinds.len())
        .map(|i| {
            let mut dimens = Dimensions::default();
            dimens.set_vehicle_id(format!("v{i}"));
            Arc::new(Vehicle {
                profile: Profile::default(),
                costs: costs(&Value::Null),
                dimens,
                details: vec![VehicleDetail {
                    start: Some(VehiclePlace { location: 0, time: TimeInterval { earliest: Some(0.), latest: None } }),
                    end: Some(VehiclePlace { location: 0, time: TimeInterval { earliest: None, latest: Some(1000.) } }),
                }],
            })
        })
        .collect();
    let driver = Driver { costs: costs(&Value::Null), dimens: Default::default(), details: vec![] };
    let fleet = Arc::new(Fleet::new(vec![Arc::new(driver)], vehicles, |_| |_| 0));
    let transport: Arc<dyn TransportCost> =
        Arc::new(Matrix { dur: HashMap::new(), dist: HashMap::new(), dur_default: 0., dist_default: 0. });
    let activity: Arc<dyn ActivityCost> = Arc::new(SimpleActivityCost::default());
    let feature = TransportFeatureBuilder::new("transport")
        .set_transport_cost(transport.clone())
        .set_activity_cost(activity.clone())
        .build_minimize_cost()
        .unwrap();
    let goal_ctx = GoalContextBuilder::with_features(&[feature]).unwrap().build().unwrap();
    let logger: vrp_core::rosomaxa::utils::InfoLogger = Arc::new(|_| ());
    let jobs = vrp_core::models::problem::Jobs::new(&fleet, vec![], transport.as_ref(), &logger).unwrap();
    let problem = Arc::new(Problem {
        fleet: fleet.clone(),
        jobs: Arc::new(jobs),
        locks: vec![],
        goal: Arc::new(goal_ctx),
        activity,
        transport,
        extras: Arc::new(Extras::default()),
    });
    let environment = Arc::new(vrp_core::rosomaxa::utils::Environment::default());
    let mut registry = Registry::new(&fleet, environment.random.clone());
    let mut routes = vec![];
    for (i, kind) in kinds.iter().enumerate() {
        if kind == "none" {
            continue;
        }
        let actor = fleet.actors.iter().find(|a| a.vehicle.dimens.get_vehicle_id().unwrap() == &format!("v{i}")).unwrap().clone();
        let mut rc = RouteContext::new(actor.clone());
        if kind == "job" {
            rc.route_mut().tour.insert_last(Activity::new_with_job(Arc::new(Single { places: vec![], dimens: Default::default() })));
        }
        registry.use_actor(&actor);
        routes.push(rc.route().deep_copy());
    }
    let solution = Solution { cost: 0., registry, routes, unassigned: vec![], telemetry: None };
    let ictx = InsertionContext::new_from_solution(problem, (solution, None), environment);
    let id_of = |a: &Arc<Actor>| a.vehicle.dimens.get_vehicle_id().unwrap().clone();
    let kept: Vec<String> = ictx.solution.routes.iter().map(|rc| id_of(&rc.route().actor)).collect();
    let mut available: Vec<String> = ictx.solution.registry.resources().available().map(|a| id_of(&a)).collect();
    available.sort();
    println!("{}", serde_json::to_string(&json!({"kept": kept, "available": available})).unwrap());
}

/// Shared reload resource (C05 / C01): routes that draw on one resource, refreshed; then ONE more job goes into route 0 and
/// the rule is probed on the last route with a demand that just fits / just does not fit what is really left.
fn shared_resource(case: &Value) {
    use vrp_core::construction::features::{create_minimize_tours_feature, ReloadFeatureFactory};
    let cap = case["capacity"].as_i64().unwrap() as i32;
    let demands: Vec<Vec<i32>> = case["demands"].as_array().unwrap().iter().map(|r| r.as_array().unwrap().iter().map(|d| d.as_i64().unwrap() as i32).collect()).collect();
    let vehicles: Vec<Arc<Vehicle>> = (0..demands.len())
        .map(|i| {
            let mut dimens = Dimensions::default();
            dimens.set_vehicle_id(format!("v{i}"));
            dimens.set_vehicle_capacity(SingleDimLoad::new(1_000_000));
            Arc::new(Vehicle {
                profile: Profile::default(),
                costs: costs(&Value::Null),
                dimens,
                details: vec![VehicleDetail {
                    start: Some(VehiclePlace { location: 0, time: TimeInterval { earliest: Some(0.), latest: None } }),
                    end: Some(VehiclePlace { location: 0, time: TimeInterval { earliest: None, latest: Some(1000.) } }),
                }],
            })
        })
        .collect();
    let driver = Driver { costs: costs(&Value::Null), dimens: Default::default(), details: vec![] };
    let fleet = Fleet::new(vec![Arc::new(driver)], vehicles, |_| |_| 0);
    let feature = ReloadFeatureFactory::<SingleDimLoad>::new("reload")
        .set_capacity_code(ViolationCode(2))
        .set_resource_code(ViolationCode(9))
        .set_is_reload_single(|single| single.dimens.get_job_id().is_some_and(|id| id == "reload"))
        .set_belongs_to_route(|_, _| true)
        .set_load_schedule_threshold(|capacity: &SingleDimLoad| *capacity)
        .set_shared_resource_capacity(move |activity| {
            activity.job.as_ref().and_then(|s| s.dimens.get_job_id()).filter(|id| *id == "reload").map(|_| (SingleDimLoad::new(cap), 0))
        })
        .set_shared_demand_capacity(|single| {
            let demand: Option<&Demand<SingleDimLoad>> = single.dimens.get_job_demand();
            demand.map(|d| d.delivery.0)
        })
        .set_is_partial_solution(|_| false)
        .build_shared()
        .unwrap();
    let goal = GoalContextBuilder::with_features(&[feature, create_minimize_tours_feature("tours").unwrap()]).unwrap().build().unwrap();
    let mk_act = |reload: bool, d: i32| {
        let mut dimens = Dimensions::default();
        if reload {
            dimens.set_job_id("reload".to_string());
        } else {
            dimens.set_job_demand(Demand { pickup: (SingleDimLoad::default(), SingleDimLoad::default()), delivery: (SingleDimLoad::new(d), SingleDimLoad::default()) });
        }
        Activity::new_with_job(Arc::new(Single { places: vec![], dimens }))
    };
    let mut routes = vec![];
    for (i, ds) in demands.iter().enumerate() {
        let mut rc = RouteContext::new(fleet.actors.iter().find(|a| a.vehicle.dimens.get_vehicle_id().unwrap() == &format!("v{i}")).unwrap().clone());
        rc.route_mut().tour.insert_last(mk_act(true, 0));
        // the last job of route 0 is the one that arrives later
        let upto = if i == 0 { ds.len().saturating_sub(1) } else { ds.len() };
        for d in ds.iter().take(upto) {
            rc.route_mut().tour.insert_last(mk_act(false, *d));
        }
        goal.accept_route_state(&mut rc);
        routes.push(rc);
    }
    let registry = Registry::new(&fleet, Arc::new(DefaultRandom::default()));
    let mut sctx = SolutionContext {
        required: vec![],
        ignored: vec![],
        unassigned: Default::default(),
        locked: Default::default(),
        routes,
        registry: RegistryContext::new(&goal, registry),
        state: Default::default(),
    };
    goal.accept_solution_state(&mut sctx);
    let stale_before: Vec<bool> = sctx.routes.iter().map(|rc| rc.is_stale()).collect();
    if let Some(d) = demands[0].last() {
        let act = mk_act(false, *d);
        let job = Job::Single(act.job.clone().unwrap());
        sctx.routes[0].route_mut().tour.insert_last(act);
        goal.accept_insertion(&mut sctx, 0, &job);
    }
    let total: i32 = demands.iter().flatten().sum();
    let left = cap - total;
    let last = sctx.routes.len() - 1;
    let probe = |d: i32| {
        let rc = &sctx.routes[last];
        let target = mk_act(false, d);
        let actx = ActivityContext { index: 1, prev: rc.route().tour.get(1).unwrap(), target: &target, next: rc.route().tour.get(2) };
        goal.evaluate(&MoveContext::activity(&sctx, rc, &actx)).is_some()
    };
    println!("{}", serde_json::to_string(&json!({"left": left, "rejected_fitting": probe(left.max(0)), "rejected_exceeding": probe(left.max(0) + 1), "stale_before_insertion": stale_before})).unwrap());
}

/// Skills rule (C01): one job with the given skill lists offered to a vehicle with the given skills.
fn skills(case: &Value) {
    use std::collections::HashSet;
    use vrp_core::construction::features::{create_skills_feature, JobSkills, JobSkillsDimension, VehicleSkillsDimension};
    let list = |v: &Value| v.as_array().map(|a| a.iter().map(|x| x.as_str().unwrap().to_string()).collect::<Vec<_>>());
    let mut vdimens = Dimensions::default();
    if let Some(sk) = list(&case["vehicle"]) {
        vdimens.set_vehicle_skills(sk.into_iter().collect::<HashSet<_>>());
    }
    let vehicle = Vehicle {
        profile: Profile::default(),
        costs: costs(&Value::Null),
        dimens: vdimens,
        details: vec![VehicleDetail {
            start: Some(VehiclePlace { location: 0, time: TimeInterval { earliest: Some(0.), latest: None } }),
            end: None,
        }],
    };
    let driver = Driver { costs: costs(&Value::Null), dimens: Default::default(), details: vec![] };
    let fleet = Fleet::new(vec![Arc::new(driver)], vec![Arc::new(vehicle)], |_| |_| 0);
    let mut jdimens = Dimensions::default();
    if case["job"].is_object() {
        jdimens.set_job_skills(JobSkills::new(list(&case["job"]["all_of"]), list(&case["job"]["one_of"]), list(&case["job"]["none_of"])));
    }
    let job = Job::Single(Arc::new(Single { places: vec![], dimens: jdimens }));
    let feature = create_skills_feature("skills", ViolationCode(11)).unwrap();
    let rc = RouteContext::new(fleet.actors[0].clone());
    let goal = GoalContextBuilder::with_features(&[feature.clone(), vrp_core::construction::features::create_minimize_tours_feature("t").unwrap()]).unwrap().build().unwrap();
    let registry = Registry::new(&fleet, Arc::new(DefaultRandom::default()));
    let sctx = SolutionContext { required: vec![], ignored: vec![], unassigned: Default::default(), locked: Default::default(), routes: vec![],
        registry: RegistryContext::new(&goal, registry), state: Default::default() };
    let verdict = feature.constraint.as_ref().unwrap().evaluate(&MoveContext::route(&sctx, &rc, &job));
    println!("{}", serde_json::to_string(&json!({"rejected": verdict.is_some()})).unwrap());
}

/// Compatibility rule (C05 / C01): a route with jobs of the given classes, refreshed, then a job of a class is offered.
fn compatibility(case: &Value) {
    use vrp_core::construction::features::{create_compatibility_feature, JobCompatibilityDimension};
    let vehicle = Vehicle {
        profile: Profile::default(),
        costs: costs(&Value::Null),
        dimens: Default::default(),
        details: vec![VehicleDetail {
            start: Some(VehiclePlace { location: 0, time: TimeInterval { earliest: Some(0.), latest: None } }),
            end: None,
        }],
    };
    let driver = Driver { costs: costs(&Value::Null), dimens: Default::default(), details: vec![] };
    let fleet = Fleet::new(vec![Arc::new(driver)], vec![Arc::new(vehicle)], |_| |_| 0);
    let mk = |class: &Value| {
        let mut dimens = Dimensions::default();
        if let Some(c) = class.as_str() {
            dimens.set_job_compatibility(c.to_string());
        }
        Arc::new(Single { places: vec![], dimens })
    };
    let feature = create_compatibility_feature("compat", ViolationCode(12)).unwrap();
    let goal = GoalContextBuilder::with_features(&[feature.clone(), vrp_core::construction::features::create_minimize_tours_feature("t").unwrap()]).unwrap().build().unwrap();
    let mut rc = RouteContext::new(fleet.actors[0].clone());
    if let Some(prev) = case["previous_tag"].as_str() {
        // an outdated tag: a job of that class was in the tour, the tag was computed, the job left again
        let old = mk(&json!(prev));
        rc.route_mut().tour.insert_last(Activity::new_with_job(old.clone()));
        goal.accept_route_state(&mut rc);
        rc.route_mut().tour.remove(&Job::Single(old));
    }
    for class in case["classes"].as_array().unwrap() {
        rc.route_mut().tour.insert_last(Activity::new_with_job(mk(class)));
    }
    goal.accept_route_state(&mut rc);
    let registry = Registry::new(&fleet, Arc::new(DefaultRandom::default()));
    let sctx = SolutionContext { required: vec![], ignored: vec![], unassigned: Default::default(), locked: Default::default(), routes: vec![],
        registry: RegistryContext::new(&goal, registry), state: Default::default() };
    let job = Job::Single(mk(&case["class"]));
    let verdict = feature.constraint.as_ref().unwrap().evaluate(&MoveContext::route(&sctx, &rc, &job));
    println!("{}", serde_json::to_string(&json!({"rejected": verdict.is_some()})).unwrap());
}

/// Strict lock (C01 relation pinning): a tour that satisfies the lock, a job that is not part of it offered at one leg.
fn lock_rule(case: &Value) {
    use vrp_core::construction::features::create_locked_jobs_feature;
    use vrp_core::models::{Lock, LockDetail, LockOrder, LockPosition};
    let vehicle = Vehicle {
        profile: Profile::default(),
        costs: costs(&Value::Null),
        dimens: Default::default(),
        details: vec![VehicleDetail {
            start: Some(VehiclePlace { location: 0, time: TimeInterval { earliest: Some(0.), latest: None } }),
            end: Some(VehiclePlace { location: 0, time: TimeInterval { earliest: None, latest: Some(1000.) } }),
        }],
    };
    let driver = Driver { costs: costs(&Value::Null), dimens: Default::default(), details: vec![] };
    let fleet = Fleet::new(vec![Arc::new(driver)], vec![Arc::new(vehicle)], |_| |_| 0);
    let labels: Vec<String> = case["tour"].as_array().unwrap().iter().map(|l| l.as_str().unwrap().to_string()).collect();
    let mk = || Arc::new(Single { places: vec![], dimens: Default::default() });
    let singles: Vec<Option<Arc<Single>>> = labels.iter().map(|l| if l == "start" || l == "end" { None } else { Some(mk()) }).collect();
    let locked: Vec<Job> = labels.iter().zip(singles.iter()).filter(|(l, _)| l.starts_with('L')).map(|(_, s)| Job::Single(s.clone().unwrap())).collect();
    let position = match case["position"].as_str().unwrap() {
        "any" => LockPosition::Any,
        "departure" => LockPosition::Departure,
        "arrival" => LockPosition::Arrival,
        _ => LockPosition::Fixed,
    };
    let holds = case["condition_holds"].as_bool().unwrap();
    let lock = Lock::new(Arc::new(move |_| holds), vec![LockDetail::new(LockOrder::Strict, position, locked.clone())], false);
    // the rules are indexed per actor by the lock condition: the tour under test belongs to an actor the lock applies to
    let lock_for_rules = Lock::new(Arc::new(|_| true), vec![LockDetail::new(LockOrder::Strict, match case["position"].as_str().unwrap() {
        "any" => LockPosition::Any, "departure" => LockPosition::Departure, "arrival" => LockPosition::Arrival, _ => LockPosition::Fixed }, locked.clone())], false);
    let feature_rules = create_locked_jobs_feature("locked", &fleet, &[Arc::new(lock_for_rules)], ViolationCode(13)).unwrap();
    let feature_cond = create_locked_jobs_feature("locked", &fleet, &[Arc::new(lock)], ViolationCode(13)).unwrap();
    let goal = GoalContextBuilder::with_features(&[feature_rules.clone(), vrp_core::construction::features::create_minimize_tours_feature("t").unwrap()]).unwrap().build().unwrap();
    let mut rc = RouteContext::new(fleet.actors[0].clone());
    for s in singles.iter().flatten() {
        rc.route_mut().tour.insert_last(Activity::new_with_job(s.clone()));
    }
    let registry = Registry::new(&fleet, Arc::new(DefaultRandom::default()));
    let sctx = SolutionContext { required: vec![], ignored: vec![], unassigned: Default::default(), locked: Default::default(), routes: vec![],
        registry: RegistryContext::new(&goal, registry), state: Default::default() };
    let p = case["leg"].as_u64().unwrap() as usize;
    let target = Activity::new_with_job(mk());
    let actx = ActivityContext { index: p, prev: rc.route().tour.get(p).unwrap(), target: &target, next: rc.route().tour.get(p + 1) };
    let v_act = feature_rules.constraint.as_ref().unwrap().evaluate(&MoveContext::activity(&sctx, &rc, &actx));
    let v_locked = feature_cond.constraint.as_ref().unwrap().evaluate(&MoveContext::route(&sctx, &rc, &locked[0]));
    let v_free = feature_cond.constraint.as_ref().unwrap().evaluate(&MoveContext::route(&sctx, &rc, &Job::Single(mk())));
    println!("{}", serde_json::to_string(&json!({"rejected": v_act.is_some(), "locked_rejected": v_locked.is_some(), "free_rejected": v_free.is_some()})).unwrap());
}

/// Collection flavour of the insertion evaluator (C15): the solution has one used tour, the caller hands over that tour plus fresh
/// ones; cost per (vehicle, job) pair from a table (vehicle i, job j: 100 * (n - i) + j, so fresh tours are cheaper).
fn collect_all(case: &Value) {
    use vrp_core::models::{Extras, FeatureBuilder, Problem};
    let n = case["routes"].as_u64().unwrap() as usize;
    let n_jobs = case["jobs"].as_u64().unwrap() as usize;
    let fold_jobs = case["fold_jobs"].as_bool().unwrap();
    let pair: Vec<Vec<Float>> = (0..n).map(|i| (0..n_jobs + 2).map(|j| (100 * (n - i) + j) as Float).collect()).collect();
    let vehicles = (0..n)
        .map(|idx| {
            let mut dimens = Dimensions::default();
            dimens.set_vehicle_id(format!("v{idx}"));
            Arc::new(Vehicle {
                profile: Profile::default(),
                costs: costs(&Value::Null),
                dimens,
                details: vec![VehicleDetail {
                    start: Some(VehiclePlace { location: 0, time: TimeInterval { earliest: Some(0.), latest: None } }),
                    end: None,
                }],
            })
        })
        .collect::<Vec<_>>();
    let driver = Driver { costs: costs(&Value::Null), dimens: Default::default(), details: vec![] };
    let fleet = Arc::new(Fleet::new(vec![Arc::new(driver)], vehicles, |_| |_| 0));
    let transport: Arc<dyn TransportCost> =
        Arc::new(Matrix { dur: HashMap::new(), dist: HashMap::new(), dur_default: 0., dist_default: 0. });
    let activity_cost: Arc<dyn ActivityCost> = Arc::new(SimpleActivityCost::default());
    let feature = FeatureBuilder::default()
        .with_name("table")
        .with_objective(PerVehicleObjective { route: vec![], activity: vec![0.; n_jobs + 2], pair: Some(pair.clone()) })
        .build()
        .unwrap();
    let goal_ctx = GoalContextBuilder::with_features(&[feature]).unwrap().build().unwrap();
    let logger: vrp_core::rosomaxa::utils::InfoLogger = Arc::new(|_| ());
    let mk_job = |idx: usize| {
        let mut dimens = Dimensions::default();
        dimens.set_job_id(format!("j{idx}"));
        Job::Single(Arc::new(Single {
            places: vec![Place { location: Some(1), duration: 0., times: vec![TimeSpan::Window(TimeWindow::max())] }],
            dimens,
        }))
    };
    let jobs: Vec<Job> = (0..n_jobs).map(mk_job).collect();
    let seated = mk_job(n_jobs); // the job already served by the one used tour
    let extra = mk_job(n_jobs + 1); // pads `required` when the per-job layout is wanted
    let all_jobs: Vec<Job> = jobs.iter().cloned().chain([seated.clone(), extra.clone()]).collect();
    let jobs_index = vrp_core::models::problem::Jobs::new(&fleet, all_jobs, transport.as_ref(), &logger).unwrap();
    let problem = Arc::new(Problem {
        fleet: fleet.clone(),
        jobs: Arc::new(jobs_index),
        locks: vec![],
        goal: Arc::new(goal_ctx),
        activity: activity_cost,
        transport,
        extras: Arc::new(Extras::default()),
    });
    let mut ictx = InsertionContext::new_empty(problem, Arc::new(vrp_core::rosomaxa::utils::Environment::default()));
    let find = |i: usize| fleet.actors.iter().find(|a| a.vehicle.dimens.get_vehicle_id().unwrap() == &format!("v{i}")).unwrap().clone();
    // the solution uses vehicle 0 only
    let mut used = ictx.solution.registry.get_route(&find(0)).unwrap();
    used.route_mut().tour.insert_last(Activity::new_with_job(seated.to_single().clone()));
    ictx.solution.routes.push(used);
    ictx.solution.required = if fold_jobs { jobs.iter().cloned().chain([extra]).collect() } else { vec![] };
    let fresh: Vec<RouteContext> = (1..n).map(|i| RouteContext::new(find(i))).collect();
    let route_refs: Vec<&RouteContext> = ictx.solution.routes.iter().chain(fresh.iter()).collect();
    let job_refs: Vec<&Job> = jobs.iter().collect();
    let results = PositionInsertionEvaluator::default().verif_evaluate_and_collect_all(
        &ictx,
        &job_refs,
        &route_refs,
        &LegSelection::Exhaustive,
        &BestResultSelector::default(),
    );
    let costs: Vec<Option<Float>> = results.iter().map(|r| r.as_success().map(|s| s.cost.iter().next().unwrap_or(0.))).collect();
    println!("{}", serde_json::to_string(&json!({"costs": costs, "pair": pair})).unwrap());
}

/// Phase step of the self-organising population (C08 / C19): a real `Rosomaxa` with three individuals, one generation tick
/// with the statistics of the case, then `select()`.
fn rosomaxa_phase(case: &Value) {
    use rosomaxa::example::{VectorObjective, VectorRosomaxaContext, VectorSolution};
    use rosomaxa::population::{Rosomaxa, RosomaxaConfig};
    use rosomaxa::prelude::{Environment, HeuristicPopulation, HeuristicSpeed, HeuristicStatistics};
    let f = |key: &str| f64::from_bits(case[key].as_u64().unwrap());
    let objective = Arc::new(VectorObjective::new(Arc::new(|data: &[Float]| data.iter().sum()), Arc::new(|data: &[Float]| data.to_vec())));
    let selection_size = case["selection_size"].as_u64().unwrap() as usize;
    let mut config = RosomaxaConfig::new_with_defaults(selection_size);
    config.initial_size = 4;
    config.exploration_ratio = f("exploration_bits");
    let mut population = Rosomaxa::new(VectorRosomaxaContext, objective.clone(), Arc::new(Environment::default()), config)
        .unwrap_or_else(|e| setup_failed("cannot create the population", e));
    for i in 0..3 {
        population.add(VectorSolution::new_with_objective(vec![i as Float], objective.as_ref()));
    }
    let speed = match case["speed"].as_str().unwrap() {
        "slow" => HeuristicSpeed::Slow { ratio: f("ratio_bits"), average: 1., median: None },
        "moderate" => HeuristicSpeed::Moderate { average: 1., median: None },
        _ => HeuristicSpeed::Unknown,
    };
    let statistics = HeuristicStatistics { generation: 7, termination_estimate: f("estimate_bits"), speed, ..HeuristicStatistics::default() };
    let ticks = if case["phase"] == "exploitation" { 2 } else { 1 };
    let mut selected = vec![];
    for _ in 0..ticks {
        population.on_generation(&statistics);
        selected.push(population.select().count());
    }
    println!("{}", serde_json::to_string(&json!({"size": population.size(), "selected": selected, "phase": format!("{:?}", population.selection_phase())})).unwrap());
}

/// Density clustering (C17): the real `create_clusters` on points 0..n with the neighbourhood lists of the case.
fn dbscan(case: &Value) {
    use vrp_core::algorithms::clustering::dbscan::create_clusters;
    let n = case["points"].as_u64().unwrap() as usize;
    let min_points = case["min_points"].as_u64().unwrap() as usize;
    let points: Vec<usize> = (0..n).collect();
    let neighbours: Vec<Vec<usize>> =
        case["neighbours"].as_array().unwrap().iter().map(|l| l.as_array().unwrap().iter().map(|x| x.as_u64().unwrap() as usize).collect()).collect();
    let clusters = create_clusters(points.iter(), min_points, |p: &usize| neighbours[*p].iter().map(|q| &points[*q]));
    let out: Vec<Vec<usize>> = clusters.iter().map(|c| c.iter().map(|p| **p).collect()).collect();
    println!("{}", serde_json::to_string(&json!({"clusters": out})).unwrap());
}

/// The insertion step (C02 / C04 kernel): a consistent insertion context - tour of v0 with job X, v1 unused, Y required, Z unassigned with a
/// code, J required (and possibly still listed as unassigned) - then `apply_insertion_success`, `finalize_insertion_ctx` and the conversion
/// into a `Solution`, through guarded accessors (the functions are crate-private).
fn insertion_step(case: &Value) {
    use vrp_core::models::{Extras, Problem, Solution};
    let n_tasks = case["tasks"].as_u64().unwrap() as usize;
    let vehicles: Vec<Arc<Vehicle>> = (0..2)
        .map(|i| {
            let mut dimens = Dimensions::default();
            dimens.set_vehicle_id(format!("v{i}"));
            Arc::new(Vehicle {
                profile: Profile::default(),
                costs: costs(&Value::Null),
                dimens,
                details: vec![VehicleDetail {
                    start: Some(VehiclePlace { location: 0, time: TimeInterval { earliest: Some(0.), latest: None } }),
                    end: Some(VehiclePlace { location: 0, time: TimeInterval { earliest: None, latest: Some(1000.) } }),
                }],
            })
        })
        .collect();
    let driver = Driver { costs: costs(&Value::Null), dimens: Default::default(), details: vec![] };
    let fleet = Arc::new(Fleet::new(vec![Arc::new(driver)], vehicles, |_| |_| 0));
    let transport: Arc<dyn TransportCost> =
        Arc::new(Matrix { dur: HashMap::new(), dist: HashMap::new(), dur_default: 0., dist_default: 0. });
    let activity: Arc<dyn ActivityCost> = Arc::new(SimpleActivityCost::default());
    let feature = TransportFeatureBuilder::new("transport")
        .set_transport_cost(transport.clone())
        .set_activity_cost(activity.clone())
        .build_minimize_cost()
        .unwrap();
    let goal_ctx = GoalContextBuilder::with_features(&[feature]).unwrap().build().unwrap();
    let mk_single = |id: &str| {
        let mut dimens = Dimensions::default();
        dimens.set_job_id(id.to_string());
        Arc::new(Single { places: vec![Place { location: Some(0), duration: 0., times: vec![TimeSpan::Window(TimeWindow::max())] }], dimens })
    };
    let (x, y, z) = (Job::Single(mk_single("X")), Job::Single(mk_single("Y")), Job::Single(mk_single("Z")));
    let j = if n_tasks == 1 {
        Job::Single(mk_single("J"))
    } else {
        let mut dimens = Dimensions::default();
        dimens.set_job_id("J".to_string());
        Job::Multi(Multi::new_shared((0..n_tasks).map(|i| mk_single(&format!("J{i}"))).collect(), dimens))
    };
    let logger: vrp_core::rosomaxa::utils::InfoLogger = Arc::new(|_| ());
    let jobs = vrp_core::models::problem::Jobs::new(&fleet, vec![x.clone(), y.clone(), z.clone(), j.clone()], transport.as_ref(), &logger).unwrap();
    let problem = Arc::new(Problem {
        fleet: fleet.clone(),
        jobs: Arc::new(jobs),
        locks: vec![],
        goal: Arc::new(goal_ctx),
        activity,
        transport,
        extras: Arc::new(Extras::default()),
    });
    let mut ictx = InsertionContext::new_empty(problem, Arc::new(vrp_core::rosomaxa::utils::Environment::default()));
    let find = |i: usize| fleet.actors.iter().find(|a| a.vehicle.dimens.get_vehicle_id().unwrap() == &format!("v{i}")).unwrap().clone();
    let mut used = ictx.solution.registry.get_route(&find(0)).unwrap();
    used.route_mut().tour.insert_last(Activity::new_with_job(x.to_single().clone()));
    ictx.solution.routes.push(used);
    ictx.solution.required = vec![y.clone(), j.clone()];
    ictx.solution.unassigned.insert(z.clone(), UnassignmentInfo::Simple(ViolationCode(3)));
    if case["also_unassigned"].as_bool().unwrap() {
        ictx.solution.unassigned.insert(j.clone(), UnassignmentInfo::Simple(ViolationCode(3)));
    }
    let tasks: Vec<Arc<Single>> = match &j {
        Job::Single(s) => vec![s.clone()],
        Job::Multi(m) => m.jobs.clone(),
    };
    let legs: Vec<usize> = case["legs"].as_array().unwrap().iter().map(|l| l.as_u64().unwrap() as usize).collect();
    let actor = find(case["actor"].as_u64().unwrap() as usize);
    let success = InsertionSuccess {
        cost: InsertionCost::default(),
        job: j.clone(),
        activities: tasks.iter().zip(legs.iter()).map(|(s, leg)| (Activity::new_with_job(s.clone()), *leg)).collect(),
        actor,
    };
    let name = |job: &Job| job.dimens().get_job_id().cloned().unwrap_or_default();
    let observe = |ictx: &InsertionContext| {
        let routes: Vec<Value> = ictx.solution.routes.iter().map(|rc| {
            let acts: Vec<Option<String>> = rc.route().tour.all_activities().map(|a| a.job.as_ref().map(|s| s.dimens.get_job_id().cloned().unwrap_or_default())).collect();
            let mut tour_jobs: Vec<String> = rc.route().tour.jobs().map(&name).collect();
            tour_jobs.sort();
            json!({"vehicle": rc.route().actor.vehicle.dimens.get_vehicle_id(), "activities": acts, "jobs": tour_jobs})
        }).collect();
        let mut unassigned: Vec<String> = ictx.solution.unassigned.keys().map(&name).collect();
        unassigned.sort();
        let mut available: Vec<String> = ictx.solution.registry.resources().available().map(|a| a.vehicle.dimens.get_vehicle_id().unwrap().clone()).collect();
        available.sort();
        json!({"routes": routes, "required": ictx.solution.required.iter().map(&name).collect::<Vec<_>>(), "unassigned": unassigned, "available": available})
    };
    vrp_core::construction::heuristics::verif_apply_insertion_success(&mut ictx, success);
    let after_apply = observe(&ictx);
    let early: Solution = rosomaxa::HeuristicSolution::deep_copy(&ictx).into();
    let mut early_unassigned: Vec<String> = early.unassigned.iter().map(|(job, _)| name(job)).collect();
    early_unassigned.sort();
    vrp_core::construction::heuristics::verif_finalize_insertion_ctx(&mut ictx);
    let after_finalize = observe(&ictx);
    let solution: Solution = ictx.into();
    let mut sol_unassigned: Vec<String> = solution.unassigned.iter().map(|(job, _)| name(job)).collect();
    sol_unassigned.sort();
    let sol_routes: Vec<Vec<Option<String>>> = solution.routes.iter().map(|r| r.tour.all_activities().map(|a| a.job.as_ref().map(|s| s.dimens.get_job_id().cloned().unwrap_or_default())).collect()).collect();
    println!("{}", serde_json::to_string(&json!({"after_apply": after_apply, "after_finalize": after_finalize, "solution_unassigned": sol_unassigned, "solution_routes": sol_routes,
        "early_unassigned": early_unassigned})).unwrap());
}

/// Unassigned section of the written solution (C02): entries of the case put into a `Solution`, written by `write_pragmatic`.
fn unassigned_writer(case: &Value) {
    use std::io::BufWriter;
    use vrp_pragmatic::format::ShiftIndexDimension;
    use vrp_core::models::Solution;
    use vrp_pragmatic::format::problem::PragmaticProblem;
    use vrp_pragmatic::format::solution::{write_pragmatic, PragmaticOutputType};
    let problem = Arc::new(
        (case["problem"].to_string(), vec![case["matrix"].to_string()]).read_pragmatic().unwrap_or_else(|e| setup_failed("cannot read problem", e)),
    );
    let find_actor = |vid: &str, shift: usize| {
        problem
            .fleet
            .actors
            .iter()
            .find(|a| a.vehicle.dimens.get_vehicle_id().is_some_and(|id| id == vid) && a.vehicle.dimens.get_shift_index().copied() == Some(shift))
            .unwrap_or_else(|| setup_failed("actor", format!("{vid}/{shift} not in the fleet")))
            .clone()
    };
    let actors = [find_actor("v1", 0), find_actor("v2", 1)];
    let mut unassigned = vec![];
    for (i, e) in case["entries"].as_array().unwrap().iter().enumerate() {
        let id = format!("job{i}");
        let job = if e["bound"].as_bool().unwrap() {
            let mut dimens = Dimensions::default();
            dimens.set_job_id(id.clone());
            dimens.set_vehicle_id("v1".to_string());
            Job::Single(Arc::new(Single { places: vec![], dimens }))
        } else {
            problem.jobs.all().iter().find(|j| j.dimens().get_job_id().is_some_and(|x| *x == id)).unwrap_or_else(|| setup_failed("job", id.clone())).clone()
        };
        let codes: Vec<i32> = e["codes"].as_array().unwrap().iter().map(|c| c.as_i64().unwrap() as i32).collect();
        let info = match e["info"].as_str().unwrap() {
            "unknown" => UnassignmentInfo::Unknown,
            "simple" => UnassignmentInfo::Simple(ViolationCode(codes[0])),
            _ => UnassignmentInfo::Detailed(codes.iter().enumerate().map(|(k, c)| (actors[k].clone(), ViolationCode(*c))).collect()),
        };
        unassigned.push((job, info));
    }
    let solution = Solution {
        cost: 0.,
        registry: Registry::new(&problem.fleet, Arc::new(DefaultRandom::default())),
        routes: vec![],
        unassigned,
        telemetry: None,
    };
    let mut buffer = BufWriter::new(Vec::new());
    write_pragmatic(problem.as_ref(), &solution, PragmaticOutputType::OnlyPragmatic, &mut buffer).unwrap();
    let text = String::from_utf8(buffer.into_inner().unwrap()).unwrap();
    let doc: Value = serde_json::from_str(&text).unwrap();
    println!("{}", serde_json::to_string(&json!({"unassigned": doc.get("unassigned")})).unwrap());
}

/// Relations -> locks (C01 relation pinning): the problem of the case is read by the real reader; every lock is described by the
/// (vehicle id, shift index) pairs its condition accepts and by its details.
fn read_locks(case: &Value) {
    use vrp_core::models::{LockOrder, LockPosition};
    use vrp_pragmatic::format::problem::PragmaticProblem;
    use vrp_pragmatic::format::ShiftIndexDimension;
    let problem = (case["problem"].to_string(), vec![case["matrix"].to_string()]).read_pragmatic().unwrap_or_else(|e| setup_failed("cannot read problem", e));
    let locks: Vec<Value> = problem
        .locks
        .iter()
        .map(|lock| {
            let mut accepts: Vec<(String, usize)> = problem
                .fleet
                .actors
                .iter()
                .filter(|a| (lock.condition_fn)(a))
                .map(|a| (a.vehicle.dimens.get_vehicle_id().unwrap().clone(), a.vehicle.dimens.get_shift_index().copied().unwrap()))
                .collect();
            accepts.sort();
            accepts.dedup();
            let details: Vec<Value> = lock
                .details
                .iter()
                .map(|d| {
                    let order = match d.order { LockOrder::Any => "any", LockOrder::Sequence => "sequence", LockOrder::Strict => "strict" };
                    let position = match d.position { LockPosition::Any => "any", LockPosition::Departure => "departure", LockPosition::Arrival => "arrival", LockPosition::Fixed => "fixed" };
                    let jobs: Vec<String> = d.jobs.iter().map(|j| j.dimens().get_job_id().cloned().unwrap_or_default()).collect();
                    json!({"order": order, "position": position, "jobs": jobs})
                })
                .collect();
            json!({"accepts": accepts, "details": details})
        })
        .collect();
    println!("{}", serde_json::to_string(&json!({"locks": locks})).unwrap());
}

/// `Statistic + Statistic` through the public operator.
fn statistic_sum(case: &Value) {
    use vrp_pragmatic::format::solution::{Statistic, Timing};
    let mk = |v: &Value| Statistic {
        cost: v["cost"].as_f64().unwrap(),
        distance: v["distance"].as_i64().unwrap(),
        duration: v["duration"].as_i64().unwrap(),
        times: Timing {
            driving: v["driving"].as_i64().unwrap(),
            serving: v["serving"].as_i64().unwrap(),
            waiting: v["waiting"].as_i64().unwrap(),
            break_time: v["break_time"].as_i64().unwrap(),
            commuting: v["commuting"].as_i64().unwrap(),
            parking: v["parking"].as_i64().unwrap(),
        },
    };
    let sum = mk(&case["a"]) + mk(&case["b"]);
    println!(
        "{}",
        serde_json::to_string(&json!({"cost": sum.cost, "distance": sum.distance, "duration": sum.duration, "driving": sum.times.driving,
            "serving": sum.times.serving, "waiting": sum.times.waiting, "break_time": sum.times.break_time,
            "commuting": sum.times.commuting, "parking": sum.times.parking}))
        .unwrap()
    );
}

fn main() {
    let path = std::env::args().nth(1).expect("usage: verif-replay <case.json>");
    let case: Value = serde_json::from_str(&std::fs::read_to_string(path).unwrap()).unwrap();
    if case["kind"] == "writer_tour" {
        return writer_tour(&case);
    }
    if case["kind"] == "job_rules" {
        return job_rules(&case);
    }
    if case["kind"] == "checker" {
        return checker(&case);
    }
    if case["kind"] == "matrix_read" {
        return matrix_read(&case);
    }
    if case["kind"] == "statistic_sum" {
        return statistic_sum(&case);
    }
    if case["kind"] == "init_read" {
        return init_read(&case);
    }
    if case["kind"] == "registry" {
        return registry(&case);
    }
    if case["kind"] == "tour" {
        return tour_step(&case);
    }
    if case["kind"] == "group_state" {
        return group_state(&case);
    }
    if case["kind"] == "read_locks" {
        return read_locks(&case);
    }
    if case["kind"] == "insertion_step" {
        return insertion_step(&case);
    }
    if case["kind"] == "unassigned_writer" {
        return unassigned_writer(&case);
    }
    if case["kind"] == "dbscan" {
        return dbscan(&case);
    }
    if case["kind"] == "rosomaxa_phase" {
        return rosomaxa_phase(&case);
    }
    if case["kind"] == "collect_all" {
        return collect_all(&case);
    }
    if case["kind"] == "lock_rule" {
        return lock_rule(&case);
    }
    if case["kind"] == "skills" {
        return skills(&case);
    }
    if case["kind"] == "compatibility" {
        return compatibility(&case);
    }
    if case["kind"] == "shared_resource" {
        return shared_resource(&case);
    }
    if case["kind"] == "ctx_from_solution" {
        return ctx_from_solution(&case);
    }
    if case["kind"] == "min_variation" {
        return min_variation(&case);
    }
    if case["kind"] == "goal_order" {
        return goal_order(&case);
    }
    if case["kind"] == "time_aware" {
        return time_aware(&case);
    }
    if case["kind"] == "max_generation" {
        return max_generation(&case);
    }
    if case["kind"] == "reducer" {
        return reducer(&case);
    }
    if case["kind"] == "fold_order" {
        return fold_order(&case);
    }

    let closed = case["closed"].as_bool().unwrap_or(true);
    let l0 = case["l0"].as_u64().unwrap_or(0) as usize;
    let lend = case["lend"].as_u64().unwrap_or(0) as usize;
    let shift_start = num(&case["shift_start"]);
    let mut dimens = Dimensions::default();
    dimens.set_vehicle_id("v1".to_string());
    if let Some(c) = case.get("capacity").and_then(|c| c.as_i64()) {
        dimens.set_vehicle_capacity(SingleDimLoad::new(c as i32));
    }
    let vehicle = Vehicle {
        profile: Profile::default(),
        costs: costs(&case["vehicle_costs"]),
        dimens,
        details: vec![VehicleDetail {
            start: Some(VehiclePlace { location: l0, time: TimeInterval { earliest: Some(shift_start), latest: None } }),
            end: if closed {
                Some(VehiclePlace {
                    location: lend,
                    time: TimeInterval { earliest: None, latest: Some(num(&case["shift_end"])) },
                })
            } else {
                None
            },
        }],
    };
    let driver = Driver { costs: costs(&case["driver_costs"]), dimens: Default::default(), details: vec![] };
    let fleet = Fleet::new(vec![Arc::new(driver)], vec![Arc::new(vehicle)], |_| |_| 0);
    let actor = fleet.actors[0].clone();

    let transport: Arc<dyn TransportCost> = Arc::new(Matrix {
        dur: entries(&case["dur"]),
        dist: entries(&case["dist"]),
        dur_default: case["dur_default"].as_f64().unwrap_or(0.),
        dist_default: case["dist_default"].as_f64().unwrap_or(0.),
    });
    let activity: Arc<dyn ActivityCost> = Arc::new(SimpleActivityCost::default());

    let builder = || {
        TransportFeatureBuilder::new("transport")
            .set_violation_code(ViolationCode(1))
            .set_transport_cost(transport.clone())
            .set_activity_cost(activity.clone())
    };
    let f_cost = builder().build_minimize_cost().unwrap();
    let f_dist = builder().build_minimize_distance().unwrap();
    let f_dur = builder().build_minimize_duration().unwrap();
    let has_reload = case["jobs"].as_array().is_some_and(|jobs| jobs.iter().any(|j| j.get("reload").and_then(|r| r.as_bool()).unwrap_or(false)));
    let f_cap = if has_reload {
        // capacity with reload intervals: the marker is the activity whose job id is "reload"
        ReloadFeatureFactory::<SingleDimLoad>::new("capacity")
            .set_capacity_code(ViolationCode(2))
            .set_is_reload_single(|single| single.dimens.get_job_id().is_some_and(|id| id == "reload"))
            .set_belongs_to_route(|_, _| true)
            .set_load_schedule_threshold(|capacity: &SingleDimLoad| *capacity)
            .build_simple()
            .unwrap()
    } else {
        CapacityFeatureBuilder::<SingleDimLoad>::new("capacity").set_violation_code(ViolationCode(2)).build().unwrap()
    };
    let limit_distance = case.get("limit_distance").and_then(|v| v.as_f64());
    let limit_duration = case.get("limit_duration").and_then(|v| v.as_f64());
    let f_limit = {
        let (ld, lt) = (limit_distance, limit_duration);
        create_travel_limit_feature(
            "limits",
            transport.clone(),
            activity.clone(),
            ViolationCode(3),
            ViolationCode(4),
            Arc::new(move |_| ld),
            Arc::new(move |_| lt),
        )
        .unwrap()
    };

    let f_reach = create_reachable_feature("reachable", transport.clone(), ViolationCode(5)).unwrap();

    let goal = GoalContextBuilder::with_features(&[f_cost.clone()]).unwrap().build().unwrap();
    let registry = Registry::new(&fleet, Arc::new(DefaultRandom::default()));
    let solution_ctx = SolutionContext {
        required: vec![],
        ignored: vec![],
        unassigned: Default::default(),
        locked: Default::default(),
        routes: vec![],
        registry: RegistryContext::new(&goal, registry),
        state: Default::default(),
    };

    let build_route = |jobs: &[Value]| {
        let mut rc = RouteContext::new(actor.clone());
        for j in jobs {
            rc.route_mut().tour.insert_last(job_activity(j));
        }
        let dep0 = num(&case["dep0"]);
        let start = rc.route_mut().tour.get_mut(0).unwrap();
        start.schedule = Schedule::new(dep0, dep0);
        update_route_schedule(&mut rc, activity.as_ref(), transport.as_ref());
        f_cap.state.as_ref().unwrap().accept_route_state(&mut rc);
        f_limit.state.as_ref().unwrap().accept_route_state(&mut rc);
        rc
    };

    let jobs: Vec<Value> = case["jobs"].as_array().cloned().unwrap_or_default();
    let rc = build_route(&jobs);

    // task order as a hard rule
    if case["kind"] == "tour_order" {
        use vrp_core::construction::features::{create_tour_order_hard_feature, OrderResult, TourOrderFn};
        let order_of = |v: &Value| match v["order"]["kind"].as_str().unwrap() {
            "value" => OrderResult::Value(num(&v["order"]["value"])),
            "default" => OrderResult::Default,
            _ => OrderResult::Ignored,
        };
        let mut table: HashMap<String, OrderResult> = HashMap::new();
        let mut mk = |v: &Value, id: String| {
            table.insert(id.clone(), order_of(v));
            let mut a = job_activity(v);
            let mut dimens = Dimensions::default();
            dimens.set_job_id(id);
            a.job = Some(Arc::new(Single { places: vec![], dimens }));
            a
        };
        let mut rc = RouteContext::new(actor.clone());
        for (i, j) in jobs.iter().enumerate() {
            let a = mk(j, format!("j{i}"));
            rc.route_mut().tour.insert_last(a);
        }
        let tgt = mk(&case["target"], "target".to_string());
        let order_fn: TourOrderFn = TourOrderFn::Left(Arc::new(move |single: &Single| {
            table.get(single.dimens.get_job_id().unwrap()).copied().unwrap_or(OrderResult::Ignored)
        }));
        let f_order = create_tour_order_hard_feature("order", ViolationCode(7), order_fn).unwrap();
        let leg = case["leg"].as_u64().unwrap_or(0) as usize;
        let prev = rc.route().tour.get(leg).unwrap();
        let next = rc.route().tour.get(leg + 1);
        let activity_ctx = ActivityContext { index: leg, prev, target: &tgt, next };
        let out = json!({"evaluate_order": violation(
            f_order.constraint.as_ref().unwrap().evaluate(&MoveContext::activity(&solution_ctx, &rc, &activity_ctx)))});
        println!("{}", serde_json::to_string(&out).unwrap());
        return;
    }

    // route-level gates: shift/time-window intersection (transport) and the tour size limit
    if let Some(rj) = case.get("route_job").filter(|t| !t.is_null()) {
        use vrp_core::construction::features::create_activity_limit_feature;
        use vrp_core::models::problem::{Multi, Place as JPlace};
        use vrp_core::models::common::TimeSpan;
        let mut rc = RouteContext::new(actor.clone());
        let multi_in_tour = case.get("multi_in_tour").and_then(|v| v.as_bool()).unwrap_or(false);
        if multi_in_tour {
            // the first two activities of the tour are the two tasks of ONE multi job
            let subs: Vec<Arc<Single>> = jobs.iter().take(2).map(|j| job_activity(j).job.unwrap()).collect();
            let multi = Multi::new_shared(subs, Dimensions::default());
            for (j, single) in jobs.iter().take(2).zip(multi.jobs.iter()) {
                let mut a = job_activity(j);
                a.job = Some(single.clone());
                rc.route_mut().tour.insert_last(a);
            }
            for j in jobs.iter().skip(2) {
                rc.route_mut().tour.insert_last(job_activity(j));
            }
        } else {
            for j in jobs.iter() {
                rc.route_mut().tour.insert_last(job_activity(j));
            }
        }
        let times: Vec<TimeSpan> = rj["tws"]
            .as_array()
            .unwrap()
            .iter()
            .map(|tw| TimeSpan::Window(TimeWindow::new(num(&tw[0]), num(&tw[1]))))
            .collect();
        let per_place = rj.get("windows_per_place").and_then(|v| v.as_u64()).unwrap_or(times.len() as u64).max(1) as usize;
        let mk_single = || {
            Arc::new(Single {
                places: times
                    .chunks(per_place)
                    .enumerate()
                    .map(|(i, tws)| JPlace { location: Some(5 + i), duration: 0., times: tws.to_vec() })
                    .collect(),
                dimens: Default::default(),
            })
        };
        let single = Job::Single(mk_single());
        let multi = Job::Multi(Multi::new_shared(vec![mk_single(), mk_single()], Dimensions::default()));
        let limit = case.get("size_limit").and_then(|v| v.as_u64()).map(|v| v as usize);
        let f_size = create_activity_limit_feature("size", ViolationCode(6), Arc::new(move |_| limit)).unwrap();
        let out = json!({
            "evaluate_job_transport": violation(f_cost.constraint.as_ref().unwrap().evaluate(&MoveContext::route(&solution_ctx, &rc, &single))),
            "evaluate_size_single": violation(f_size.constraint.as_ref().unwrap().evaluate(&MoveContext::route(&solution_ctx, &rc, &single))),
            "evaluate_size_multi": violation(f_size.constraint.as_ref().unwrap().evaluate(&MoveContext::route(&solution_ctx, &rc, &multi))),
            "tour_job_count": rc.route().tour.job_count(),
            "tour_job_activity_count": rc.route().tour.job_activity_count(),
        });
        println!("{}", serde_json::to_string(&out).unwrap());
        return;
    }
    let mut out = json!({"pre": observe(&rc)});
    // stale flag through deep_copy: `RouteContext` is stale after the mutations above; accept_route_state resets the flag
    {
        let copy_of_stale = rc.deep_copy();
        let mut fresh = rc.deep_copy();
        goal.accept_route_state(&mut fresh);
        let copy_of_fresh = fresh.deep_copy();
        out["deep_copy"] = json!({
            "stale_original": rc.is_stale(), "stale_copy": copy_of_stale.is_stale(),
            "fresh_original": fresh.is_stale(), "fresh_copy": copy_of_fresh.is_stale(),
            "copy_schedule": observe(&copy_of_stale)["schedule"],
        });
    }
    // total cost of a solution consisting of this route (optionally with explicitly given tour totals)
    {
        use vrp_core::models::{Extras, Problem};
        let mut priced = rc.deep_copy();
        if let Some(td) = case.get("set_total_distance").and_then(|v| v.as_f64()) {
            priced.state_mut().set_total_distance(td);
        }
        if let Some(t) = case.get("set_total_duration").and_then(|v| v.as_f64()) {
            priced.state_mut().set_total_duration(t);
        }
        let logger: vrp_core::rosomaxa::utils::InfoLogger = Arc::new(|_| ());
        let fleet_arc = Arc::new(Fleet::new(fleet.drivers.clone(), fleet.vehicles.clone(), |_| |_| 0));
        let jobs_index = vrp_core::models::problem::Jobs::new(&fleet_arc, vec![], transport.as_ref(), &logger).unwrap();
        let problem = Arc::new(Problem {
            fleet: fleet_arc,
            jobs: Arc::new(jobs_index),
            locks: vec![],
            goal: Arc::new(GoalContextBuilder::with_features(&[f_cost.clone()]).unwrap().build().unwrap()),
            activity: activity.clone(),
            transport: transport.clone(),
            extras: Arc::new(Extras::default()),
        });
        if case["kind"] == "simple_objectives" {
            // additive objectives: quoted estimate vs. change of the fitness when the job moves from "unassigned" into the route
            use vrp_core::construction::features::{
                create_maximize_total_job_value_feature, create_maximize_tours_feature, create_minimize_tours_feature,
                JobReadValueFn, MinimizeUnassignedBuilder,
            };
            let (w, v) = (num(&case["weight"]), num(&case["value"]));
            let target = json!({"loc": 5, "dur": 0.0, "tws": 0.0, "twe": null});
            let tgt = job_activity(&target);
            let job = Job::Single(tgt.job.clone().unwrap());
            let features = vec![
                ("minimize_tours", create_minimize_tours_feature("f").unwrap()),
                ("maximize_tours", create_maximize_tours_feature("f").unwrap()),
                ("minimize_unassigned", MinimizeUnassignedBuilder::new("f").set_job_estimator(move |_, _| w).build().unwrap()),
                (
                    "maximize_value",
                    create_maximize_total_job_value_feature(
                        "f",
                        JobReadValueFn::Left(Arc::new(move |_| v)),
                        Arc::new(|job, _| job),
                        ViolationCode(9),
                    )
                    .unwrap(),
                ),
            ];
            let env = Arc::new(vrp_core::rosomaxa::utils::Environment::default());
            let mut before = InsertionContext::new_empty(problem.clone(), env.clone());
            if !jobs.is_empty() {
                before.solution.routes.push(rc.deep_copy());
            }
            before.solution.unassigned.insert(job.clone(), vrp_core::construction::heuristics::UnassignmentInfo::Unknown);
            let mut after = InsertionContext::new_empty(problem.clone(), env);
            let mut post_jobs = jobs.clone();
            post_jobs.push(target.clone());
            after.solution.routes.push(build_route(&post_jobs));
            let prev = rc.route().tour.get(0).unwrap();
            let next = rc.route().tour.get(1);
            let activity_ctx = ActivityContext { index: 0, prev, target: &tgt, next };
            let mut res = serde_json::Map::new();
            for (name, f) in features.iter() {
                let o = f.objective.as_ref().unwrap();
                res.insert(
                    name.to_string(),
                    json!({
                        "estimate_route": o.estimate(&MoveContext::route(&solution_ctx, &rc, &job)),
                        "estimate_activity": o.estimate(&MoveContext::activity(&solution_ctx, &rc, &activity_ctx)),
                        "fitness_before": o.fitness(&before),
                        "fitness_after": o.fitness(&after),
                    }),
                );
            }
            println!("{}", serde_json::to_string(&Value::Object(res)).unwrap());
            return;
        }
        if case["kind"] == "insertion_e2e" {
            // the real insertion evaluator on the whole job (single or multi with tasks in the given order)
            use vrp_core::construction::heuristics::{eval_job_insertion_in_route, EvaluationContext, InsertionPosition};
            use vrp_core::models::common::TimeSpan;
            use vrp_core::models::problem::{Multi, Place as JPlace};
            let singles: Vec<Arc<Single>> = case["tasks"]
                .as_array()
                .unwrap()
                .iter()
                .map(|t| {
                    let mut dimens = Dimensions::default();
                    if let Some(d) = demand(t) {
                        dimens.set_job_demand(d);
                    }
                    Arc::new(Single {
                        places: match t.get("alts").and_then(|a| a.as_array()) {
                            Some(alts) => alts
                                .iter()
                                .map(|alt| JPlace {
                                    location: Some(alt["loc"].as_u64().unwrap() as usize),
                                    duration: num(&alt["dur"]),
                                    times: alt["windows"]
                                        .as_array()
                                        .unwrap()
                                        .iter()
                                        .map(|w| TimeSpan::Window(TimeWindow::new(num(&w[0]), num(&w[1]))))
                                        .collect(),
                                })
                                .collect(),
                            None => vec![JPlace {
                                location: Some(t["loc"].as_u64().unwrap() as usize),
                                duration: num(&t["dur"]),
                                times: match t.get("windows").and_then(|w| w.as_array()) {
                                    Some(windows) => {
                                        windows.iter().map(|w| TimeSpan::Window(TimeWindow::new(num(&w[0]), num(&w[1])))).collect()
                                    }
                                    None => vec![TimeSpan::Window(TimeWindow::new(num(&t["tws"]), num(&t["twe"])))],
                                },
                            }],
                        },
                        dimens,
                    })
                })
                .collect();
            let job = if singles.len() == 1 {
                Job::Single(singles[0].clone())
            } else {
                Job::Multi(Multi::new_shared(singles, Dimensions::default()))
            };
            let ictx = InsertionContext::new_empty(problem.clone(), Arc::new(vrp_core::rosomaxa::utils::Environment::default()));
            let selector = BestResultSelector::default();
            let goal_e2e = if case.get("capacity").is_some_and(|c| !c.is_null()) {
                GoalContextBuilder::with_features(&[f_cost.clone(), f_cap.clone()]).unwrap().build().unwrap()
            } else {
                GoalContextBuilder::with_features(&[f_cost.clone()]).unwrap().build().unwrap()
            };
            let eval_ctx = EvaluationContext {
                goal: &goal_e2e,
                job: &job,
                leg_selection: &LegSelection::Exhaustive,
                result_selector: &selector,
            };
            let result =
                eval_job_insertion_in_route(&ictx, &eval_ctx, &rc, InsertionPosition::Any, InsertionResult::make_failure());
            let out = match &result {
                InsertionResult::Success(s) => json!({
                    "success": true,
                    "activities": s.activities.iter().map(|(a, idx)| json!({"index": idx, "loc": a.place.location, "dur": a.place.duration,
                        "tws": a.place.time.start, "twe": a.place.time.end})).collect::<Vec<_>>(),
                    "cost": s.cost.iter().collect::<Vec<_>>(),
                }),
                InsertionResult::Failure(f) => json!({"success": false, "code": f.constraint.0, "stopped": f.stopped}),
            };
            println!("{}", serde_json::to_string(&out).unwrap());
            return;
        }
        let mut ictx = InsertionContext::new_empty(problem, Arc::new(vrp_core::rosomaxa::utils::Environment::default()));
        ictx.solution.routes.push(priced);
        out["total_cost"] = json!(ictx.get_total_cost());
    }

    if let Some(target) = case.get("target").filter(|t| !t.is_null()) {
        let leg = case["leg"].as_u64().unwrap_or(0) as usize;
        let mut tgt = job_activity(target);
        if case.get("target_multi").and_then(|v| v.as_bool()).unwrap_or(false) {
            // the target is the first task (pickup) of a shipment: a multi job with a delivery task of the same amount
            use vrp_core::models::problem::Multi;
            let pickup = tgt.job.clone().unwrap();
            let amount = pickup.dimens.get_job_demand::<SingleDimLoad>().map(|d| d.pickup.1).unwrap_or_default();
            let mut dimens = Dimensions::default();
            dimens.set_job_demand(Demand { pickup: (SingleDimLoad::default(), SingleDimLoad::default()), delivery: (SingleDimLoad::default(), amount) });
            let delivery = Arc::new(Single { places: vec![], dimens });
            let multi = Multi::new_shared(vec![pickup, delivery], Dimensions::default());
            tgt.job = Some(multi.jobs[0].clone());
        }
        let prev = rc.route().tour.get(leg).unwrap();
        let next = rc.route().tour.get(leg + 1);
        let activity_ctx = ActivityContext { index: leg, prev, target: &tgt, next };
        let move_ctx = MoveContext::activity(&solution_ctx, &rc, &activity_ctx);
        out["evaluate_transport"] = violation(f_cost.constraint.as_ref().unwrap().evaluate(&move_ctx));
        out["evaluate_capacity"] = violation(f_cap.constraint.as_ref().unwrap().evaluate(&move_ctx));
        out["evaluate_limits"] = violation(f_limit.constraint.as_ref().unwrap().evaluate(&move_ctx));
        out["evaluate_reachable"] = violation(f_reach.constraint.as_ref().unwrap().evaluate(&move_ctx));
        out["estimate_cost"] = json!(f_cost.objective.as_ref().unwrap().estimate(&move_ctx));
        out["estimate_distance"] = json!(f_dist.objective.as_ref().unwrap().estimate(&move_ctx));
        out["estimate_duration"] = json!(f_dur.objective.as_ref().unwrap().estimate(&move_ctx));
        let job = Job::Single(tgt.job.clone().unwrap());
        let route_move = MoveContext::route(&solution_ctx, &rc, &job);
        out["estimate_cost_route"] = json!(f_cost.objective.as_ref().unwrap().estimate(&route_move));

        let mut post_jobs = jobs.clone();
        post_jobs.insert(leg, target.clone());
        let post = build_route(&post_jobs);
        out["post"] = observe(&post);
    }
    println!("{}", serde_json::to_string(&out).unwrap());
}
