"""Solver front end: every query is decided by z3 (python bindings, 4.x) and re-run on cvc5 (binary, SMT-LIB2 text) as a
second opinion; differing verdicts, `unknown`, a time-out or an `(error` line make the query inconclusive."""
import os
import subprocess
import tempfile
import time

import z3

CVC5 = '/usr/bin/cvc5'


class Decider:
    def __init__(self, timeout_ms=60000, cross_check=True):
        self.timeout_ms = timeout_ms
        self.cross_check = cross_check and os.path.exists(CVC5)
        self.queries = 0
        self.cross_queries = 0
        self.time = 0.0
        self.disagreements = 0

    def check(self, assertions, cross=True):
        """-> (verdict in {'sat','unsat','unknown'}, model|None, seconds)"""
        t0 = time.time()
        s = z3.Solver()
        s.set('timeout', self.timeout_ms)
        for a in assertions:
            s.add(a)
        r = s.check()
        self.queries += 1
        verdict = 'sat' if r == z3.sat else ('unsat' if r == z3.unsat else 'unknown')
        model = s.model() if r == z3.sat else None
        if verdict == 'unsat' and cross and self.cross_check:
            v2 = self._cvc5(s)
            self.cross_queries += 1
            if v2 != 'unsat':
                self.disagreements += 1
                verdict = 'unknown' if v2 in ('unknown', 'error') else 'disagree'
        dt = time.time() - t0
        self.time += dt
        return verdict, model, dt

    def _cvc5(self, solver):
        text = '(set-logic ALL)\n' + solver.to_smt2()
        with tempfile.NamedTemporaryFile('w', suffix='.smt2', delete=False, dir='/verif/.cache') as f:
            f.write(text)
            path = f.name
        if 'to_ieee_bv' in text or 'FloatingPoint' in text or 'fp.' in text or 'Float64' in text or 'roundNearest' in text:
            # z3's fp.to_ieee_bv is not SMT-LIB standard and cvc5 rejects it: floating-point queries are re-run on the
            # independent z3 5.1 build instead
            cmd = ['z3-new', f'-T:{int(self.timeout_ms / 1000) + 1}', path]
        else:
            cmd = [CVC5, '--lang', 'smt2', f'--tlimit={self.timeout_ms}', path]
        try:
            p = subprocess.run(cmd, capture_output=True, text=True,
                               timeout=self.timeout_ms / 1000 + 30)
            out = (p.stdout + p.stderr).strip()
        except subprocess.TimeoutExpired:
            out = 'unknown'
        finally:
            os.unlink(path)
        if '(error' in out:
            return 'error'
        for line in out.splitlines():
            if line.strip() in ('sat', 'unsat', 'unknown'):
                return line.strip()
        return 'unknown'
