"""Call dispatch of the MIR symbolic executor: (a) crate-local callees are INLINED from the MIR dump, (b) `dyn` calls and
state accessors are bound by the obligation's environment, (c) a closed table of std models.  A callee that is in none
of these aborts the obligation as inconclusive - it is never skipped."""
import re

import z3

from symex import (Agg, ArcV, BV, Cell, DynV, EnumV, FP, FV, IV, Inconclusive, Opaque, RefV, SetV, StateV, UnitV, VecV, _PathEnds,
                   copy_value, f_abs, f_eq, f_ite, f_le, f_lt, f_max, f_min, is_true, zs)


def strip_generics(s):
    """Removes `::<...>` turbofish segments (balanced). `::<impl f64>::max` style inherent-impl path segments (followed by
    another `::`) are kept."""
    out, i, n = [], 0, len(s)
    while i < n:
        if s.startswith('::<', i):
            depth, j = 0, i + 2
            while j < n:
                if s[j] == '<':
                    depth += 1
                elif s[j] == '>' and s[j - 1] not in '-=':
                    depth -= 1
                    if depth == 0:
                        break
                j += 1
            if s.startswith('::<impl ', i) and s.startswith('::', j + 1):
                out.append(s[i:j + 1])
            i = j + 1
        else:
            out.append(s[i])
            i += 1
    return ''.join(out)


def base_type(t):
    t = t.strip()
    t = re.sub(r"^&('\w+ )?(mut )?", '', t)
    t = re.sub(r'^dyn ', '', t)
    depth = 0
    cut = len(t)
    for i, c in enumerate(t):
        if c == '<':
            cut = i
            break
    t = t[:cut]
    return t.split('::')[-1].strip()


def split_qualified(callee):
    """`<A as B>::m` -> (A, B, m) ; None if not of that form."""
    if not callee.startswith('<'):
        return None
    depth = 0
    for i, c in enumerate(callee):
        if c == '<':
            depth += 1
        elif c == '>' and callee[i - 1] not in '-=':
            depth -= 1
            if depth == 0:
                inner = callee[1:i]
                rest = callee[i + 1:]
                if not rest.startswith('::'):
                    return None
                method = strip_generics(rest[2:])
                # split inner at ' as ' on depth 0
                d = 0
                for j, ch in enumerate(inner):
                    if ch in '<([':
                        d += 1
                    elif ch in ')]' or (ch == '>' and inner[j - 1] not in '-='):
                        d -= 1
                    elif d == 0 and inner.startswith(' as ', j):
                        return inner[:j].strip(), inner[j + 4:].strip(), method
                return inner.strip(), None, method
    return None


def deref_all(v):
    while isinstance(v, RefV):
        v = v.load()
    return v


def unref(v):
    """One level of reference / Arc."""
    if isinstance(v, RefV):
        return v.load()
    return v


def mk_option(some, value=None, ty='Option'):
    if some is True or some is False:
        return EnumV(ty, 1 if some else 0, {1: [value]} if some else {})
    return EnumV(ty, zs(z3.If(some, 1, 0)), {1: [value]})


def opt_is_some(o):
    return zs(o.discr == 1)


def _identity_cell(v):
    """The heap cell an Arc / a reference to an Arc's payload denotes (None if not applicable)."""
    x = v
    while isinstance(x, RefV) and isinstance(x.load(), (RefV, ArcV)):
        x = x.load()
    if isinstance(x, ArcV):
        return x.cell
    if isinstance(x, RefV) and isinstance(x.container, Cell):
        return x.container
    return None


def value_eq(a, b):
    """Structural equality of two values as a z3 Bool."""
    ca, cb = _identity_cell(a), _identity_cell(b)
    if ca is not None and cb is not None and (isinstance(deref_all(a), ArcV) or isinstance(deref_all(b), ArcV)):
        return z3.BoolVal(ca is cb)         # Arc<T> keys with pointer identity (Actor's Eq/Hash are by address)
    a, b = deref_all(a), deref_all(b)
    if isinstance(a, Opaque) and isinstance(b, Opaque):
        return z3.BoolVal(a.name == b.name)
    if isinstance(a, EnumV) and isinstance(b, EnumV):
        conds = [a.discr == b.discr]
        for k in set(a.payload) & set(b.payload):
            inner = [value_eq(x, y) for x, y in zip(a.payload[k], b.payload[k])]
            if inner:
                conds.append(z3.Implies(a.discr == k, z3.And(*inner)))
        return z3.And(*conds)
    if isinstance(a, Agg) and isinstance(b, Agg):
        return z3.And(*[value_eq(x, y) for x, y in zip(a.fields, b.fields)]) if a.fields else z3.BoolVal(True)
    if isinstance(a, (IV, BV)) and isinstance(b, (IV, BV)):
        return a.t == b.t
    if isinstance(a, FV) and isinstance(b, FV):
        return z3.And(a.m == b.m, z3.Or(a.m, a.v == b.v))
    raise Inconclusive(f'structural equality of {a!r} and {b!r}')


def aset_method(engine, st, last, args, dest_ty):
    """Hash set with symbolic membership."""
    sv = deref_all(args[0])

    def index_of(key):
        for i, k in enumerate(sv.keys):
            if engine.split_bool(st, zs(value_eq(k, key))):
                return i
        return None
    if last == 'len':
        return IV(zs(z3.Sum([z3.If(p, 1, 0) for p in sv.present])) if sv.present else 0)
    if last == 'is_empty':
        return BV(zs(z3.Not(z3.Or(*sv.present))) if sv.present else True)
    if last == 'contains':
        i = index_of(args[1])
        return BV(sv.present[i] if i is not None else False)
    if last == 'remove':
        i = index_of(args[1])
        if i is None:
            return BV(False)
        old = sv.present[i]
        sv.present[i] = z3.BoolVal(False)
        return BV(old)
    if last == 'insert':
        key = args[1]
        i = index_of(key)
        if i is None:
            sv.keys.append(key)
            sv.present.append(z3.BoolVal(True))
            return BV(True)
        old = sv.present[i]
        sv.present[i] = z3.BoolVal(True)
        return BV(zs(z3.Not(old)))
    if last in ('is_subset', 'is_disjoint', 'is_superset'):
        other = deref_all(args[1])
        if type(other).__name__ != 'ASetV':
            raise Inconclusive(f'HashSet::{last} with a non-symbolic set')
        a, b = (sv, other) if last != 'is_superset' else (other, sv)

        def member(s_, key):
            # membership of `key` in s_ as a term (keys are concrete objects: structural comparison decides statically)
            terms = [p for k, p in zip(s_.keys, s_.present) if z3.is_true(zs(value_eq(k, key)))]
            return z3.Or(*terms) if terms else z3.BoolVal(False)
        if last == 'is_disjoint':
            return BV(zs(z3.And(*[z3.Not(z3.And(p, member(b, k))) for k, p in zip(a.keys, a.present)])) if a.keys else True)
        return BV(zs(z3.And(*[z3.Implies(p, member(b, k)) for k, p in zip(a.keys, a.present)])) if a.keys else True)
    if last in ('iter', 'into_iter'):
        # iteration needs a concrete element list: split the path on every membership flag
        items = []
        for k, p in zip(sv.keys, sv.present):
            if engine.split_bool(st, zs(p)):
                items.append(RefV(Cell(k), 0) if isinstance(args[0], RefV) else k)
        return IterV(items)
    raise Inconclusive(f'hash set method {last}')


def amap_method(engine, st, last, args, dest_ty):
    from symex import AMapV
    mp = deref_all(args[0])
    if last in ('len',):
        return IV(len(mp.entries))
    if last == 'is_empty':
        return BV(len(mp.entries) == 0)

    def locate(key):
        """-> index of the matching entry on this path, or None (splits the path)."""
        for i, (k, _) in enumerate(mp.entries):
            if engine.split_bool(st, zs(value_eq(k, key))):
                return i
        return None
    if last == 'contains_key' or last == 'contains':
        return BV(locate(args[1]) is not None)
    if last in ('get', 'get_mut'):
        i = locate(args[1])
        return mk_option(True, RefV(mp, i, last == 'get_mut'), ty=dest_ty) if i is not None else mk_option(False, ty=dest_ty)
    if last == 'insert':
        key = copy_value(deref_all(args[1])) if isinstance(args[1], RefV) else args[1]
        i = locate(key)
        if mp.is_set:
            if i is None:
                mp.entries.append((key, UnitV()))
            return BV(i is None)
        if i is None:
            mp.entries.append((key, args[2]))
            return mk_option(False, ty=dest_ty)
        old = mp.entries[i][1]
        mp.entries[i] = (mp.entries[i][0], args[2])
        return mk_option(True, old, ty=dest_ty)
    if last == 'entry':
        key = copy_value(deref_all(args[1])) if isinstance(args[1], RefV) else args[1]
        return Agg('hash_entry', [mp, key], 'hash_entry')
    if last == 'into_keys':
        return IterV([k for k, _ in mp.entries])
    if last == 'into_values':
        return IterV([v for _, v in mp.entries])
    if last == 'remove':
        i = locate(args[1])
        if i is None:
            return BV(False) if mp.is_set else mk_option(False, ty=dest_ty)
        _, old = mp.entries.pop(i)
        return BV(True) if mp.is_set else mk_option(True, old, ty=dest_ty)
    if last == 'into_iter' and not isinstance(args[0], RefV):
        return IterV([k for k, _ in mp.entries] if mp.is_set else [Agg('tuple', [k, v], '') for k, v in mp.entries])
    if last in ('iter', 'into_iter'):
        if mp.is_set:
            return IterV([RefV(Cell(k), 0) for k, _ in mp.entries])
        return IterV([Agg('tuple', [RefV(Cell(k), 0), RefV(mp, i)], '') for i, (k, _) in enumerate(mp.entries)])
    if last == 'keys':
        return IterV([RefV(Cell(k), 0) for k, _ in mp.entries])
    if last == 'values':
        return IterV([RefV(mp, i) for i in range(len(mp.entries))])
    raise Inconclusive(f'hash container method {last}')


def default_for(engine, ty):
    t = engine.env.subst_type(ty.strip())
    if t == 'f64' and getattr(engine.env, 'ieee', False):
        return FP(0.0)
    if t == 'f64':
        return FV.const(0)
    if t in ('usize', 'u64', 'u32', 'i32', 'i64', 'u8', 'u16', 'i16', 'isize'):
        return IV(0, t)
    if t == 'bool':
        return BV(False)
    if t.split('::')[-1] in ('Dimensions',):
        # the typed key-value store behind the custom_dimension! accessors (hash map trusted)
        return StateV()
    if t.startswith('Option<'):
        return mk_option(False, ty=t)
    if t.startswith(('Vec<', 'TinyVec<', 'std::vec::Vec<', 'alloc::vec::Vec<', 'tinyvec::TinyVec<')):
        return VecV([])
    if re.match(r'^(std::collections::)?(hash_map::)?HashMap<', t) and getattr(engine.env, 'symbolic_maps', False):
        from symex import AMapV
        return AMapV()
    if re.match(r'^(std::collections::)?(hash_set::)?HashSet<', t) and getattr(engine.env, 'symbolic_maps', False):
        from symex import AMapV
        return AMapV(is_set=True)
    if t.split('<')[0].split('::')[-1] in ('BuildHasherDefault', 'RandomState'):
        return Opaque('hasher')
    if t == 'String':
        return Opaque('""')
    d = engine.env.default_of(engine, t)
    if d is not None:
        return d
    raise Inconclusive(f'Default::default() for type {ty!r}')


def ite_value(c, a, b):
    """Merges two values of the same shape under condition c."""
    if isinstance(a, FP) and isinstance(b, FP):
        return FP(z3.If(c, a.t, b.t))
    if isinstance(a, FV) and isinstance(b, FV):
        return f_ite(c, a, b)
    if isinstance(a, IV) and isinstance(b, IV):
        return IV(zs(z3.If(c, a.t, b.t)), a.ty)
    if isinstance(a, BV) and isinstance(b, BV):
        return BV(zs(z3.If(c, a.t, b.t)))
    if isinstance(a, Agg) and isinstance(b, Agg) and len(a.fields) == len(b.fields):
        return Agg(a.kind, [ite_value(c, x, y) for x, y in zip(a.fields, b.fields)], a.ty, a.fn_name)
    if isinstance(a, EnumV) and isinstance(b, EnumV):
        payload = {}
        for k in set(a.payload) | set(b.payload):
            if k in a.payload and k in b.payload:
                payload[k] = [ite_value(c, x, y) for x, y in zip(a.payload[k], b.payload[k])]
            else:
                payload[k] = (a.payload.get(k) or b.payload.get(k))
        return EnumV(a.ty or b.ty, zs(z3.If(c, a.discr, b.discr)), payload)
    if isinstance(a, UnitV):
        return a
    return None


# ---------------------------------------------------------------------------------------------------------------------
# iterators (concrete length)

class IterV:
    def __init__(self, items):
        self.items = list(items)   # materialised list of item VALUES (references for slice iterators)

    def get(self, key):
        return self

    def set(self, key, v):
        pass


def as_iter(v):
    while isinstance(v, RefV) and isinstance(v.load(), (IterV, Agg, RefV)):
        v = v.load()
    if isinstance(v, IterV):
        return v
    if isinstance(v, EnumV) and v.variant() is not None and len(v.payload.get(v.variant(), [])) == 1 \
            and isinstance(v.payload[v.variant()][0], IterV):
        return v.payload[v.variant()][0]      # Either::Left(iter) / Either::Right(iter)
    if isinstance(v, Agg) and v.ty == 'RangeInclusive':
        lo, hi = v.fields[0].concrete(), v.fields[1].concrete()
        if lo is None or hi is None:
            raise Inconclusive('range with symbolic bounds')
        return IterV([IV(i, v.fields[0].ty) for i in range(lo, hi + 1)])
    if isinstance(v, Agg) and v.ty.endswith('Range') and len(v.fields) == 2:
        lo, hi = v.fields[0].concrete(), v.fields[1].concrete()
        if lo is None or hi is None:
            raise Inconclusive('range with symbolic bounds')
        return IterV([IV(i, v.fields[0].ty) for i in range(lo, hi)])
    raise Inconclusive(f'not an iterator: {v!r}')


def seq_of(v):
    """The VecV behind a Vec / slice / array reference."""
    x = v
    while isinstance(x, RefV):
        x = x.load()
    if isinstance(x, VecV):
        return x
    if isinstance(x, Agg) and x.kind == 'array':
        return x
    raise Inconclusive(f'not a sequence: {x!r}')


def seq_len(s):
    return len(s.items) if isinstance(s, VecV) else len(s.fields)


# ---------------------------------------------------------------------------------------------------------------------

def dispatch(engine, st, callee, args, dest_ty):
    env = engine.env
    # 0. obligation-specific overrides
    r = env.override(engine, st, callee, args, dest_ty)
    if r is not NotImplemented:
        return r
    q = split_qualified(callee)
    # cross-crate: a function or inherent/trait method of a type that lives in a sibling crate is looked up in that crate's MIR
    for prefix, other in getattr(engine, 'siblings', {}).items():
        if other is engine:
            continue
        target = q[0].lstrip('&').replace('mut ', '').strip() if q else callee
        if target.startswith(prefix + '::') and not target.startswith('dyn '):
            return dispatch(other, st, callee.replace(prefix + '::', ''), args, dest_ty)
    if q:
        ty, trait, method = q
        tb = base_type(trait) if trait else None
        if tb in ('Fn', 'FnMut', 'FnOnce'):
            tup = args[1]
            cargs = list(tup.fields) if isinstance(tup, Agg) else []
            return engine.call_closure(st, args[0], cargs)
        if ty.startswith('dyn '):
            return env.dyn_call(engine, st, base_type(ty), method, args, dest_ty)
        if ty == 'Self' and tb:
            return env.dyn_call(engine, st, tb, method, args, dest_ty)
        tyb = base_type(env.subst_type(ty))
        # closures called through Fn/FnMut/FnOnce
        if tb in ('Fn', 'FnMut', 'FnOnce'):
            tup = args[1]
            cargs = list(tup.fields) if isinstance(tup, Agg) else []
            return engine.call_closure(st, args[0], cargs)
        r = std_trait(engine, st, ty, tyb, tb, method, args, dest_ty, trait)
        if r is not NotImplemented:
            return r
        # state accessors generated by the custom_*_state!/custom_dimension! macros
        if tyb in ('RouteState', 'SolutionState', 'Dimensions'):
            return state_accessor(engine, st, tyb, tb, method, args, dest_ty)
        if '::' in method and '{' not in method:
            # a function item nested in a method body: `<T as Trait>::method::inner`
            cands = [f for n, f in engine.prog.functions.items() if n.endswith('>::' + method) and (engine.prog.impl_header(f) or (None, None)) == (tb, tyb)]
            if len(cands) == 1:
                return engine.exec_fn(st, cands[0], args)
        # user trait impl
        fns = engine.prog.find_method(tyb, method, trait=tb, is_ref=ty.strip().startswith('&'))
        if len(fns) == 1:
            return engine.exec_fn(st, fns[0], args)
        if not fns:
            # #[derive(..)] impls are listed under the derive attribute's location
            der = [f for f in engine.prog.by_last.get(method, []) if f.impl_loc and '{closure' not in f.name
                   and (engine.prog.impl_header(f) or (None, None)) == ('derive', tyb)]
            if len(der) == 1:
                return engine.exec_fn(st, der[0], args)
        if not fns and tb:
            # default method of the trait (e.g. ActivityCost::cost) defined in the trait itself
            cands = [f for f in engine.prog.by_last.get(method, []) if f.name.endswith(f'{tb}::{method}') and '{closure' not in f.name]
            if len(cands) == 1:
                return engine.exec_fn(st, cands[0], args)
        if tb == 'PartialEq' and method == 'ne':
            eqs = engine.prog.find_method(tyb, 'eq', trait='PartialEq', is_ref=ty.strip().startswith('&'))
            if len(eqs) == 1:
                r = engine.exec_fn(st, eqs[0], args)
                return BV(zs(z3.Not(r.t)))
        raise Inconclusive(f'unbound trait call {callee}')
    name = strip_generics(callee)
    if name in ('must_use', 'std::hint::must_use', 'core::hint::must_use', 'std::convert::identity', 'core::convert::identity'):
        return args[0]
    r = std_path(engine, st, name, args, dest_ty)
    if r is not NotImplemented:
        return r
    segs = name.split('::')
    if len(segs) >= 2 and segs[-2] == 'RouteState' and segs[-1] in ('get_activity_state', 'get_activity_states', 'set_activity_states'):
        return state_accessor(engine, st, 'RouteState', None, segs[-1], args, dest_ty)
    if len(segs) >= 2:
        fns = engine.prog.find_method(segs[-2], segs[-1], trait=None)
        if len(fns) == 1:
            return engine.exec_fn(st, fns[0], args)
        if len(fns) > 1:
            fns2 = [f for f in fns if engine.prog.impl_header(f)[0] is None]
            if len(fns2) == 1:
                return engine.exec_fn(st, fns2[0], args)
            # same type name in two modules (models::solution::tour::Tour vs algorithms::lkh::tour::Tour): use the module path
            mod_path = '/'.join(segs[:-2])
            fns3 = [f for f in (fns2 or fns) if mod_path and (mod_path + '.rs') in str(f.impl_loc)]
            if len(fns3) == 1:
                return engine.exec_fn(st, fns3[0], args)
    try:
        fn = engine.prog.find_free(name)
    except Exception:
        fn = None
    if fn is None and len(segs) >= 2:
        # called through a re-export path (`pub use`): the defining module differs; accept a unique free function of that name
        cands = [f for n, f in engine.prog.functions.items() if n.split('::')[-1] == segs[-1] and f.impl_loc is None and '{closure' not in n]
        if len(cands) == 1:
            fn = cands[0]
    if fn is not None:
        return engine.exec_fn(st, fn, args)
    # an inherent method of a type imported from a sibling crate (`use vrp_core::models::LockDetail; LockDetail::new(..)`): the path carries no crate name
    if len(segs) >= 2:
        for other in getattr(engine, 'siblings', {}).values():
            if other is engine:
                continue
            fns = [f for f in other.prog.find_method(segs[-2], segs[-1], trait=None) if other.prog.impl_header(f)[0] is None]
            if len(fns) == 1:
                return other.exec_fn(st, fns[0], args)
    raise Inconclusive(f'unbound call {callee}')


# ---------------------------------------------------------------------------------------------------------------------

def state_accessor(engine, st, tyb, trait, method, args, dest_ty):
    store = deref_all(args[0])
    if not isinstance(store, StateV):
        raise Inconclusive(f'{tyb} accessor on {store!r}')
    if tyb == 'RouteState' and method in ('get_activity_state', 'get_activity_states', 'set_activity_states'):
        # the generic per-activity store (key = a marker type): one slot in the typed store of the obligation
        if method == 'set_activity_states':
            v = args[1]
            store.table['generic_activity_states'] = v if isinstance(v, VecV) else deref_all(v)
            return UnitV()
        engine.env.note_state_read('generic_activity_states')
        vec = store.table.get('generic_activity_states')
        if method == 'get_activity_states':
            return mk_option(True, RefV(store, 'generic_activity_states'), ty=dest_ty) if vec is not None else mk_option(False, ty=dest_ty)
        idx = args[1].concrete()
        if idx is None:
            raise Inconclusive('symbolic activity index in state accessor')
        if vec is None or idx >= len(vec.items):
            return mk_option(False, ty=dest_ty)
        return mk_option(True, RefV(vec, idx), ty=dest_ty)
    m = re.match(r'^get_(\w+)_at$', method)
    if m and tyb == 'RouteState':
        key = m.group(1)
        engine.env.note_state_read(key)
        vec = store.table.get(key)
        idx = args[1].concrete()
        if idx is None:
            raise Inconclusive('symbolic activity index in state accessor')
        if vec is None or idx >= len(vec.items):
            return mk_option(False, ty=dest_ty)
        return mk_option(True, RefV(vec, idx), ty=dest_ty)
    m = re.match(r'^set_(\w+)_states$', method)
    if m and tyb == 'RouteState':
        v = args[1]
        store.table[m.group(1)] = v if isinstance(v, VecV) else deref_all(v)
        return UnitV()
    m = re.match(r'^get_(\w+)$', method)
    if m:
        key = m.group(1)
        engine.env.note_state_read(key)
        if key not in store.table or store.table[key] is None:
            return mk_option(False, ty=dest_ty)
        v = store.table[key]
        if isinstance(v, EnumV):          # symbolic presence supplied by the obligation
            return v
        return mk_option(True, RefV(store, key), ty=dest_ty)
    m = re.match(r'^set_(\w+)$', method)
    if m:
        store.table[m.group(1)] = args[1]
        return RefV(Cell(store), 0) if tyb != 'RouteState' else UnitV()
    m = re.match(r'^remove_(\w+)$', method)
    if m:
        existed = store.table.pop(m.group(1), None) is not None
        return BV(existed)
    raise Inconclusive(f'unknown state accessor {tyb}::{method}')


def option_arg(v):
    o = v
    while isinstance(o, RefV):
        o = o.load()
    if not isinstance(o, EnumV):
        raise Inconclusive(f'Option method on {o!r}')
    return o


def std_trait(engine, st, ty, tyb, tb, method, args, dest_ty, trait=None):
    """Std trait methods."""
    if tb in ('Deref', 'DerefMut', 'AsRef', 'Borrow') and method in ('deref', 'deref_mut', 'as_ref', 'borrow'):
        a = args[0]
        inner = a.load() if isinstance(a, RefV) else a
        if isinstance(inner, ArcV):
            return RefV(inner.cell, 0)
        if isinstance(inner, (VecV,)):
            return a            # &Vec<T> -> &[T]: same sequence object
        if isinstance(inner, RefV):
            return inner
        if tb == 'Borrow' and isinstance(a, RefV):
            return a            # impl<T> Borrow<T> for T
        if isinstance(a, RefV) and (isinstance(inner, Opaque) or (isinstance(inner, Agg) and (inner.ty == 'FormattedTime' or inner.ty.startswith('StrIs:')))):
            return a            # &String -> &str: the same text
        raise Inconclusive(f'deref of {inner!r}')
    if tb == 'Clone' and method == 'clone':
        inner = unref(args[0])
        if isinstance(inner, ArcV):
            return ArcV(inner.cell)
        if isinstance(inner, StateV):
            return StateV(dict(inner.table))
        if isinstance(inner, VecV):
            return VecV([copy_value(x) for x in inner.items], inner.ty)
        if type(inner).__name__ == 'ASetV':
            from symex import ASetV
            return ASetV(list(inner.keys), list(inner.present))
        if type(inner).__name__ == 'AMapV':
            from symex import AMapV, ASetV
            clone1 = lambda v: ASetV(list(v.keys), list(v.present)) if type(v).__name__ == 'ASetV' else copy_value(v)
            return AMapV([(k, clone1(v)) for k, v in inner.entries], inner.is_set)
        return copy_value(inner)
    if tb == 'Clone' and method == 'clone_from' and isinstance(args[0], RefV):
        args[0].store(copy_value(unref(args[1])))
        return UnitV()
    if tb == 'Default' and method == 'default' and tyb == 'String':
        return Opaque('""')
    if tb == 'Default' and method == 'default':
        try:
            return default_for(engine, ty)
        except Inconclusive:
            # a crate type: inline its (derived or hand-written) Default impl from the dump
            cands = []
            for f in engine.prog.by_last.get('default', []):
                h = engine.prog.impl_header(f) if f.impl_loc else None
                if h and h[1] == tyb and h[0] in ('derive', 'Default'):
                    cands.append(f)
            if len(cands) == 1:
                return engine.exec_fn(st, cands[0], [])
            raise
    if tb == 'Try' and method == 'branch':
        o = args[0]
        if isinstance(o, EnumV) and tyb == 'Result':
            ok = engine.split_bool(st, o.discr == 0)
            if ok:
                return EnumV('ControlFlow', 0, {0: [(o.payload.get(0) or [UnitV()])[0]]})
            return EnumV('ControlFlow', 1, {1: [EnumV('Result<Infallible, E>', 1, {1: list(o.payload.get(1, []))})]})
        if isinstance(o, EnumV):
            some = engine.split_bool(st, o.discr == 1)
            if some:
                return EnumV('ControlFlow', 0, {0: [o.payload[1][0]]})
            return EnumV('ControlFlow', 1, {1: [EnumV(dest_ty, 0, {})]})
    if tb == 'FromResidual' and method == 'from_residual' and tyb == 'Result':
        r = args[0]
        return EnumV(dest_ty, 1, {1: list(r.payload.get(1, [])) if isinstance(r, EnumV) else []})
    if tb == 'FromResidual' and method == 'from_residual':
        return EnumV(dest_ty, 0, {})
    if tb in ('Iterator', 'DoubleEndedIterator', 'IntoIterator', 'ExactSizeIterator'):
        return iterator_method(engine, st, method, args, dest_ty)
    if tb in ('Index', 'IndexMut') and method in ('index', 'index_mut') and isinstance(args[1], Agg):
        s = seq_of(args[0])
        rng = args[1]
        if rng.ty.endswith('RangeFrom'):
            lo, hi = rng.fields[0].concrete(), seq_len(s)
        elif rng.ty.endswith('RangeTo'):
            lo, hi = 0, rng.fields[0].concrete()
        else:
            lo, hi = rng.fields[0].concrete(), rng.fields[1].concrete()
        if lo is None or hi is None:
            raise Inconclusive('slicing with symbolic bounds')
        if rng.ty == 'RangeInclusive':
            hi += 1
        if hi > seq_len(s) or lo > hi:
            st.panic_if(z3.BoolVal(True), 'slice index out of bounds')
            st.ended = 'panic'
            raise _PathEnds()
        items = s.items if isinstance(s, VecV) else s.fields
        return RefV(Cell(VecV(items[lo:hi])), 0)
    if tb in ('Index', 'IndexMut') and method in ('index', 'index_mut') and type(deref_all(args[0])).__name__ == 'AMapV':
        # HashMap's Index: `map[&key]` panics when the key is absent
        got = amap_method(engine, st, 'get', args, None)
        if z3.is_false(opt_is_some(got)):
            st.panic_if(z3.BoolVal(True), 'HashMap index: key not found')
            st.ended = 'panic'
            raise _PathEnds()
        return got.payload[1][0]
    if tb in ('Index', 'IndexMut') and method in ('index', 'index_mut'):
        s = seq_of(args[0])
        i = args[1].concrete() if isinstance(args[1], IV) else None
        if i is None:
            raise Inconclusive('symbolic index')
        if i >= seq_len(s):
            st.panic_if(z3.BoolVal(True), 'index out of bounds')
            st.ended = 'panic'
            raise _PathEnds()
        return RefV(s, i)
    if tyb == 'f64' and tb in ('Add', 'Sub', 'Mul'):
        return engine.binop(st, tb, args[0], args[1])
    if tb in ('Rem', 'Div') and method in ('rem', 'div') and isinstance(deref_all(args[0]), IV) and isinstance(deref_all(args[1]), IV):
        return engine.binop(st, tb, deref_all(args[0]), deref_all(args[1]))
    if tb in ('Add', 'Sub', 'Mul') and method in ('add', 'sub', 'mul') and isinstance(deref_all(args[0]), IV) and isinstance(deref_all(args[1]), IV):
        # operator impls on (references to) primitive integers: overflow-checked like the plain operator
        return engine.binop(st, tb, deref_all(args[0]), deref_all(args[1]))
    if tb == 'PartialEq' and method in ('eq', 'ne') and isinstance(deref_all(args[0]), (FV, FP, IV, BV)):
        r = engine.binop(st, 'Eq', deref_all(args[0]), deref_all(args[1]))
        return r if method == 'eq' else BV(zs(z3.Not(r.t)))
    if tb == 'PartialOrd' and isinstance(deref_all(args[0]), (FV, FP, IV)) and method in ('lt', 'le', 'gt', 'ge'):
        return engine.binop(st, {'lt': 'Lt', 'le': 'Le', 'gt': 'Gt', 'ge': 'Ge'}[method], deref_all(args[0]), deref_all(args[1]))
    if tb == 'Ord' and method in ('max', 'min') and isinstance(args[0], IV):
        a, b = args
        c = a.t <= b.t
        return IV(zs(z3.If(c, b.t, a.t) if method == 'max' else z3.If(c, a.t, b.t)), a.ty)
    if tb == 'Ord' and method == 'clamp' and isinstance(args[0], IV):
        x, lo, hi = args
        st.panic_if(zs(lo.t > hi.t), 'clamp: min > max')
        return IV(zs(z3.If(x.t < lo.t, lo.t, z3.If(x.t > hi.t, hi.t, x.t))), x.ty)
    if tb == 'Ord' and method == 'cmp' and isinstance(deref_all(args[0]), IV):
        a, b = deref_all(args[0]), deref_all(args[1])
        return EnumV('Ordering', zs(z3.If(a.t < b.t, -1, z3.If(a.t == b.t, 0, 1))), {})
    if tb in ('ToString', 'ToOwned') and method in ('to_string', 'to_owned'):
        v = deref_all(args[0])
        return v if isinstance(v, Opaque) else Opaque(str(v))
    if tyb == 'String' and tb == 'Default':
        return Opaque('""')
    if tyb in ('String', 'str') and tb == 'PartialEq' and method in ('eq', 'ne'):
        a, b = deref_all(args[0]), deref_all(args[1])
        if isinstance(a, Opaque) and isinstance(b, Opaque):
            t = a.name == b.name
            return BV(t if method == 'eq' else not t)
        for x, y in ((a, b), (b, a)):
            # a string of which only "is it this literal?" is known (symbolic flag)
            if isinstance(x, Agg) and x.ty.startswith('StrIs:') and isinstance(y, Opaque):
                if y.name != x.ty[len('StrIs:'):]:
                    raise Inconclusive(f'comparison of a flag string {x.ty} with {y.name}')
                t = x.fields[0].t
                return BV(zs(t if method == 'eq' else z3.Not(t)))
        if isinstance(a, Agg) and isinstance(b, Agg) and a.ty == b.ty == 'FormattedTime':
            # strings produced by an (injective) formatting stub: equal iff the formatted values are equal
            x, y = a.fields[0], b.fields[0]
            t = zs(z3.And(x.m == y.m, z3.Or(x.m, x.v == y.v)))
            return BV(t if method == 'eq' else zs(z3.Not(t)))
    if tb == 'From' and method == 'from':
        return args[0]
    if tb == 'Into' and method == 'into':
        if 'TinyVec' in (trait or '') or 'Vec<' in (trait or ''):
            s = seq_of(args[0])
            return VecV([copy_value(x) for x in (s.items if isinstance(s, VecV) else s.fields)])
        return args[0]
    if tb == 'Extend' and method == 'extend':
        target = deref_all(args[0])
        it = iterator_method(engine, st, 'into_iter', [args[1]], '')
        if isinstance(target, VecV):
            target.items.extend(it.items)
            return UnitV()
        if type(target).__name__ == 'AMapV':
            for x in it.items:
                if target.is_set:
                    amap_method(engine, st, 'insert', [args[0], x], None)
                else:
                    amap_method(engine, st, 'insert', [args[0], x.fields[0], x.fields[1]], None)
            return UnitV()
        raise Inconclusive(f'Extend on {target!r}')
    if tb == 'FromIterator' and method == 'from_iter':
        it = iterator_method(engine, st, 'into_iter', [args[0]], '')
        return VecV(list(it.items))
    if tyb == 'Option' and tb == 'PartialEq' and method in ('eq', 'ne'):
        def veq(a, b):
            ra, rb = a, b
            a, b = deref_all(a), deref_all(b)
            if isinstance(a, ArcV) and isinstance(b, ArcV):
                raise Inconclusive('structural equality of Arc payloads inside an Option')
            uty = base_type(getattr(a, 'ty', '') or '') if isinstance(a, (EnumV, Agg)) else None
            if uty and uty not in ('Option', 'Result', 'Ordering'):
                # a crate type with its own PartialEq impl (e.g. Job: pointer identity of the Arc payload): run it
                fns = engine.prog.find_method(uty, 'eq', trait='PartialEq')
                if len(fns) == 1:
                    as_ref = lambda v, d: v if isinstance(v, RefV) else RefV(Cell(d), 0)
                    return engine.exec_fn(st, fns[0], [as_ref(ra, a), as_ref(rb, b)]).t
            if isinstance(a, Opaque) and isinstance(b, Opaque):
                return z3.BoolVal(a.name == b.name)
            if isinstance(a, EnumV) and isinstance(b, EnumV):
                conds = [a.discr == b.discr]
                for k in set(a.payload) & set(b.payload):
                    inner = [veq(x, y) for x, y in zip(a.payload[k], b.payload[k])]
                    if inner:
                        conds.append(z3.Implies(a.discr == k, z3.And(*inner)))
                return z3.And(*conds)
            if isinstance(a, (IV, BV)) and isinstance(b, (IV, BV)):
                return a.t == b.t
            if isinstance(a, FV) and isinstance(b, FV):
                return z3.And(a.m == b.m, z3.Or(a.m, a.v == b.v))
            raise Inconclusive(f'structural equality of {a!r} and {b!r}')
        t = zs(veq(deref_all(args[0]), deref_all(args[1])))
        return BV(t if method == 'eq' else zs(z3.Not(t)))
    if tyb == 'Arc' and tb == 'PartialEq' and method in ('eq', 'ne'):
        # Arc<T>: PartialEq delegates to T (for Actor that is address identity, std::ptr::eq)
        inner = re.sub(r'^(std::sync::)?Arc<(.*)>$', r'\2', ty.strip())
        fns = engine.prog.find_method(base_type(inner), 'eq', trait='PartialEq')
        if len(fns) == 1:
            a, b = deref_all(args[0]), deref_all(args[1])
            if isinstance(a, ArcV) and isinstance(b, ArcV):
                r = engine.exec_fn(st, fns[0], [RefV(a.cell, 0), RefV(b.cell, 0)])
                return r if method == 'eq' else BV(zs(z3.Not(r.t)))
    if tyb == 'Option' and tb == 'PartialOrd' and method in ('lt', 'le', 'gt', 'ge'):
        # derived order of Option: None < Some(_); Some compared by payload (integers only here)
        a, b = option_arg(args[0]), option_arg(args[1])
        sa, sb = opt_is_some(a), opt_is_some(b)
        pa = deref_all(a.payload[1][0]).t if 1 in a.payload else z3.IntVal(0)
        pb = deref_all(b.payload[1][0]).t if 1 in b.payload else z3.IntVal(0)
        lt = z3.Or(z3.And(z3.Not(sa), sb), z3.And(sa, sb, pa < pb))
        eq = z3.Or(z3.And(z3.Not(sa), z3.Not(sb)), z3.And(sa, sb, pa == pb))
        t = {'lt': lt, 'le': z3.Or(lt, eq), 'gt': z3.Not(z3.Or(lt, eq)), 'ge': z3.Not(lt)}[method]
        return BV(zs(t))
    if ty.strip().startswith('(') and tb == 'PartialEq' and method in ('eq', 'ne'):
        # tuples of plain values (strings, integers): component-wise structural equality
        t = zs(value_eq(deref_all(args[0]), deref_all(args[1])))
        return BV(t if method == 'eq' else zs(z3.Not(t)))
    if tyb == 'Ordering' and tb == 'PartialEq' and method in ('eq', 'ne'):
        a, b = deref_all(args[0]), deref_all(args[1])
        t = a.discr == b.discr
        return BV(zs(t if method == 'eq' else z3.Not(t)))
    if tb == 'PartialOrd' and method in ('lt', 'le', 'gt', 'ge') and not isinstance(deref_all(args[0]), (FV, FP, IV)):
        # provided methods of PartialOrd on a user type: defined through its partial_cmp
        fns = engine.prog.find_method(tyb, 'partial_cmp', trait='PartialOrd')
        if len(fns) == 1:
            a0, a1 = args[0], args[1]
            if ty.strip().startswith('&'):
                # `impl PartialOrd<&B> for &A` forwards to the impl of the referents
                a0, a1 = a0.load(), a1.load()
            o = engine.exec_fn(st, fns[0], [a0, a1])
            if isinstance(o, EnumV) and o.variant() == 0:
                return BV(False)            # partial_cmp == None: every comparison operator answers false
            if isinstance(o, EnumV) and o.payload.get(1):
                d = o.payload[1][0].discr
                some = o.discr == 1
                t = {'lt': d == -1, 'le': d != 1, 'gt': d == 1, 'ge': d != -1}[method]
                return BV(zs(z3.And(some, t)))
    return NotImplemented


def iterator_method(engine, st, method, args, dest_ty):
    if method in ('into_iter', 'iter') and type(deref_all(args[0])).__name__ == 'AMapV':
        return amap_method(engine, st, 'into_iter' if method == 'into_iter' else 'iter', args, dest_ty)
    if method in ('into_iter', 'iter') and type(deref_all(args[0])).__name__ == 'ASetV':
        return aset_method(engine, st, 'iter', args, dest_ty)
    if method == 'into_iter':
        v = args[0]
        if isinstance(v, VecV):
            return IterV(list(v.items))
        if isinstance(deref_all(v), IterV):
            return deref_all(v)
        if isinstance(v, EnumV) and 'Option' in v.ty.split('<')[0]:
            # Option<T> as IntoIterator: zero or one item
            var = v.variant()
            if var is None:
                var = 1 if engine.split_bool(st, v.discr == 1) else 0
            return IterV([v.payload[1][0]] if var == 1 else [])
        try:
            return as_iter(v)
        except Inconclusive:
            s = seq_of(v)
            n = seq_len(s)
            byref = isinstance(v, RefV)
            return IterV([RefV(s, i) if byref else s.get(i) for i in range(n)])
    if method == 'try_fold' and isinstance(deref_all(args[0]), Agg) and deref_all(args[0]).ty.endswith('RangeFrom'):
        # `(0..).try_fold(..)`: runs until the closure breaks (bounded by a step limit)
        acc = args[1]
        clo = args[2]
        holder = RefV(Cell(clo), 0, True) if not isinstance(clo, RefV) else clo
        start = deref_all(args[0]).fields[0]
        i = start.concrete()
        for step in range(64):
            r = engine.call_closure(st, holder, [acc, IV(i + step, start.ty)])
            v = r.variant()
            if v is None:
                v = 0 if engine.split_bool(st, r.discr == 0) else 1
            if v == 1:
                return EnumV(dest_ty or 'ControlFlow', 1, {1: [r.payload[1][0]]})
            acc = r.payload[0][0]
        raise Inconclusive('unbounded try_fold did not terminate within 64 steps')
    if method == 'zip' and isinstance(deref_all(args[0]), Agg) and deref_all(args[0]).ty.endswith('RangeFrom'):
        # `(n..).zip(iter)`: as long as the other side
        lo = deref_all(args[0]).fields[0]
        other = iterator_method(engine, st, 'into_iter', [args[1]], '')
        return IterV([Agg('tuple', [IV(lo.concrete() + i, lo.ty), b]) for i, b in enumerate(other.items)])
    it = as_iter(args[0])
    if method == 'skip':
        n = args[1].concrete()
        if n is None:
            raise Inconclusive('skip(n) with symbolic n')
        return IterV(it.items[n:])
    if method == 'take':
        n = args[1].concrete()
        if n is None:
            raise Inconclusive('take(n) with symbolic n')
        return IterV(it.items[:n])
    if method == 'rev':
        return IterV(list(reversed(it.items)))
    if method == 'enumerate':
        return IterV([Agg('tuple', [IV(i), x]) for i, x in enumerate(it.items)])
    if method == 'zip' and isinstance(args[1], Agg) and args[1].ty.endswith('RangeFrom'):
        lo = args[1].fields[0].concrete()
        return IterV([Agg('tuple', [a, IV(lo + i)]) for i, a in enumerate(it.items)])
    if method == 'zip':
        other = iterator_method(engine, st, 'into_iter', [args[1]], '')
        return IterV([Agg('tuple', [a, b]) for a, b in zip(it.items, other.items)])
    if method == 'chain':
        other = iterator_method(engine, st, 'into_iter', [args[1]], '')
        return IterV(it.items + other.items)
    if method == 'copied' or method == 'cloned':
        return IterV([copy_value(deref_all(x)) if isinstance(x, RefV) else x for x in it.items])
    if method in ('count', 'len'):
        return IV(len(it.items))
    if method == 'collect' and dest_ty and base_type(dest_ty) == 'HashMap' and getattr(engine.env, 'symbolic_maps', False):
        from symex import AMapV
        return AMapV([(deref_all(t.fields[0]) if isinstance(t.fields[0], RefV) else t.fields[0], t.fields[1]) for t in it.items])
    if method == 'collect' and dest_ty and base_type(dest_ty) == 'HashSet' and getattr(engine.env, 'symbolic_maps', False):
        from symex import AMapV
        keys = []
        for x in it.items:
            k = deref_all(x) if isinstance(x, RefV) else x
            if not any(engine.split_bool(st, zs(value_eq(k, o))) for o in keys):
                keys.append(k)
        return AMapV([(k, UnitV()) for k in keys], is_set=True)
    if method == 'collect':
        tb_ = base_type(dest_ty) if dest_ty else 'Vec'
        if tb_ not in ('Vec', 'TinyVec', ''):
            fns = engine.prog.find_method(tb_, 'from_iter', trait='FromIterator')
            if len(fns) == 1:
                return engine.exec_fn(st, fns[0], [it])
            raise Inconclusive(f'collect into {dest_ty}')
        return VecV(list(it.items))
    if method == 'map':
        return IterV([engine.call_closure(st, args[1], [x]) for x in it.items])
    if method == 'flat_map':
        out = []
        for x in it.items:
            inner = engine.call_closure(st, args[1], [x])
            out.extend(iterator_method(engine, st, 'into_iter', [inner], '').items)
        return IterV(out)
    if method == 'filter':
        out = []
        for x in it.items:
            r = engine.call_closure(st, args[1], [RefV(Cell(x), 0)])
            if engine.split_bool(st, r.t):
                out.append(x)
        return IterV(out)
    if method in ('position', 'rposition'):
        idxs = range(len(it.items)) if method == 'position' else range(len(it.items) - 1, -1, -1)
        for i in idxs:
            r = engine.call_closure(st, args[1], [it.items[i]])
            if engine.split_bool(st, r.t):
                return mk_option(True, IV(i), ty=dest_ty)
        return mk_option(False, ty=dest_ty)
    if method == 'filter_map':
        out = []
        for x in it.items:
            r = engine.call_closure(st, args[1], [x])
            v = r.variant()
            if v is None:
                v = 1 if engine.split_bool(st, r.discr == 1) else 0
            if v == 1:
                out.append(r.payload[1][0])
        return IterV(out)
    if method == 'fold':
        acc = args[1]
        clo = args[2]
        holder = RefV(Cell(clo), 0, True) if not isinstance(clo, RefV) else clo
        for x in it.items:
            acc = engine.call_closure(st, holder, [acc, x])
        return acc
    if method in ('find', 'rfind'):
        clo = args[1]
        holder = RefV(Cell(clo), 0, True) if not isinstance(clo, RefV) else clo
        while it.items:
            x = it.items.pop(0 if method == 'find' else -1)
            r = engine.call_closure(st, holder, [RefV(Cell(x), 0)])
            if engine.split_bool(st, r.t):
                return mk_option(True, x, ty=dest_ty)
        return mk_option(False, ty=dest_ty)
    if method == 'nth':
        n = args[1].concrete()
        if n is None:
            raise Inconclusive('nth(n) with symbolic n')
        if n >= len(it.items):
            it.items.clear()
            return mk_option(False, ty=dest_ty)
        x = it.items[n]
        del it.items[:n + 1]
        return mk_option(True, x, ty=dest_ty)
    if method in ('try_fold', 'try_for_each'):
        # R = ControlFlow<B, C> / Result<C, E>: variant 0 continues, variant 1 stops; Option<C>: Some (1) continues, None (0) stops
        is_opt = base_type(dest_ty or '') == 'Option'
        go, stop = (1, 0) if is_opt else (0, 1)
        fold = method == 'try_fold'
        acc = args[1] if fold else UnitV()
        clo = args[2] if fold else args[1]
        holder = RefV(Cell(clo), 0, True) if not isinstance(clo, RefV) else clo
        for x in it.items:
            r = engine.call_closure(st, holder, [acc, x] if fold else [x])
            if not isinstance(r, EnumV):
                raise Inconclusive(f'{method} closure does not return an enum')
            v = r.variant()
            if v is None:
                v = 0 if engine.split_bool(st, r.discr == 0) else 1
            if v == stop:
                return EnumV(dest_ty or 'ControlFlow', stop, {stop: list(r.payload.get(stop, []))})
            acc = (r.payload.get(go) or [UnitV()])[0]
        return EnumV(dest_ty or 'ControlFlow', go, {go: [acc]})
    if method == 'for_each':
        clo = args[1]
        holder = RefV(Cell(clo), 0, True) if not isinstance(clo, RefV) else clo
        for x in it.items:
            engine.call_closure(st, holder, [x])
        return UnitV()
    if method in ('all', 'any'):
        clo = args[1]
        holder = RefV(Cell(clo), 0, True) if not isinstance(clo, RefV) else clo
        for x in it.items:
            r = engine.call_closure(st, holder, [x])
            b = engine.split_bool(st, r.t)
            if method == 'all' and not b:
                return BV(False)
            if method == 'any' and b:
                return BV(True)
        return BV(method == 'all')
    if method == 'next':
        if not it.items:
            return mk_option(False, ty=dest_ty)
        x = it.items.pop(0)
        return mk_option(True, x, ty=dest_ty)
    if method in ('max', 'min') and all(isinstance(deref_all(x), IV) for x in it.items):
        if not it.items:
            return mk_option(False, ty=dest_ty)
        best = it.items[0]
        for x in it.items[1:]:
            a, b = deref_all(best), deref_all(x)
            take_b = (b.t >= a.t) if method == 'max' else (b.t < a.t)
            v = IV(zs(z3.If(take_b, b.t, a.t)), a.ty)
            best = RefV(Cell(v), 0) if isinstance(best, RefV) else v
        return mk_option(True, best, ty=dest_ty)
    if method == 'sum' and dest_ty and base_type(dest_ty) not in ('f64', 'usize', 'i32', 'i64', 'u64', 'u32', 'isize', ''):
        # a crate type: its own `impl Sum` from the dump (of this crate or of a sibling crate)
        tyb = base_type(dest_ty)
        for e in [engine] + [x for x in getattr(engine, 'siblings', {}).values() if x is not engine]:
            fns = e.prog.find_method(tyb, 'sum', trait='Sum')
            if len(fns) == 1:
                return e.exec_fn(st, fns[0], [it])
        raise Inconclusive(f'Sum impl of {dest_ty} not found')
    if method == 'sum':
        acc = None
        for x in it.items:
            acc = x if acc is None else engine.binop(st, 'Add', acc, x)
        return acc if acc is not None else default_for(engine, dest_ty)
    raise Inconclusive(f'iterator method {method}')


def std_path(engine, st, name, args, dest_ty):
    segs = name.split('::')
    last = segs[-1]
    # ---- bool::then / then_some
    if '<impl bool>' in name and last in ('then', 'then_some'):
        b = deref_all(args[0])
        if engine.split_bool(st, b.t):
            return mk_option(True, engine.call_closure(st, args[1], []) if last == 'then' else args[1], ty=dest_ty)
        return mk_option(False, ty=dest_ty)
    # ---- f64 intrinsics: `core::f64::<impl f64>::max`
    if '<impl f64>' in name and isinstance(deref_all(args[0]), FP):
        import symex as _sx
        x = deref_all(args[0]).t
        y = deref_all(args[1]).t if len(args) > 1 and isinstance(deref_all(args[1]), FP) else None
        F64 = _sx.F64
        if last == 'max':
            # Rust: NaN is ignored; the sign of a zero result is unspecified (z3 fpMax models exactly that)
            return FP(z3.If(z3.fpIsNaN(x), y, z3.If(z3.fpIsNaN(y), x, z3.fpMax(x, y))))
        if last == 'min':
            return FP(z3.If(z3.fpIsNaN(x), y, z3.If(z3.fpIsNaN(y), x, z3.fpMin(x, y))))
        if last == 'abs':
            return FP(z3.fpAbs(x))
        if last == 'sqrt':
            return FP(z3.fpSqrt(_sx.RNE, x))
        if last == 'powi':
            n = args[1].concrete()
            if n == 2:
                return FP(z3.fpMul(_sx.RNE, x, x))
            raise Inconclusive(f'powi with exponent {n}')
        if last == 'total_cmp':
            kx, ky = _sx.fp_total_key(x), _sx.fp_total_key(y)
            return EnumV('Ordering', zs(z3.If(kx < ky, -1, z3.If(kx == ky, 0, 1))), {})
        if last == 'is_nan':
            return BV(zs(z3.fpIsNaN(x)))
        if last == 'is_infinite':
            return BV(zs(z3.fpIsInf(x)))
        if last == 'is_finite':
            return BV(zs(z3.And(z3.Not(z3.fpIsNaN(x)), z3.Not(z3.fpIsInf(x)))))
        if last == 'round':
            return FP(z3.fpRoundToIntegral(z3.RNA(), x))
        if last == 'clamp':
            lo, hi = deref_all(args[1]).t, deref_all(args[2]).t
            return FP(z3.If(z3.fpLT(x, lo), lo, z3.If(z3.fpGT(x, hi), hi, x)))
        if last == 'is_sign_negative':
            return BV(zs(z3.fpIsNegative(x)))
        raise Inconclusive(f'f64::{last} has no IEEE model here')
    if '<impl f64>' in name:
        a = args[0]
        if last == 'max':
            return f_max(a, args[1])
        if last == 'min':
            return f_min(a, args[1])
        if last == 'abs':
            return f_abs(st, a)
        if last == 'total_cmp':
            x, y = deref_all(args[0]), deref_all(args[1])
            return EnumV('Ordering', zs(z3.If(f_lt(x, y), -1, z3.If(f_eq(x, y), 0, 1))), {})
        if last in ('is_nan', 'is_infinite'):
            return BV(False)
        if last == 'is_finite':
            return BV(True)
        if last == 'is_sign_negative':
            # exact-int doubles: the sign bit is set iff the value is below zero (-0.0 is not in the domain: stated)
            x = deref_all(a)
            return BV(zs(z3.And(z3.Not(x.m), x.v < 0)))
        raise Inconclusive(f'f64::{last} is outside the exact-int back end')
    if ('<impl i64>' in name or '<impl i32>' in name or '<impl isize>' in name) and last == 'abs':
        a = args[0]
        lo = {'i64': -2 ** 63, 'i32': -2 ** 31, 'isize': -2 ** 63}.get(a.ty, -2 ** 63)
        st.panic_if(zs(a.t == lo), 'attempt to negate with overflow (abs of MIN)')
        return IV(zs(z3.If(a.t < 0, -a.t, a.t)), a.ty)
    if '<impl usize>' in name or '<impl i32>' in name or '<impl u64>' in name or '<impl i64>' in name:
        if last in ('max', 'min'):
            a, b = args
            c = a.t <= b.t
            return IV(zs(z3.If(c, b.t, a.t) if last == 'max' else z3.If(c, a.t, b.t)), a.ty)
        if last == 'checked_sub':
            a, b = args
            ok = engine.split_bool(st, a.t >= b.t)
            return mk_option(True, IV(zs(a.t - b.t), a.ty), ty=dest_ty) if ok else mk_option(False, ty=dest_ty)
        if last == 'saturating_sub':
            a, b = args
            return IV(zs(z3.If(a.t >= b.t, a.t - b.t, 0)), a.ty)
    first = segs[0]
    # ---- Result
    if first == 'Result' or (len(segs) >= 2 and segs[-2] == 'Result'):
        return result_method(engine, st, last, args, dest_ty)
    # ---- Option
    if first == 'Option' or (len(segs) >= 2 and segs[-2] == 'Option'):
        return option_method(engine, st, last, args, dest_ty)
    # ---- Vec / slices (TinyVec is modelled as a plain sequence: its inline/heap switch is not the subject)
    if first in ('Vec', 'TinyVec') or '<impl [' in name or (len(segs) >= 2 and segs[-2] in ('Vec', 'TinyVec')):
        return seq_method(engine, st, last, args, dest_ty)
    if ('HashMap' in name or 'HashSet' in name) and args and type(deref_all(args[0])).__name__ == 'AMapV':
        return amap_method(engine, st, last, args, dest_ty)
    if 'HashSet' in name and args and type(deref_all(args[0])).__name__ == 'ASetV':
        return aset_method(engine, st, last, args, dest_ty)
    if 'HashMap' in name and last == 'get':
        from symex import MapV
        mp = deref_all(args[0])
        key = deref_all(args[1])
        if isinstance(mp, MapV) and isinstance(key, IV) and key.concrete() is not None:
            k = key.concrete()
            if k in mp.table:
                return mk_option(True, RefV(mp, k), ty=dest_ty)
            return mk_option(False, ty=dest_ty)
        raise Inconclusive(f'hash map lookup {name}')
    if args and isinstance(args[0], Agg) and args[0].kind == 'hash_entry' and last in ('or_insert_with', 'or_default', 'or_insert'):
        mp, key = args[0].fields
        for i, (k, _) in enumerate(mp.entries):
            if engine.split_bool(st, zs(value_eq(k, key))):
                return RefV(mp, i, True)
        if last == 'or_insert_with':
            v = engine.call_closure(st, args[1], [])
        elif last == 'or_insert':
            v = args[1]
        else:
            v = default_for(engine, re.sub(r'^&mut\s+', '', (dest_ty or '').strip()))
        mp.entries.append((key, v))
        return RefV(mp, len(mp.entries) - 1, True)
    if ('HashSet' in name or 'HashMap' in name) and last in ('with_hasher', 'with_capacity_and_hasher') and getattr(engine.env, 'symbolic_maps', False):
        from symex import AMapV
        return AMapV(is_set='HashSet' in name)
    if ('HashSet' in name or 'HashMap' in name) and last in ('new', 'default', 'with_capacity') and getattr(engine.env, 'symbolic_maps', False) \
            and not (args and type(deref_all(args[0])).__name__ in ('AMapV', 'ASetV')):
        from symex import AMapV
        return AMapV(is_set='HashSet' in name.split('::')[-2] if len(segs) >= 2 else 'HashSet' in name)
    if 'HashSet' in name or 'HashMap' in name:
        s = deref_all(args[0])
        if isinstance(s, SetV):
            if last == 'is_empty':
                return BV(zs(s.size == 0))
            if last == 'len':
                return IV(s.size)
            if last == 'insert':
                # abstraction: the set is only observed through its size / emptiness; inserting a new job grows it
                s2 = SetV(zs(s.size + 1))
                holder = args[0]
                if isinstance(holder, RefV):
                    holder.store(s2)
                return BV(True)
        raise Inconclusive(f'hash container call {name}')
    if name in ('std::mem::drop', 'drop', 'core::mem::drop'):
        return UnitV()
    if name.endswith('String::new') or name == 'String::default':
        return Opaque('""')
    if name.endswith('str>::as_str') or name.endswith('String::as_str'):
        return args[0]
    if name.endswith('vec::from_elem'):
        n = args[1].concrete()
        if n is None:
            raise Inconclusive('vec![x; n] with symbolic n')
        return VecV([copy_value(args[0]) for _ in range(n)])
    if name.endswith('RangeInclusive::new'):
        return Agg('struct', [args[0], args[1]], 'RangeInclusive')
    if name.endswith('new_uninit'):
        from symex import Uninit
        return ArcV(Cell(Uninit()))
    if 'box_assume_init_into_vec_unsafe' in name:
        arr = args[0].cell.v if isinstance(args[0], ArcV) else deref_all(args[0])
        return VecV(list(arr.fields))
    if name in ('std::ptr::eq', 'core::ptr::eq', 'ptr::eq'):
        ca, cb = _identity_cell(args[0]), _identity_cell(args[1])
        if ca is None or cb is None:
            raise Inconclusive('ptr::eq on values without a heap identity')
        return BV(ca is cb)
    if name.endswith('Arc::ptr_eq'):
        a, b = deref_all(args[0]), deref_all(args[1])
        if isinstance(a, ArcV) and isinstance(b, ArcV):
            return BV(a.cell is b.cell)
        raise Inconclusive('Arc::ptr_eq on non-Arc values')
    if name.endswith('Arc::new') or name.endswith('Box::new'):
        return ArcV(Cell(args[0]))
    if name.endswith('::iter::once') or name == 'once':
        return IterV([args[0]])
    return NotImplemented


def result_method(engine, st, method, args, dest_ty):
    r = args[0]
    while isinstance(r, RefV):
        r = r.load()
    if not isinstance(r, EnumV):
        raise Inconclusive(f'Result method on {r!r}')
    if method in ('is_ok', 'is_err'):
        return BV(zs(r.discr == (0 if method == 'is_ok' else 1)))
    ok = r.variant()
    if ok is None:
        ok = 0 if engine.split_bool(st, r.discr == 0) else 1
    is_ok = ok == 0
    val = (r.payload.get(ok) or [UnitV()])[0]
    if method == 'map':
        return EnumV(dest_ty or 'Result', 0, {0: [engine.call_closure(st, args[1], [val])]}) if is_ok else EnumV(dest_ty or 'Result', 1, {1: [val]})
    if method == 'map_err':
        return EnumV(dest_ty or 'Result', 0, {0: [val]}) if is_ok else EnumV(dest_ty or 'Result', 1, {1: [engine.call_closure(st, args[1], [val])]})
    if method == 'and_then':
        return engine.call_closure(st, args[1], [val]) if is_ok else EnumV(dest_ty or 'Result', 1, {1: [val]})
    if method == 'ok':
        return mk_option(True, val, ty=dest_ty) if is_ok else mk_option(False, ty=dest_ty)
    if method == 'err':
        return mk_option(False, ty=dest_ty) if is_ok else mk_option(True, val, ty=dest_ty)
    if method in ('unwrap', 'expect'):
        if not is_ok:
            st.panic_if(z3.BoolVal(True), f'Result::{method} on Err')
            st.ended = 'panic'
            from symex import _PathEnds
            raise _PathEnds()
        return val
    if method == 'unwrap_or':
        return val if is_ok else args[1]
    raise Inconclusive(f'Result::{method}')


def option_method(engine, st, method, args, dest_ty):
    o = option_arg(args[0])
    byref = isinstance(args[0], RefV)
    if method == 'is_some':
        return BV(opt_is_some(o))
    if method == 'is_none':
        return BV(zs(z3.Not(opt_is_some(o))))
    if method in ('unwrap', 'expect'):
        st.panic_if(z3.Not(opt_is_some(o)), 'unwrap on None')
        ok = engine.split_bool(st, opt_is_some(o)) if not is_true(opt_is_some(o)) else True
        if not ok:
            st.ended = 'panic'
            raise _PathEnds()
        return o.payload[1][0]
    if method in ('copied', 'cloned'):
        some = opt_is_some(o)
        if z3.is_false(some):
            return mk_option(False, ty=dest_ty)
        inner = o.payload[1][0]
        v = copy_value(deref_all(inner)) if method == 'copied' or not isinstance(deref_all(inner), ArcV) else deref_all(inner)
        return EnumV(dest_ty or 'Option', o.discr, {1: [v]})
    if method == 'as_ref' or method == 'as_mut' or method == 'as_deref':
        some = opt_is_some(o)
        if z3.is_false(some):
            return mk_option(False, ty=dest_ty)
        if not byref:
            raise Inconclusive('Option::as_ref on a value')
        inner_ref = RefV(o, (1, 0))
        if method == 'as_deref':
            iv = o.payload[1][0]
            if isinstance(iv, ArcV):
                inner_ref = RefV(iv.cell, 0)
        return EnumV(dest_ty or 'Option', o.discr, {1: [inner_ref]})
    if method in ('or', 'or_else'):
        some = engine.split_bool(st, opt_is_some(o))
        if some:
            return EnumV(dest_ty or o.ty or 'Option', 1, {1: [o.payload[1][0]]})
        return args[1] if method == 'or' else engine.call_closure(st, args[1], [])
    if method in ('unwrap_or', 'unwrap_or_default', 'unwrap_or_else'):
        some = opt_is_some(o)
        if z3.is_true(some):
            return o.payload[1][0]

        def fallback():
            if method == 'unwrap_or':
                return args[1]
            if method == 'unwrap_or_default':
                return default_for(engine, dest_ty)
            return engine.call_closure(st, args[1], [])
        if z3.is_false(some):
            return fallback()
        if method != 'unwrap_or_else':
            merged = ite_value(some, o.payload[1][0], fallback())
            if merged is not None:
                return merged
        if engine.split_bool(st, some):
            return o.payload[1][0]
        return fallback()
    if method in ('is_some_and', 'is_none_or'):
        some = engine.split_bool(st, opt_is_some(o))
        if not some:
            return BV(method == 'is_none_or')
        return engine.call_closure(st, args[1], [o.payload[1][0]])
    if method in ('map', 'and_then'):
        some = engine.split_bool(st, opt_is_some(o))
        if not some:
            return mk_option(False, ty=dest_ty)
        r = engine.call_closure(st, args[1], [o.payload[1][0]])
        return r if method == 'and_then' else mk_option(True, r, ty=dest_ty)
    if method == 'flatten':
        some = engine.split_bool(st, opt_is_some(o))
        if not some:
            return mk_option(False, ty=dest_ty)
        return option_arg(o.payload[1][0])
    if method == 'map_or':
        some = engine.split_bool(st, opt_is_some(o))
        if not some:
            return args[1]
        return engine.call_closure(st, args[2], [o.payload[1][0]])
    if method == 'map_or_else':
        some = engine.split_bool(st, opt_is_some(o))
        if not some:
            return engine.call_closure(st, args[1], [])
        return engine.call_closure(st, args[2], [o.payload[1][0]])
    if method == 'zip':
        o2 = option_arg(args[1])
        both = zs(z3.And(opt_is_some(o), opt_is_some(o2)))
        if z3.is_false(both):
            return mk_option(False, ty=dest_ty)
        tup = Agg('tuple', [o.payload[1][0], o2.payload[1][0]])
        return EnumV(dest_ty or 'Option', zs(z3.If(both, 1, 0)), {1: [tup]})
    if method == 'ok_or' or method == 'ok_or_else':
        some = engine.split_bool(st, opt_is_some(o))
        if some:
            return EnumV(dest_ty or 'Result', 0, {0: [o.payload[1][0]]})
        return EnumV(dest_ty or 'Result', 1, {1: [args[1]]})
    if method == 'filter':
        some = engine.split_bool(st, opt_is_some(o))
        if not some:
            return mk_option(False, ty=dest_ty)
        r = engine.call_closure(st, args[1], [RefV(o, (1, 0))])
        return o if engine.split_bool(st, r.t) else mk_option(False, ty=dest_ty)
    if method == 'take':
        taken = EnumV(o.ty or dest_ty, o.discr, {k: list(v) for k, v in o.payload.items()})
        o.discr = z3.IntVal(0)
        o.payload = {}
        return taken
    if method == 'iter':
        some = engine.split_bool(st, opt_is_some(o))
        return IterV([RefV(o, (1, 0))] if some else [])
    raise Inconclusive(f'Option::{method}')


def seq_method(engine, st, method, args, dest_ty):
    if method in ('new',):
        return VecV([])
    if method == 'with_capacity':
        return VecV([])
    s = seq_of(args[0])
    if method in ('as_slice', 'as_mut_slice'):
        return args[0]
    if method == 'push':
        s.items.append(args[1])
        return UnitV()
    if method == 'insert' and isinstance(s, VecV):
        i = args[1].concrete()
        if i is None:
            # symbolic index: one path per position (and one for the out-of-bounds panic)
            i = engine.choose(st, [(args[1].t == j, j) for j in range(len(s.items) + 1)] + [(args[1].t > len(s.items), len(s.items) + 1)])
        if i > len(s.items):
            st.panic_if(z3.BoolVal(True), 'Vec::insert index out of bounds')
            st.ended = 'panic'
            raise _PathEnds()
        s.items.insert(i, args[2])
        return UnitV()
    if method == 'remove' and isinstance(s, VecV):
        i = args[1].concrete()
        if i is None:
            i = engine.choose(st, [(args[1].t == j, j) for j in range(len(s.items))] + [(args[1].t >= len(s.items), len(s.items))])
        if i >= len(s.items):
            st.panic_if(z3.BoolVal(True), 'Vec::remove index out of bounds')
            st.ended = 'panic'
            raise _PathEnds()
        return s.items.pop(i)
    if method == 'drain' and isinstance(s, VecV):
        rng = deref_all(args[1])
        n_ = len(s.items)
        if isinstance(rng, Agg) and rng.ty.endswith('RangeFrom'):
            lo, hi = rng.fields[0].concrete(), n_
        elif isinstance(rng, Agg) and rng.ty.endswith('RangeTo'):
            lo, hi = 0, rng.fields[0].concrete()
        elif isinstance(rng, Agg) and rng.fields and len(rng.fields) == 2:
            lo, hi = rng.fields[0].concrete(), rng.fields[1].concrete()
        else:
            lo, hi = 0, n_          # RangeFull
        if lo is None or hi is None:
            raise Inconclusive('Vec::drain with symbolic bounds')
        if lo > hi or hi > n_:
            st.panic_if(z3.BoolVal(True), 'Vec::drain range out of bounds')
            st.ended = 'panic'
            raise _PathEnds()
        taken = s.items[lo:hi]
        del s.items[lo:hi]
        return IterV(taken)
    if method == 'retain' and isinstance(s, VecV):
        clo = args[1]
        holder = RefV(Cell(clo), 0, True) if not isinstance(clo, RefV) else clo
        kept = []
        for x in list(s.items):
            r = engine.call_closure(st, holder, [RefV(Cell(x), 0)])
            if engine.split_bool(st, r.t):
                kept.append(x)
        s.items[:] = kept
        return UnitV()
    if method == 'pop':
        if not s.items:
            return mk_option(False, ty=dest_ty)
        return mk_option(True, s.items.pop(), ty=dest_ty)
    if method == 'len':
        return IV(seq_len(s))
    if method == 'is_empty':
        return BV(seq_len(s) == 0)
    if method == 'reverse':
        s.items.reverse()
        return UnitV()
    if method in ('get', 'get_mut'):
        i = args[1].concrete() if isinstance(args[1], IV) else None
        if i is None:
            raise Inconclusive('symbolic index in slice::get')
        if i < seq_len(s):
            return mk_option(True, RefV(s, i, method == 'get_mut'), ty=dest_ty)
        return mk_option(False, ty=dest_ty)
    if method == 'binary_search':
        # contract of slice::binary_search on a strictly increasing slice: Ok(i) iff x == s[i], else Err(#elements < x)
        x = deref_all(args[1])
        items = s.items if isinstance(s, VecV) else s.fields
        opts = []
        for i, it in enumerate(items):
            opts.append((x.t == it.t, ('ok', i)))
        for p in range(len(items) + 1):
            conds = []
            if p > 0:
                conds.append(items[p - 1].t < x.t)
            if p < len(items):
                conds.append(x.t < items[p].t)
            opts.append((z3.And(*conds) if conds else z3.BoolVal(True), ('err', p)))
        kind, idx = engine.choose(st, opts)
        return EnumV(dest_ty or 'Result', 0 if kind == 'ok' else 1, {(0 if kind == 'ok' else 1): [IV(idx)]})
    if method in ('first', 'last', 'first_mut', 'last_mut'):
        n = seq_len(s)
        if n == 0:
            return mk_option(False, ty=dest_ty)
        return mk_option(True, RefV(s, 0 if method.startswith('first') else n - 1, method.endswith('_mut')), ty=dest_ty)
    if method in ('iter', 'iter_mut'):
        return IterV([RefV(s, i, method == 'iter_mut') for i in range(seq_len(s))])
    if method == 'windows':
        n = args[1].concrete()
        items = s.items if isinstance(s, VecV) else s.fields
        return IterV([RefV(Cell(VecV([items[j] for j in range(i, i + n)])), 0) for i in range(0, len(items) - n + 1)])
    if method in ('sort_by', 'sort_unstable_by') and isinstance(s, VecV):
        # insertion sort driven by the real comparator (path split on each comparison): the result is the std result whenever the
        # comparator is a total order (std only promises an unspecified order otherwise)
        clo = args[1]
        holder = RefV(Cell(clo), 0, True) if not isinstance(clo, RefV) else clo
        out = []
        for x in s.items:
            pos = len(out)
            for i, y in enumerate(out):
                r = engine.call_closure(st, holder, [RefV(Cell(x), 0), RefV(Cell(y), 0)])
                if engine.split_bool(st, zs(r.discr == -1)):      # x < y: goes before y
                    pos = i
                    break
            out.insert(pos, x)
        s.items[:] = out
        return UnitV()
    if method in ('sort', 'sort_unstable') and isinstance(s, VecV) and s.items and all(isinstance(deref_all(x), IV) for x in s.items):
        # symbolic integers: insertion sort, the path splits on every comparison (the result is THE sorted sequence)
        out = []
        for x in s.items:
            pos = len(out)
            for i, y in enumerate(out):
                if engine.split_bool(st, zs(deref_all(x).t < deref_all(y).t)):
                    pos = i
                    break
            out.insert(pos, x)
        s.items[:] = out
        return UnitV()
    if method in ('sort', 'sort_unstable') and isinstance(s, VecV) and s.items and all(isinstance(deref_all(x), Agg) and deref_all(x).kind == 'tuple' for x in s.items):
        # tuples of strings (known by their text) and concrete integers: lexicographic order
        def k(x):
            out = []
            for f in deref_all(x).fields:
                f = deref_all(f)
                if isinstance(f, Opaque):
                    out.append((0, f.name))
                elif isinstance(f, IV) and f.concrete() is not None:
                    out.append((1, f.concrete()))
                else:
                    raise Inconclusive('sort of tuples with symbolic components')
            return out
        s.items.sort(key=k)
        return UnitV()
    if method in ('sort', 'sort_unstable') and isinstance(s, VecV) and not s.items:
        return UnitV()
    if method in ('sort', 'sort_unstable') and isinstance(s, VecV) and all(isinstance(deref_all(x), Opaque) for x in s.items):
        s.items.sort(key=lambda x: deref_all(x).name)        # strings known by their text
        return UnitV()
    if method in ('chunks', 'chunks_exact'):
        n = args[1].concrete()
        if n is None or n <= 0:
            raise Inconclusive(f'{method} with a symbolic or zero chunk size')
        items = s.items if isinstance(s, VecV) else s.fields
        stop = len(items) - (len(items) % n) if method == 'chunks_exact' else len(items)
        return IterV([RefV(Cell(VecV(list(items[i:min(i + n, stop)]))), 0) for i in range(0, stop, n)])
    if method == 'as_slice':
        return args[0] if isinstance(args[0], RefV) else RefV(Cell(s), 0)
    if method == 'to_vec':
        items = s.items if isinstance(s, VecV) else s.fields
        return VecV([copy_value(x) for x in items])
    if method == 'clear':
        s.items.clear()
        return UnitV()
    raise Inconclusive(f'sequence method {method}')
