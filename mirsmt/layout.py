"""Field-index <-> field-name tables re-read from the struct/enum declarations of /repo's current source, so that the
composition drivers bind inputs by NAME and a reordered or extended declaration cannot silently shift a binding."""
import glob
import os
import re

REPO = os.environ.get('VERIF_REPO', '/repo')   # override: development against a snapshot only


class Layout:
    def __init__(self, crate):
        self.structs = {}   # 'module::Name' and 'Name' (if unique) -> [field names]
        self.enums = {}     # likewise -> [variant names]
        crates = [crate] if isinstance(crate, str) else list(crate)
        self._scan([os.path.join(REPO, c, 'src') for c in crates])

    def _scan(self, roots):
        names_s, names_e = {}, {}
        paths = [p for root in roots for p in glob.glob(os.path.join(root, '**', '*.rs'), recursive=True)]
        for path in paths:
            module = os.path.splitext(os.path.basename(path))[0]
            parent = os.path.basename(os.path.dirname(path))
            if module == 'mod':
                module = os.path.basename(os.path.dirname(path))
                parent = os.path.basename(os.path.dirname(os.path.dirname(path)))
            text = open(path).read()
            text = re.sub(r'//[^\n]*', '', text)
            for m in re.finditer(r'\b(?:pub(?:\([^)]*\))?\s+)?struct\s+(\w+)\s*(?:<[^{;(]*>)?\s*(?:where[^{]*)?\{', text):
                body = self._block(text, m.end() - 1)
                fields = []
                for part in self._split(body):
                    if re.search(r'#\[cfg\(kani\)\]', part):
                        continue    # verification-only twin of a field (container swap hook): not part of the normal build
                    part = re.sub(r'#\[[^\]]*\]', '', part).strip()
                    fm = re.match(r'^(?:pub(?:\([^)]*\))?\s+)?(\w+)\s*:', part)
                    if fm:
                        fields.append(fm.group(1))
                self.structs[f'{parent}::{module}::{m.group(1)}'] = fields
                names_s.setdefault(f'{module}::{m.group(1)}', []).append(fields)
                names_s.setdefault(m.group(1), []).append(fields)
            for m in re.finditer(r'\b(?:pub(?:\([^)]*\))?\s+)?enum\s+(\w+)\s*(?:<[^{;(]*>)?\s*(?:where[^{]*)?\{', text):
                body = self._block(text, m.end() - 1)
                variants = []
                for part in self._split(body):
                    part = re.sub(r'#\[[^\]]*\]', '', part).strip()
                    vm = re.match(r'^(\w+)', part)
                    if vm:
                        variants.append(vm.group(1))
                self.enums[f'{parent}::{module}::{m.group(1)}'] = variants
                names_e.setdefault(f'{module}::{m.group(1)}', []).append(variants)
                names_e.setdefault(m.group(1), []).append(variants)
        for n, lst in names_s.items():
            if len(lst) == 1:
                self.structs[n] = lst[0]
        for n, lst in names_e.items():
            if len(lst) == 1:
                self.enums[n] = lst[0]

    @staticmethod
    def _block(text, open_idx):
        depth = 0
        for i in range(open_idx, len(text)):
            if text[i] == '{':
                depth += 1
            elif text[i] == '}':
                depth -= 1
                if depth == 0:
                    return text[open_idx + 1:i]
        return ''

    @staticmethod
    def _split(body):
        out, depth, cur = [], 0, []
        for i, c in enumerate(body):
            if c in '([{<':
                depth += 1
            elif c in ')]}':
                depth -= 1
            elif c == '>' and not (i > 0 and body[i - 1] in '-='):
                depth -= 1
            if c == ',' and depth == 0:
                out.append(''.join(cur))
                cur = []
            else:
                cur.append(c)
        if ''.join(cur).strip():
            out.append(''.join(cur))
        return out

    def fields(self, name):
        if name not in self.structs:
            raise KeyError(f'struct {name} not found in current source (renamed or ambiguous?)')
        return self.structs[name]

    def variants(self, name):
        if name not in self.enums:
            raise KeyError(f'enum {name} not found in current source (renamed or ambiguous?)')
        return self.enums[name]
