"""Environment bindings and input templates for the MIR->SMT obligations on vrp-core.

Inputs are built BY FIELD NAME against the struct declarations of the current source (layout.py).  Routing is an
uninterpreted, time-independent function (`Dur(from,to)`, `Dist(from,to)`) whose every application is constrained to
the stated value range - locations themselves are fully symbolic integers."""
import re

import z3

from symex import (Agg, ArcV, BV, Cell, DynV, EnumV, FV, IV, Inconclusive, Opaque, RefV, SetV, StateV, UnitV, VecV, zs)
from models import mk_option, deref_all


class Env:
    def __init__(self, prog, layout, value_bits=16):
        self.prog = prog
        self.layout = layout
        self.value_bits = value_bits
        self.bound = 2 ** value_bits
        self.assumptions = []          # global assumptions of the obligation (input domain)
        self.type_subst = {}           # generic parameter -> concrete type, e.g. {'T': 'load::SingleDimLoad'}
        self.state_reads = set()
        self.Dur = z3.Function('Dur', z3.IntSort(), z3.IntSort(), z3.IntSort())
        self.Dist = z3.Function('Dist', z3.IntSort(), z3.IntSort(), z3.IntSort())
        self.activity_cost_type = 'SimpleActivityCost'
        self._closures = None
        self.progs = [prog]            # all programs closures / trait defaults are looked up in (cross-crate: add the siblings)
        self.matrix_apps = set()
        self.allow_negative_matrix = False
        # time-dependent routing: Dur/Dist additionally depend on the time handed over in the TravelTime argument
        self.time_aware = False
        self.DurT = z3.Function('DurT', z3.IntSort(), z3.IntSort(), z3.IntSort(), z3.IntSort())
        self.DistT = z3.Function('DistT', z3.IntSort(), z3.IntSort(), z3.IntSort(), z3.IntSort())

    # -- symbols
    def sym_f(self, name, lo=0, hi=None):
        v = z3.Int(name)
        self.assumptions.append(z3.And(v >= lo, v <= (self.bound if hi is None else hi)))
        return FV(False, v)

    def sym_f_path(self, st, name, lo=0, hi=None):
        """A symbolic value introduced DURING execution (by an environment function): its range is an assumption of the
        path, not of the obligation (env.assumptions is rebuilt by every re-execution)."""
        v = z3.Int(name)
        st.assumed.append(z3.And(v >= lo, v <= (self.bound if hi is None else hi)))
        return FV(False, v)

    def sym_f_or_max(self, name):
        v = z3.Int(name)
        m = z3.Bool(name + '_is_max')
        self.assumptions.append(z3.And(v >= 0, v <= self.bound))
        return FV(m, z3.If(m, 0, v))

    def sym_i(self, name, lo=0, hi=None, ty='usize'):
        v = z3.Int(name)
        self.assumptions.append(z3.And(v >= lo, v <= (self.bound if hi is None else hi)))
        return IV(v, ty)

    def sym_b(self, name):
        return BV(z3.Bool(name))

    # -- hooks used by models.dispatch
    def override(self, engine, st, callee, args, dest_ty):
        if callee.endswith('Activity::retrieve_job'):
            # jobs in the templates are single jobs (no multi-job root link): Some(Job::Single(arc))
            act = deref_all(args[0])
            job = self.field(act, 'route::Activity', 'job')
            if job.variant() == 1:
                return mk_option(True, EnumV('jobs::Job', 0, {0: [job.payload[1][0]]}), ty=dest_ty)
            return mk_option(False, ty=dest_ty)
        if 'collect_group_by_key' in callee and getattr(self, 'symbolic_maps', False):
            # vrp_core::utils::CollectGroupBy: grouping by key (the result map as an association list, groups in first-seen order)
            from symex import AMapV
            from models import iterator_method, value_eq
            it = iterator_method(engine, st, 'into_iter', [args[0]], '')
            groups = []
            for item in it.items:
                key = engine.call_closure(st, args[1], [RefV(Cell(item), 0)])
                for gk, vec in groups:
                    if engine.split_bool(st, zs(value_eq(gk, key))):
                        vec.items.append(item)
                        break
                else:
                    groups.append((key, VecV([item])))
            return AMapV(groups)
        if callee.endswith('load::Load>::ratio'):
            # value/capacity as f64 division: outside the exact-int back end; the result (max-load statistic) is havoc'd and
            # not part of any claim
            self._havoc = getattr(self, '_havoc', 0) + 1
            return FV(False, z3.Int(f'havoc_ratio_{self._havoc}'))
        if callee.endswith('UnwrapValue>::unwrap_value'):
            # rosomaxa::prelude::UnwrapValue for ControlFlow<T, T>: the payload of whichever variant
            cf = args[0]
            v = cf.variant()
            if v is None:
                v = 0 if engine.split_bool(st, cf.discr == 0) else 1
            return cf.payload[v][0]
        return NotImplemented

    def subst_type(self, ty):
        return self.type_subst.get(ty, ty)

    def default_of(self, engine, ty):
        base = ty.split('::')[-1]
        if base == 'SingleDimLoad':
            return self.struct('load::SingleDimLoad', value=IV(0, 'i32'))
        return None

    def note_state_read(self, key):
        self.state_reads.add(key)

    def closure_fn(self, prog, closure_text):
        if self._closures is None:
            self._closures = {}
            for pr in self.progs:
                for name, f in pr.functions.items():
                    if '{closure#' in name:
                        m = re.search(r'\{closure@[^}]*\}', f.header)
                        if m:
                            self._closures.setdefault(m.group(0), f)
        f = self._closures.get(closure_text)
        if f is None:
            raise Inconclusive(f'closure body not found for {closure_text}')
        return f

    def travel_time_term(self, tt):
        """TravelTime::{Arrival,Departure}(t) -> the time as an Int term (the provider only looks at the time, not at the variant)."""
        tt = deref_all(tt)
        if not isinstance(tt, EnumV):
            raise Inconclusive(f'travel time argument {tt!r}')
        v = tt.variant()
        if v is None:
            raise Inconclusive('symbolic TravelTime variant')
        f = tt.payload[v][0]
        return zs(z3.If(f.m, -1, f.v))

    def dur_at(self, a, b, t):
        """reference look-up (z3 terms): duration from a to b when leaving at time t."""
        return self.DurT(a, b, t) if self.time_aware else self.Dur(a, b)

    def dist_at(self, a, b, t):
        return self.DistT(a, b, t) if self.time_aware else self.Dist(a, b)

    def matrix(self, st, fn, a, b, tt=None):
        if self.time_aware and tt is not None:
            fn3 = self.DurT if fn is self.Dur else self.DistT
            t = fn3(a.t, b.t, self.travel_time_term(tt))
            st.assumed.append(z3.And(t >= 0, t <= self.bound))
            return FV(False, t)
        t = fn(a.t, b.t)
        key = (fn.name(), str(zs(a.t)), str(zs(b.t)))
        lo = -self.bound if self.allow_negative_matrix else 0
        st.assumed.append(z3.And(t >= lo, t <= self.bound))
        return FV(False, t)

    def dyn_call(self, engine, st, trait, method, args, dest_ty):
        if trait == 'TransportCost':
            if method in ('duration', 'distance'):
                # (self, route, from, to, travel_time): time-independent routing - the time argument is ignored (stated)
                return self.matrix(st, self.Dur if method == 'duration' else self.Dist, args[2], args[3], args[4] if len(args) > 4 else None)
            if method in ('duration_approx', 'distance_approx'):
                return self.matrix(st, self.Dur if method == 'duration_approx' else self.Dist, args[2], args[3])
            if method == 'cost':
                fn = self._trait_default('TransportCost', 'cost')
                return engine.exec_fn(st, fn, args)
        if trait == 'ActivityCost':
            fns = engine.prog.find_method(self.activity_cost_type, method, trait='ActivityCost')
            if len(fns) == 1:
                return engine.exec_fn(st, fns[0], args)
            fn = self._trait_default('ActivityCost', method)
            return engine.exec_fn(st, fn, args)
        raise Inconclusive(f'dyn call {trait}::{method} is not bound by this obligation')

    def dyn_closure(self, engine, st, tag, args):
        fn = getattr(self, 'closures', {}).get(tag)
        if fn is None:
            raise Inconclusive(f'dyn closure {tag} is not bound by this obligation')
        return fn(engine, st, args)

    def _trait_default(self, trait, method):
        cands = [f for pr in self.progs for name, f in pr.functions.items() if name.endswith(f'{trait}::{method}')]
        if len(cands) != 1:
            raise Inconclusive(f'default method {trait}::{method} not found ({len(cands)})')
        return cands[0]

    # -- templates by field name
    def struct(self, _struct_name, **fields):
        name = _struct_name
        order = self.layout.fields(name)
        if set(order) != set(fields):
            raise Inconclusive(f'struct {name} fields changed: source has {order}, driver binds {sorted(fields)}')
        return Agg('struct', [fields[f] for f in order], name)

    def field(self, agg, struct_name, field):
        return agg.fields[self.layout.fields(struct_name).index(field)]

    def time_window(self, start, end):
        return self.struct('domain::TimeWindow', start=start, end=end)

    def schedule(self, arrival, departure):
        return self.struct('domain::Schedule', arrival=arrival, departure=departure)

    def activity(self, location, duration, tw_start, tw_end, arrival, departure, has_job=True, job=None):
        place = self.struct('route::Place', idx=IV(0), location=location, duration=duration, time=self.time_window(tw_start, tw_end))
        job_v = mk_option(True, job if job is not None else ArcV(Cell(Opaque('Single'))), ty='Option<Arc<Single>>') if has_job \
            else mk_option(False, ty='Option<Arc<Single>>')
        return self.struct('route::Activity', place=place, schedule=self.schedule(arrival, departure), job=job_v,
                           commute=mk_option(False, ty='Option<Commute>'))

    def costs(self, fixed, per_distance, per_driving_time, per_waiting_time, per_service_time):
        return self.struct('fleet::Costs', fixed=fixed, per_distance=per_distance, per_driving_time=per_driving_time,
                           per_waiting_time=per_waiting_time, per_service_time=per_service_time)

    def zero_costs(self):
        z = FV.const(0)
        return self.costs(z, z, z, z, z)

    def actor(self, start_loc, shift_start, end_loc, shift_end, vehicle_costs=None, driver_costs=None, dimens=None):
        """end_loc None => open tour."""
        def vplace(loc, earliest, latest):
            ti = self.struct('domain::TimeInterval',
                             earliest=mk_option(earliest is not None, earliest, ty='Option<f64>') if earliest is not None else mk_option(False, ty='Option<f64>'),
                             latest=mk_option(latest is not None, latest, ty='Option<f64>') if latest is not None else mk_option(False, ty='Option<f64>'))
            return self.struct('fleet::VehiclePlace', location=loc, time=ti)
        start = mk_option(True, vplace(start_loc, shift_start, None), ty='Option<VehiclePlace>')
        end = mk_option(True, vplace(end_loc, None, shift_end), ty='Option<VehiclePlace>') if end_loc is not None else mk_option(False, ty='Option<VehiclePlace>')
        detail = self.struct('fleet::ActorDetail', start=start, end=end, time=self.time_window(shift_start, shift_end))
        profile = self.struct('domain::Profile', index=IV(0), scale=FV.const(1))
        vehicle = self.struct('fleet::Vehicle', profile=profile, costs=vehicle_costs or self.zero_costs(),
                              dimens=dimens if dimens is not None else StateV(), details=VecV([]))
        driver = self.struct('fleet::Driver', costs=driver_costs or self.zero_costs(), dimens=StateV(), details=VecV([]))
        return ArcV(Cell(self.struct('fleet::Actor', vehicle=ArcV(Cell(vehicle)), driver=ArcV(Cell(driver)), detail=detail)))

    def route_ctx(self, actor, activities, is_closed, state=None, n_jobs=None):
        tour = self.struct('solution::tour::Tour', activities=VecV(activities), jobs=SetV(n_jobs if n_jobs is not None else sum(1 for a in activities if self.has_job(a))),
                           is_closed=BV(is_closed))
        route = self.struct('route::Route', actor=actor, tour=tour)
        cache = self.struct('context::RouteCache', is_stale=BV(False))
        return self.struct('context::RouteContext', route=route, state=state if state is not None else StateV(), cache=cache)

    def has_job(self, activity):
        job = self.field(activity, 'route::Activity', 'job')
        return job.variant() == 1

    # -- readers
    def act_field(self, activity, path):
        """path like 'place.location' / 'schedule.arrival' / 'place.time.end'"""
        cur, ty = activity, 'route::Activity'
        TYPES = {('route::Activity', 'place'): 'route::Place', ('route::Activity', 'schedule'): 'domain::Schedule',
                 ('route::Place', 'time'): 'domain::TimeWindow'}
        for seg in path.split('.'):
            nxt = self.field(cur, ty, seg)
            ty = TYPES.get((ty, seg), None)
            cur = nxt
        return cur

    def tour_activities(self, route_ctx):
        route = self.field(route_ctx, 'context::RouteContext', 'route')
        tour = self.field(route, 'route::Route', 'tour')
        return self.field(tour, 'solution::tour::Tour', 'activities').items

    def state_of(self, route_ctx):
        return self.field(route_ctx, 'context::RouteContext', 'state')

    def dyn_transport(self):
        return RefV(Cell(DynV('transport')), 0)

    def dyn_activity(self):
        return RefV(Cell(DynV('activity')), 0)

    def arc_dyn_transport(self):
        return ArcV(Cell(DynV('transport')))

    def arc_dyn_activity(self):
        return ArcV(Cell(DynV('activity')))
