"""Which MIR->SMT obligations decide which property, per tier.  usage: plan.py <PROP> <out.json>"""
import json
import os
import sys
import time
import traceback

sys.path.insert(0, os.path.dirname(os.path.abspath(__file__)))

import core_obligations as co  # noqa: E402
import mir  # noqa: E402
from symex import Inconclusive  # noqa: E402

TIER = os.environ.get('VERIF_TIER', 'quick')
Q = TIER == 'quick'


def plan(prop):
    obs = []
    bits = 16 if Q else 31
    kmax = 2 if Q else 4
    shapes = [(k, closed) for closed in (True, False) for k in range(0, kmax + 1)]
    seed = int(os.environ.get('VERIF_SEED', '0') or 0)
    # VERIF_SEED only picks one additional concrete cost-rate vector (the estimate is linear in the rates); solver verdicts
    # over the symbolic inputs do not depend on it
    seeded = (3 + seed % 5, 2 + seed % 3, 5 + seed % 7, 1 + seed % 4, 4 + seed % 2, 2 + seed % 6)
    rates = (co.RATE_VECTORS_QUICK[:2] + [seeded]) if Q else (co.RATE_VECTORS_THOROUGH + [seeded])
    core = 'vrp-core'
    if prop in ('C06', 'C01'):
        for k, closed in shapes:
            obs.append((core, lambda ctx, k=k, c=closed: co.ob_time_window_gate(ctx, k, c, bits)))
        for k, closed in shapes:
            obs.append((core, lambda ctx, k=k, c=closed: co.ob_capacity_gate(ctx, k, c)))
    if prop == 'C01':
        for k, closed in shapes:
            obs.append((core, lambda ctx, k=k, c=closed: co.ob_limits_gate(ctx, k, c, bits)))
        for k, closed in [(0, True), (1, True), (1, False), (2, False)]:
            obs.append((core, lambda ctx, k=k, c=closed: co.ob_reachable_gate(ctx, k, c, bits)))
    if prop == 'C06':
        scans = [(0, True, 2, False), (1, True, 2, False), (2, True, 1, False), (0, False, 2, False), (1, False, 1, False), (1, True, 1, True)] if Q else \
            [(0, True, 2, False), (1, True, 2, False), (2, True, 1, False), (3, True, 1, False), (0, False, 2, False), (1, False, 2, False), (2, False, 2, False),
             (1, True, 2, True), (2, True, 1, True), (0, True, 3, False)]
        for k, closed, ntw, bk in scans:
            obs.append((core, lambda ctx, k=k, c=closed, n=ntw, b=bk: co.ob_leg_scan(ctx, k, c, n, b)))
    if prop == 'C06':
        e2e = [(0, 1, True), (1, 1, True), (0, 2, True), (0, 3, True), (1, 1, False), (0, 2, False)] if Q else \
            [(0, 1, True), (1, 1, True), (2, 1, True), (0, 2, True), (0, 3, True), (1, 2, True), (1, 1, False), (2, 1, False), (0, 2, False), (0, 3, False), (1, 2, False)]
        for k, n, closed in e2e:
            obs.append((core, lambda ctx, k=k, n=n, c=closed: co.ob_insertion_e2e(ctx, k, n, c)))
        # alternative time windows per task: the activity that is returned / put into the shadow tour carries the CHOSEN window
        for k, n in ([(0, 1), (0, 2)] if Q else [(0, 1), (0, 2), (1, 1)]):
            obs.append((core, lambda ctx, k=k, n=n: co.ob_insertion_e2e(ctx, k, n, True, 16, 2)))
        for k, n in ([(0, 1)] if Q else [(0, 1), (0, 2), (1, 1)]):
            obs.append((core, lambda ctx, k=k, n=n: co.ob_insertion_e2e(ctx, k, n, True, 16, 1, 2)))
        for k, closed in ([(0, True), (1, True)] if Q else [(0, True), (1, True), (1, False), (2, True)]):
            obs.append((core, lambda ctx, k=k, c=closed: co.ob_insertion_e2e_both(ctx, k, c)))
        cap = [(0, 'single', True), (1, 'single', True), (0, 'shipment', True), (1, 'shipment', True), (1, 'single', False)] if Q else \
            [(0, 'single', True), (1, 'single', True), (2, 'single', True), (0, 'shipment', True), (1, 'shipment', True),
             (1, 'single', False), (1, 'shipment', False)]
        for k, shape, closed in cap:
            obs.append((core, lambda ctx, k=k, s=shape, c=closed: co.ob_capacity_e2e(ctx, k, s, c)))
    if prop in ('C06', 'C03', 'C05'):
        for k, closed in shapes:
            obs.append((core, lambda ctx, k=k, c=closed: co.ob_schedule_state_statistics(ctx, k, c, bits)))
    if prop == 'C05':
        for k, closed in shapes[:3]:
            obs.append((core, lambda ctx, k=k, c=closed: co.ob_capacity_gate(ctx, k, c)))
    if prop in ('C05', 'C01'):
        for jp in (((1, 1),) if Q else ((1, 1), (2, 1), (1, 1, 1))):
            obs.append((core, lambda ctx, jp=jp: co.ob_group_state(ctx, jp)))
        for jp in (((2, 1),) if Q else ((1, 1), (2, 1), (2, 2))):
            obs.append((core, lambda ctx, jp=jp: co.ob_group_state(ctx, jp, 'insertion')))
        for jp in (((1, 1), (2, 1)) if Q else ((1, 1), (2, 1), (1, 2), (1, 1, 1), (2, 2))):
            obs.append((core, lambda ctx, jp=jp: co.ob_shared_resource_state(ctx, jp)))
    if prop == 'C05':
        for k, closed in [(0, True), (2, True), (1, False)]:
            obs.append((core, lambda ctx, k=k, c=closed: co.ob_deep_copy(ctx, k, c)))
        for n in (1, 2, 3):
            obs.append((core, lambda ctx, n=n: co.ob_accept_route_state(ctx, n)))
    if prop in ('C01', 'C05', 'C06'):
        rl = [(1, 1, True), (0, 1, True), (1, 0, True), (1, 1, False)] if Q else [(1, 1, True), (0, 1, True), (1, 0, True), (1, 1, False), (2, 1, True), (1, 2, True), (2, 2, True), (0, 2, False)]
        for b, a, closed in rl:
            obs.append((core, lambda ctx, b=b, a=a, c=closed: co.ob_capacity_reload(ctx, b, a, c)))
        for b, a, closed in ([(1, 1, True), (0, 1, True)] if Q else [(1, 1, True), (0, 1, True), (1, 0, True), (2, 1, True), (1, 1, False)]):
            obs.append((core, lambda ctx, b=b, a=a, c=closed: co.ob_capacity_reload(ctx, b, a, c, True)))
    if prop in ('C01', 'C06'):
        for k, n in (((0, 1), (1, 2)) if Q else ((0, 1), (1, 2), (2, 3))):
            obs.append((core, lambda ctx, k=k, n=n: co.ob_route_level_gates(ctx, k, n)))
        obs.append((core, lambda ctx: co.ob_route_level_gates(ctx, 2, 1, multi_in_tour=True)))
        obs.append((core, lambda ctx: co.ob_route_level_gates(ctx, 0, 1, n_places=2)))
    if prop == 'C01':
        import pragmatic_obligations as po
        obs.append(('vrp-pragmatic', lambda ctx: po.ob_read_locks(ctx)))
        for n in ((2,) if Q else (2, 3)):
            obs.append((core, lambda ctx, n=n: co.ob_skills_gate(ctx, n)))
        for m_, pos in (((2, 'any'), (2, 'departure'), (2, 'arrival'), (2, 'fixed')) if Q else ((1, 'any'), (2, 'any'), (3, 'any'), (1, 'departure'), (2, 'departure'), (1, 'arrival'), (2, 'arrival'), (1, 'fixed'), (2, 'fixed'))):
            obs.append((core, lambda ctx, m_=m_, pos=pos: co.ob_lock_rule(ctx, m_, pos)))
    if prop in ('C01', 'C05'):
        for n in ((1, 2) if Q else (0, 1, 2, 3)):
            obs.append((core, lambda ctx, n=n: co.ob_compatibility_state(ctx, n)))
    if prop == 'C01':
        for k in ((0, 1, 2) if Q else (0, 1, 2, 3)):
            obs.append((core, lambda ctx, k=k: co.ob_tour_order_gate(ctx, k)))
        for k in ((1, 2) if Q else (1, 2, 3)):
            obs.append((core, lambda ctx, k=k: co.ob_tour_order_gate(ctx, k, False)))
        for n in (1, 2, 3):
            obs.append((core, lambda ctx, n=n: co.ob_evaluate_with_constraints(ctx, n)))
    if prop == 'C03':
        import pragmatic_obligations as po
        prag = 'vrp-pragmatic'
        for kind, dims in (('service', 1), ('pickup', 1), ('delivery', 2), ('break', 1), ('arrival', 1)):
            obs.append((prag, lambda ctx, kind=kind, dims=dims: po.ob_writer_step(ctx, kind, dims)))
        tours = [((), 1, (7, 3, 2, 2, 2)), (('service',), 1, (7, 3, 2, 2, 2)), (('pickup', 'delivery'), 1, (7, 3, 2, 2, 2)), (('delivery', 'pickup'), 2, (1, 2, 5, 5, 5)),
                 (('delivery', 'break', 'pickup'), 1, (7, 3, 2, 2, 2)), (('delivery', 'reload', 'delivery'), 1, (7, 3, 2, 2, 2)),
                 (('dpickup', 'reload', 'ddelivery'), 1, (7, 3, 2, 2, 2)), (('reload', 'delivery'), 2, (1, 2, 5, 5, 5))]
        if not Q:
            tours += [(('pickup', 'delivery', 'reload', 'pickup', 'delivery'), 1, (7, 3, 2, 2, 2)), (('delivery', 'dpickup', 'reload', 'pickup', 'ddelivery'), 1, (7, 3, 2, 2, 2))]
            tours += [(('delivery', 'delivery', 'pickup'), 2, (7, 3, 2, 2, 2)), (('pickup', 'service', 'delivery', 'pickup'), 1, (1, 2, 5, 5, 5)),
                      (('service', 'pickup', 'pickup', 'delivery'), 1, (7, 3, 2, 5, 4))]
        for kinds, dims, wr in tours:
            obs.append((prag, lambda ctx, kinds=kinds, dims=dims, wr=wr: po.ob_writer_tour(ctx, kinds, dims, wr)))
        for kinds, dims, wr in ([(('delivery', 'pickup'), 1, (7, 3, 2, 2, 2))] if Q else [(('delivery', 'pickup'), 1, (7, 3, 2, 2, 2)), (('pickup', 'service', 'delivery'), 2, (1, 2, 5, 5, 5)), ((), 1, (7, 3, 2, 2, 2))]):
            obs.append((prag, lambda ctx, kinds=kinds, dims=dims, wr=wr: po.ob_writer_tour(ctx, kinds, dims, wr, False)))
        # time-dependent routing data: every look-up of the writer must use the departure time of the leg
        for kinds, dims, wr in ([(('delivery', 'pickup'), 1, (7, 3, 2, 2, 2))] if Q else [(('delivery', 'pickup'), 1, (7, 3, 2, 2, 2)), (('service',), 1, (1, 2, 5, 5, 5)), (('pickup', 'service', 'delivery'), 1, (7, 3, 2, 2, 2))]):
            obs.append((prag, lambda ctx, kinds=kinds, dims=dims, wr=wr: po.ob_writer_tour(ctx, kinds, dims, wr, True, True)))
        obs.append((prag, lambda ctx: po.ob_statistic_sum(ctx)))
        for how in ('location', 'disjoint', 'any'):
            obs.append((prag, lambda ctx, how=how: po.ob_job_tag(ctx, how)))
        obs.append((prag, lambda ctx: po.ob_match_place(ctx)))
        for n in ((2, 3) if Q else (2, 3, 4)):
            obs.append((prag, lambda ctx, n=n: po.ob_place_tags_read(ctx, n)))
        obs.append((core, lambda ctx: co.ob_total_cost_fold(ctx, 16, rates)))
    if prop == 'C20':
        obs.append((core, lambda ctx: co.ob_simple_objectives(ctx)))
        for k, closed in shapes:
            obs.append((core, lambda ctx, k=k, c=closed: co.ob_distance_estimate(ctx, k, c, bits)))
        for k, closed in [(k, c) for k, c in shapes if k <= 2]:
            obs.append((core, lambda ctx, k=k, c=closed: co.ob_cost_estimate(ctx, k, c, 16, rates)))
    if prop == 'C16':
        for n in ((2, 3) if Q else (2, 3, 4)):
            obs.append((core, lambda ctx, n=n: co.ob_time_aware_provider(ctx, n)))
    if prop == 'C15':
        for k in ((0, 1) if Q else (0, 1, 2)):
            obs.append((core, lambda ctx, k=k: co.ob_fold_step(ctx, k, True)))
        obs.append((core, lambda ctx: co.ob_fold_step(ctx, 1, False)))
        obs.append((core, lambda ctx: co.ob_fold_step_multi(ctx)))
        for r, j in (((1, 2), (2, 2), (1, 5)) if Q else ((1, 2), (2, 2), (1, 4), (2, 3), (3, 2), (1, 5), (1, 6))):
            obs.append((core, lambda ctx, r=r, j=j: co.ob_evaluate_all(ctx, r, j)))
        for r, j, per_job in ((2, 2, True), (2, 2, False), (2, 3, True), (3, 2, False)):
            obs.append((core, lambda ctx, r=r, j=j, pj=per_job: co.ob_evaluate_collect_all(ctx, r, j, pj)))
        import ieee_obligations as io
        for la, lb in (((1, 1), (2, 2), (1, 2)) if Q else ((1, 1), (2, 2), (1, 2), (2, 1), (3, 3), (3, 1))):
            obs.append((core, lambda ctx, la=la, lb=lb: io.ob_reducer(ctx, la, lb)))
    if prop == 'C10':
        import pragmatic_obligations as po
        for template, dims, places in ((('pd', 1, 1), ('mixed', 1, 1), ('empty', 1, 1), ('p-only', 1, 1), ('pd', 2, 1), ('mixed', 1, 2)) if Q else
                                       (('pd', 1, 1), ('mixed', 1, 1), ('empty', 1, 1), ('p-only', 1, 1), ('pd', 2, 1), ('mixed', 2, 2), ('pd', 3, 1), ('pd', 1, 3))):
            obs.append(('vrp-pragmatic', lambda ctx, t=template, d=dims, n=places: po.ob_job_rules(ctx, t, d, n)))
        for size in ((1, 2) if Q else (1, 2, 3)):
            obs.append(('vrp-pragmatic', lambda ctx, size=size: po.ob_location_index_rule(ctx, size)))
        obs.append(('vrp-pragmatic', lambda ctx: po.ob_id_rules(ctx)))
        obs.append(('vrp-pragmatic', lambda ctx: po.ob_relation_rules(ctx)))
        # totality beyond the inline load size (8 dimensions): the recorded known finding
        obs.append(('vrp-pragmatic', lambda ctx: po.ob_job_rules(ctx, 'pd', 9)))
    if prop == 'C16':
        for n in ((2, 3) if Q else (2, 3, 4)):
            obs.append((core, lambda ctx, n=n: co.ob_time_aware_new(ctx, n)))
    if prop in ('C16', 'C10'):
        import pragmatic_obligations as po
        for n, m, ntt in (((4, None, 4), (4, 4, 4), (4, 1, 4), (4, 3, 4), (4, 5, 4), (4, 4, 3)) if Q else
                          ((4, None, 4), (4, 4, 4), (4, 1, 4), (4, 3, 4), (4, 5, 4), (4, 4, 3), (9, 9, 9), (9, 8, 9), (1, 1, 1), (1, 0, 1), (4, 4, 1), (9, 9, 8))):
            obs.append(('vrp-pragmatic', lambda ctx, n=n, m=m, ntt=ntt: po.ob_pragmatic_matrix(ctx, n, m, ntt)))
    if prop == 'C14':
        for n in ((1, 2) if Q else (1, 2, 3)):
            obs.append((core, lambda ctx, n=n: co.ob_ctx_from_solution(ctx, n)))
        for k, closed in (((0, True), (0, False), (1, True), (1, False), (2, False)) if Q else ((0, True), (0, False), (1, True), (1, False), (2, True), (2, False), (3, True), (3, False))):
            obs.append((core, lambda ctx, k=k, c=closed: co.ob_tour_step(ctx, k, c)))
        for groups in (((1,), (2,), (2, 1)) if Q else ((1,), (2,), (2, 1), (3,), (2, 2), (1, 1, 1))):
            obs.append((core, lambda ctx, g=groups: co.ob_registry_step(ctx, g)))
        for groups in (((1,), (2,), (2, 1)) if Q else ((1,), (2,), (2, 1), (3,), (2, 2))):
            obs.append((core, lambda ctx, g=groups: co.ob_registry_ctx_step(ctx, g)))
    if prop == 'C02':
        import pragmatic_obligations as po
        for n in (1, 2):
            obs.append(('vrp-pragmatic', lambda ctx, n=n: po.ob_unassigned_writer(ctx, n)))
        for n in (1, 2):
            obs.append((core, lambda ctx, n=n: co.ob_insertion_step(ctx, n)))
        for n in ((1, 2) if Q else (1, 2, 3)):
            obs.append((core, lambda ctx, n=n: co.ob_ctx_from_solution(ctx, n)))
    if prop == 'C17':
        for n, mp in (((2, 1), (2, 2), (3, 2)) if Q else ((2, 1), (2, 2), (3, 1), (3, 2), (3, 3))):
            obs.append((core, lambda ctx, n=n, mp=mp: co.ob_dbscan(ctx, n, mp)))
    if prop == 'C12':
        import pragmatic_obligations as po
        prag = 'vrp-pragmatic'
        lim = [((1, 1, 1), True), ((1, 2, 1, 1), True), ((1, 1), False), ((2,), True)] if Q else \
            [((1, 1, 1), True), ((1, 2, 1, 1), True), ((1, 1), False), ((2,), True), ((1, 1, 2), False), ((1, 1, 1, 1, 1), True), ((1, 3, 2, 1), True)]
        for acts, closed in lim:
            obs.append((prag, lambda ctx, a=acts, c=closed: po.ob_checker_limits(ctx, a, c)))
        loads = [((), 1), ((('sd',),), 1), ((('sd',), ('sp',)), 1), ((('dp',), ('dd',)), 1), ((('sd', 'sp'), ('spd',)), 2), ((('none',), ('sp', 'sd')), 1)]
        if not Q:
            loads += [((('sd',), ('dp',), ('sp',), ('dd',)), 1), ((('sd', 'sd'), ('sp',), ('spd', 'none')), 2), ((('dp', 'dd'), ('sd',)), 3)]
        for kinds, dims in loads:
            obs.append((prag, lambda ctx, k=kinds, d=dims: po.ob_checker_load(ctx, k, d)))
        for n in ((1, 2, 3) if Q else (1, 2, 3, 4, 5)):
            obs.append((prag, lambda ctx, n=n: po.ob_checker_routing(ctx, n)))
        for nu, wp in (((0, False), (1, False)) if Q else ((0, False), (1, False), (0, True), (1, True))):
            obs.append((prag, lambda ctx, nu=nu, wp=wp: po.ob_checker_assignment(ctx, nu, wp)))
        for lay in ((('d',), ('p', 'd'), ('d', 'd'), ('p', 'p', 'd')) if Q else (('d',), ('p',), ('s',), ('r',), ('p', 'd'), ('d', 'd'), ('p', 'p'), ('p', 'p', 'd'), ('p', 'd', 'd'), ('d', 's'), ('p', 'd', 'r', 's'))):
            obs.append((prag, lambda ctx, lay=lay: po.ob_checker_demand(ctx, lay)))
    if prop == 'C08':
        import ieee_obligations as io
        obs.append(('rosomaxa', lambda ctx: io.ob_rosomaxa_phase(ctx, (2, 3, 4, 8) if Q else (2, 3, 4, 5, 6, 7, 8, 16, 64))))
    if prop == 'C18':
        import ieee_obligations as io
        obs.append(('rosomaxa', lambda ctx: io.ob_max_generation(ctx)))
        for sample, n_obj in (((2, 1), (2, 2), (3, 2)) if Q else ((1, 1), (2, 1), (2, 2), (3, 2), (3, 3), (4, 2), (5, 1))):
            obs.append(('rosomaxa', lambda ctx, s_=sample, n=n_obj: io.ob_min_variation_sample(ctx, s_, n)))
    if prop == 'C09':
        import ieee_obligations as io
        for n in ((1, 2) if Q else (1, 2, 3)):
            obs.append((core, lambda ctx, n=n: io.ob_goal_order(ctx, n)))
    return obs


def main():
    prop, out_path = sys.argv[1], sys.argv[2]
    obs = plan(prop)
    if not obs:
        print('NO-OBLIGATIONS')
        return 0
    ctxs = {}
    results = []
    dump_s = 0.0
    for crate, fn in obs:
        if crate not in ctxs:
            t0 = time.time()
            if crate == 'vrp-pragmatic':
                import pragmatic_obligations as po
                ctxs[crate] = po.PCtx(fresh=True)
            else:
                ctxs[crate] = co.Ctx(crate, fresh=True)
            dump_s += time.time() - t0
        try:
            r = fn(ctxs[crate])
        except (Inconclusive, mir.MirError, KeyError) as e:
            r = co.Result(getattr(fn, '__name__', 'obligation'))
            r.status, r.detail = 'inconclusive', f'{type(e).__name__}: {e}'
        except Exception as e:  # an internal error of the engine is never a verdict
            r = co.Result('obligation')
            r.status, r.detail = 'inconclusive', 'engine error: ' + traceback.format_exc()[-600:]
        results.append({
            'name': r.name, 'status': r.status, 'detail': r.detail, 'queries': r.queries, 'claims': r.claims, 'paths': r.paths,
            'witnesses': r.witnesses, 'time': r.time, 'solver_time': r.solver_time, 'bounds': r.bounds,
            'functions': sorted(r.functions), 'counterexample': r.counterexample, 'case': r.case,
            'env': ['routing = uninterpreted time-independent functions Dur/Dist(from,to) with range assumption per application',
                    'dyn ActivityCost bound to SimpleActivityCost (MIR inlined)',
                    'RouteState accessors bound to a typed store (hash map behind them trusted)',
                    'f64 in exact-int semantics with proved range side-conditions'],
        })
    dec = [c.decider for c in ctxs.values()]
    json.dump({'results': results, 'dump_s': dump_s, 'z3_queries': sum(d.queries for d in dec), 'cvc5_queries': sum(d.cross_queries for d in dec),
               'disagreements': sum(d.disagreements for d in dec)}, open(out_path, 'w'))
    return 0


if __name__ == '__main__':
    sys.exit(main())
