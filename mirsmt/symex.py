"""Symbolic executor over parsed MIR (path enumeration with solver-pruned branching) producing SMT terms (z3).

Numeric semantics `exact-int` (DESIGN.md 0.4): an f64 is the pair (is_max, v) where `v` is a mathematical integer and
`is_max` marks the `Float::MAX` sentinel.  On integer-valued doubles of magnitude <= 2^53 every + - min max < <= == of
IEEE binary64 coincides with the integer operation, and MAX +- d == MAX for |d| <= 2^53.  Every operation emits the range
side-condition under which this is exact; the side-conditions are PROVED by the obligation's query (they are part of the
assertion), never assumed.  Division, sqrt, non-integer constants are outside this back end (-> Inconclusive).
"""
import re

import z3

from mir import MirError, Place

LIM = 2 ** 53
MUL_LIM = 2 ** 26


class Inconclusive(Exception):
    """The obligation cannot be decided by this engine (unsupported construct, unbound call, ...)."""


# ---------------------------------------------------------------------------------------------------------------------
# values

def zs(t):
    return z3.simplify(t)


def is_true(t):
    return z3.is_true(zs(t))


def is_false(t):
    return z3.is_false(zs(t))


class FV:
    """f64 in exact-int semantics."""
    __slots__ = ('m', 'v')

    def __init__(self, m, v):
        self.m = m if z3.is_expr(m) else z3.BoolVal(bool(m))
        self.v = v if z3.is_expr(v) else z3.IntVal(int(v))

    @staticmethod
    def const(x):
        return FV(False, int(x))

    @staticmethod
    def max_value():
        return FV(True, 0)

    def __repr__(self):
        return f'FV({zs(self.m)}, {zs(self.v)})'


class FP:
    """f64 in bit-precise IEEE-754 binary64 semantics (z3 floating-point theory, round-to-nearest-even)."""
    __slots__ = ('t',)

    def __init__(self, t):
        self.t = t if z3.is_expr(t) else z3.FPVal(float(t), z3.Float64())

    def __repr__(self):
        return f'FP({zs(self.t)})'


RNE = z3.RNE()
F64 = z3.Float64()


def fp_total_key(x):
    """Key of f64::total_cmp: IEEE bits as signed integer with the low 63 bits flipped for negative values."""
    b = z3.fpToIEEEBV(x)
    return z3.If(b < 0, b ^ z3.BitVecVal(0x7fffffffffffffff, 64), b)


class IV:
    __slots__ = ('t', 'ty')

    def __init__(self, t, ty='usize'):
        self.t = t if z3.is_expr(t) else z3.IntVal(int(t))
        self.ty = ty

    def concrete(self):
        s = zs(self.t)
        return s.as_long() if z3.is_int_value(s) else None

    def __repr__(self):
        return f'IV({zs(self.t)}:{self.ty})'


class BV:
    __slots__ = ('t',)

    def __init__(self, t):
        self.t = t if z3.is_expr(t) else z3.BoolVal(bool(t))

    def __repr__(self):
        return f'BV({zs(self.t)})'


class UnitV:
    def __repr__(self):
        return '()'


class Opaque:
    def __init__(self, name):
        self.name = name

    def __repr__(self):
        return f'Opaque({self.name})'


class DynV:
    """A trait object bound by the obligation's environment."""

    def __init__(self, tag):
        self.tag = tag

    def __repr__(self):
        return f'dyn<{self.tag}>'


class Agg:
    def __init__(self, kind, fields, ty='', fn_name=None):
        self.kind, self.fields, self.ty, self.fn_name = kind, list(fields), ty, fn_name

    def get(self, key):
        return self.fields[key]

    def set(self, key, v):
        while len(self.fields) <= key:
            self.fields.append(None)
        self.fields[key] = v

    def __repr__(self):
        return f'{self.kind}:{self.ty}{self.fields}'


class EnumV:
    """discr: z3 Int term; payload[variant] = list of field values (only variants that carry data that is known)."""

    def __init__(self, ty, discr, payload=None):
        self.ty = ty
        self.discr = discr if z3.is_expr(discr) else z3.IntVal(int(discr))
        self.payload = payload or {}

    def get(self, key):
        variant, idx = key
        return self.payload[variant][idx]

    def set(self, key, v):
        variant, idx = key
        lst = self.payload.setdefault(variant, [])
        while len(lst) <= idx:
            lst.append(None)
        lst[idx] = v

    def variant(self):
        s = zs(self.discr)
        return s.as_long() if z3.is_int_value(s) else None

    def __repr__(self):
        return f'Enum:{self.ty}[{zs(self.discr)}]{self.payload}'


class Uninit:
    """Content of a `Box::new_uninit()` allocation; the MaybeUninit/ManuallyDrop wrapper fields are transparent."""


class Cell:
    def __init__(self, v):
        self.v = v

    def get(self, key):
        return self.v

    def set(self, key, v):
        self.v = v


class RefV:
    def __init__(self, container, key, mutable=False):
        self.container, self.key, self.mutable = container, key, mutable

    def load(self):
        return self.container.get(self.key)

    def store(self, v):
        self.container.set(self.key, v)

    def __repr__(self):
        return f'&{type(self.container).__name__}[{self.key}]'


class ArcV:
    def __init__(self, cell):
        self.cell = cell

    def __repr__(self):
        return f'Arc({self.cell.v!r})'


class VecV:
    def __init__(self, items=None, ty=''):
        self.items = list(items or [])
        self.ty = ty

    def get(self, key):
        return self.items[key]

    def set(self, key, v):
        self.items[key] = v

    def __repr__(self):
        return f'Vec{self.items}'


class MapV:
    """A hash map with concrete keys (the container itself is trusted)."""

    def __init__(self, table=None):
        self.table = dict(table or {})

    def get(self, key):
        return self.table[key]

    def set(self, key, v):
        self.table[key] = v


class AMapV:
    """A hash map / hash set as an association list with (possibly symbolic) keys: key equality is structural, look-ups and
    inserts split the path on which entry matches (the container itself is trusted; iteration order = insertion order, which
    only matters for code whose result depends on the unspecified std order)."""

    def __init__(self, entries=None, is_set=False):
        self.entries = list(entries or [])      # [(key, value)]
        self.is_set = is_set

    def get(self, key):
        return self.entries[key][1]

    def set(self, key, v):
        self.entries[key] = (self.entries[key][0], v)


class ASetV:
    """A hash set over a fixed universe of keys with SYMBOLIC membership (one Bool per key): an arbitrary subset is one symbolic
    value, so one execution covers every pre-state.  Keys are compared structurally (Arc keys by identity)."""

    def __init__(self, keys=None, present=None):
        self.keys = list(keys or [])
        self.present = list(present or [])      # z3 Bool terms, parallel to keys


class SetV:
    """Abstraction of a hash set: only its size is tracked."""

    def __init__(self, size):
        self.size = size if z3.is_expr(size) else z3.IntVal(int(size))


class StateV:
    """RouteState / SolutionState / Dimensions: a typed key-value store bound by accessor name (the hash map behind it is trusted)."""

    def __init__(self, table=None):
        self.table = dict(table or {})

    def get(self, key):
        return self.table.get(key)

    def set(self, key, v):
        self.table[key] = v

    def __repr__(self):
        return f'State{self.table}'


class Frame:
    def __init__(self, fn):
        self.fn = fn
        self.locals = {}

    def get(self, key):
        if key not in self.locals:
            # a zero-sized closure (no captures) is never assigned in MIR: its value is its type
            ty = (self.fn.locals.get(key) or self.fn.locals.get(f'_{key}') or '') if isinstance(self.fn.locals, dict) else ''
            m = re.match(r'^\{closure@[^}]*\}$', ty.strip())
            if m:
                self.locals[key] = Agg('closure', [], m.group(0), fn_name=m.group(0))
                return self.locals[key]
            raise Inconclusive(f'read of uninitialised local _{key} in {self.fn.name}')
        return self.locals[key]

    def set(self, key, v):
        self.locals[key] = v


def copy_value(v):
    """Rust value semantics for `copy`/`move` of aggregates: a fresh copy of the value tree, references keep pointing
    to their targets."""
    if isinstance(v, Agg):
        return Agg(v.kind, [copy_value(f) for f in v.fields], v.ty, v.fn_name)
    if isinstance(v, EnumV):
        return EnumV(v.ty, v.discr, {k: [copy_value(f) for f in lst] for k, lst in v.payload.items()})
    return v


class State:
    """One execution path. Paths are explored by RE-EXECUTION under a prescribed decision prefix (no state cloning):
    `prefix` fixes the outcome of the first symbolic branch points, later ones take option 0 and record alternatives."""

    def __init__(self, prefix=()):
        self.stack = []
        self.pc = []          # path condition (list of z3 Bool)
        self.side = []        # exactness side-conditions that must be PROVED: list of (pc_snapshot, cond, msg)
        self.panics = []      # (condition, msg): under this condition execution panics
        self.assumed = []     # assumptions introduced during execution (environment contracts), list of z3 Bool
        self.prefix = list(prefix)
        self.taken = []
        self.alternatives = []  # (decision index, number of feasible options)
        self.ended = None       # reason when the path ends without returning (panic / unreachable)
        self.tainted = False    # a value outside the numeric back end was havoc'd on this path

    def pc_term(self):
        return z3.And(*self.pc) if self.pc else z3.BoolVal(True)

    def require(self, cond, msg):
        """Exactness side-condition of the numeric abstraction (to be proved)."""
        if is_true(cond):
            return
        self.side.append((self.pc_term(), cond, msg))

    def panic_if(self, cond, msg):
        if is_false(cond):
            return
        self.panics.append((z3.And(self.pc_term(), cond), msg))


# ---------------------------------------------------------------------------------------------------------------------
# float operations (exact-int)

def f_add(st, a, b):
    st.require(z3.Not(z3.And(a.m, b.m)), 'MAX + MAX overflows')
    m = z3.Or(a.m, b.m)
    v = z3.If(m, 0, a.v + b.v)
    r = FV(zs(m), zs(v))
    st.require(z3.Implies(z3.Not(r.m), z3.And(r.v <= LIM, r.v >= -LIM)), 'sum within 2^53')
    return r


def f_sub(st, a, b):
    st.require(z3.Not(z3.And(b.m, z3.Not(a.m))), 'x - MAX leaves the domain')
    m = z3.And(a.m, z3.Not(b.m))
    v = z3.If(z3.Or(a.m, b.m), 0, a.v - b.v)
    r = FV(zs(m), zs(v))
    st.require(z3.Implies(z3.Not(r.m), z3.And(r.v <= LIM, r.v >= -LIM)), 'difference within 2^53')
    return r


def f_mul(st, a, b):
    st.require(z3.And(z3.Not(a.m), z3.Not(b.m)), 'product with MAX is outside the exact domain')
    st.require(z3.And(a.v <= MUL_LIM, a.v >= -MUL_LIM, b.v <= MUL_LIM, b.v >= -MUL_LIM), 'factors within 2^26')
    return FV(False, zs(a.v * b.v))


def f_neg(st, a):
    st.require(z3.Not(a.m), '-MAX leaves the domain')
    return FV(False, zs(-a.v))


def f_abs(st, a):
    return FV(a.m, zs(z3.If(a.v < 0, -a.v, a.v)))


def f_lt(a, b):
    return zs(z3.And(z3.Not(a.m), z3.Or(b.m, a.v < b.v)))


def f_le(a, b):
    return zs(z3.Or(b.m, z3.And(z3.Not(a.m), a.v <= b.v)))


def f_eq(a, b):
    return zs(z3.Or(z3.And(a.m, b.m), z3.And(z3.Not(a.m), z3.Not(b.m), a.v == b.v)))


def f_ite(c, a, b):
    return FV(zs(z3.If(c, a.m, b.m)), zs(z3.If(c, a.v, b.v)))


def f_min(a, b):
    return f_ite(f_le(a, b), a, b)


def f_max(a, b):
    return f_ite(f_le(a, b), b, a)


INT_RANGES = {
    'usize': (0, 2 ** 64 - 1), 'u64': (0, 2 ** 64 - 1), 'u32': (0, 2 ** 32 - 1), 'u16': (0, 2 ** 16 - 1), 'u8': (0, 255),
    'isize': (-2 ** 63, 2 ** 63 - 1), 'i64': (-2 ** 63, 2 ** 63 - 1), 'i32': (-2 ** 31, 2 ** 31 - 1), 'i16': (-2 ** 15, 2 ** 15 - 1),
    'i8': (-128, 127), 'u128': (0, 2 ** 128 - 1), 'i128': (-2 ** 127, 2 ** 127 - 1),
}


def parse_const(text, st=None, ieee=False):
    t = text.strip()
    if ieee:
        m = re.match(r'^(-?\d+(?:\.\d+)?(?:[eE][+-]?\d+)?)f64$', t)
        if m:
            return FP(z3.FPVal(m.group(1), F64))
        if 'f64' in t and t.endswith('::MAX'):
            return FP(z3.FPVal(1.7976931348623157e308, F64))
        if 'f64' in t and t.endswith('::MIN_POSITIVE'):
            return FP(z3.FPVal(2.2250738585072014e-308, F64))
        if 'f64' in t and t.endswith('::EPSILON'):
            return FP(z3.FPVal(2.220446049250313e-16, F64))
        if 'f64' in t and t.endswith('::INFINITY'):
            return FP(z3.fpPlusInfinity(F64))
        if 'f64' in t and t.endswith('::NAN'):
            return FP(z3.fpNaN(F64))
    if t in ('true', 'false'):
        return BV(t == 'true')
    if t == '()':
        return UnitV()
    m = re.match(r'^(-?\d+)_(usize|u64|u32|u16|u8|isize|i64|i32|i16|i8|u128|i128)$', t)
    if m:
        return IV(int(m.group(1)), m.group(2))
    m = re.match(r'^(-?\d+(?:\.\d+)?(?:[eE][+-]?\d+)?)f64$', t)
    if m:
        x = float(m.group(1))
        if x != int(x) or abs(x) > LIM:
            raise Inconclusive(f'non-integer or huge f64 constant {t} is outside the exact-int back end')
        return FV.const(int(x))
    if t.endswith('::MAX') and 'f64' in t:
        return FV.max_value()
    if t.startswith('"') or t.startswith('b"'):
        return Opaque(t)
    m = re.match(r'^ZeroSized: (\{closure@[^}]*\})$', t)
    if m:
        return Agg('closure', [], m.group(1), fn_name=m.group(1))
    m = re.match(r'^ZeroSized: (.*)$', t)
    if m:
        return Opaque(m.group(1))
    # Ordering / other unit enum constants are written as aggregates, not consts; function items and ZSTs:
    return Opaque(t)


# ---------------------------------------------------------------------------------------------------------------------

class Engine:
    def __init__(self, prog, layout, env, solver_timeout_ms=20000, inline_depth=24):
        self.prog = prog
        self.layout = layout
        self.env = env                  # obligation-specific bindings (see drivers.Env)
        self.inline_depth = inline_depth
        self.solver = z3.Solver()
        self.solver.set('timeout', solver_timeout_ms)
        self.branch_queries = 0
        self.functions_used = set()
        self.siblings = {}              # crate path prefix (e.g. 'vrp_core') -> Engine over that crate's MIR (cross-crate calls)

    # ---- feasibility of a branch under the current path condition and assumptions
    def feasible(self, st, cond):
        if is_false(cond):
            return False
        if is_true(cond):
            return True
        self.solver.push()
        try:
            for a in self.env.assumptions:
                self.solver.add(a)
            for a in st.assumed:
                self.solver.add(a)
            for p in st.pc:
                self.solver.add(p)
            self.solver.add(cond)
            self.branch_queries += 1
            r = self.solver.check()
        finally:
            self.solver.pop()
        return r != z3.unsat

    # ---- places
    def _resolve(self, st, depth, place):
        """-> (container, key) of the final location."""
        frame = st.stack[depth]
        container, key = frame, place.local
        for proj in place.proj:
            cur = container.get(key)
            kind = proj[0]
            if kind == 'deref':
                if isinstance(cur, RefV):
                    container, key = cur.container, cur.key
                elif isinstance(cur, ArcV):
                    container, key = cur.cell, 0
                else:
                    raise Inconclusive(f'deref of non-reference {cur!r} at {place} in {frame.fn.name}')
            elif kind == 'field':
                idx = proj[1]
                if isinstance(cur, (ArcV, Uninit)):
                    continue    # Unique/NonNull/MaybeUninit/ManuallyDrop wrappers are transparent
                if isinstance(cur, Agg):
                    container, key = cur, idx
                elif isinstance(cur, EnumV):
                    v = cur.variant()
                    if v is None:
                        # field of an un-downcast enum (e.g. Option-like single data variant)
                        raise Inconclusive(f'field access on enum without downcast at {place}')
                    container, key = cur, (v, idx)
                elif isinstance(cur, _Downcast):
                    container, key = cur.enum, (cur.variant, idx)
                else:
                    raise Inconclusive(f'field .{idx} of {cur!r} at {place} in {frame.fn.name}')
            elif kind == 'downcast':
                if not isinstance(cur, EnumV):
                    raise Inconclusive(f'downcast of non-enum {cur!r} at {place}')
                vidx = self.variant_index(cur.ty, proj[1]) if proj[1] is not None else proj[2]
                container, key = _DowncastHolder(cur, vidx), 0
            elif kind in ('index', 'constindex'):
                if kind == 'index':
                    iv = frame.get(proj[1])
                    i = iv.concrete()
                    if i is None:
                        raise Inconclusive(f'symbolic index at {place}')
                else:
                    i = proj[1]
                if isinstance(cur, (VecV, Agg)):
                    n = len(cur.items) if isinstance(cur, VecV) else len(cur.fields)
                    if i >= n:
                        st.panic_if(z3.BoolVal(True), f'index {i} out of bounds ({n})')
                        st.ended = 'panic'
                        raise _PathEnds()
                    container, key = cur, i
                else:
                    raise Inconclusive(f'index into {cur!r} at {place}')
            else:
                raise Inconclusive(f'unsupported projection {proj} at {place}')
        return container, key

    def read_place(self, st, depth, place):
        c, k = self._resolve(st, depth, place)
        v = c.get(k)
        if isinstance(v, _Downcast):
            return v.enum
        return v

    def write_place(self, st, depth, place, value):
        c, k = self._resolve(st, depth, place)
        c.set(k, value)

    def variant_index(self, ty, name):
        base = re.sub(r'<.*$', '', ty.strip().lstrip('&').replace('mut ', '')).split('::')[-1] if ty else ''
        BUILTIN = {'Option': ['None', 'Some'], 'Result': ['Ok', 'Err'], 'ControlFlow': ['Continue', 'Break']}
        if base in BUILTIN and name in BUILTIN[base]:
            return BUILTIN[base].index(name)
        for key in (ty, base):
            if key in self.layout.enums and name in self.layout.enums[key]:
                return self.layout.enums[key].index(name)
        for b, names in BUILTIN.items():
            if name in names:
                return names.index(name)
        cands = [v.index(name) for k, v in self.layout.enums.items() if name in v]
        if cands and all(c == cands[0] for c in cands):
            return cands[0]
        raise Inconclusive(f'cannot resolve variant {name} of enum type {ty!r}')

    # ---- operands / rvalues
    def eval_operand(self, st, depth, op):
        if op.kind == 'const':
            mp = re.search(r'::promoted\[(\d+)\]$', op.const.strip())
            if mp:
                key = f'{st.stack[depth].fn.name}::promoted[{mp.group(1)}]'
                pf = self.prog.promoted.get(key)
                if pf is None:
                    raise Inconclusive(f'promoted constant {key} not found')
                return self.exec_fn(st, pf, [])
            v = parse_const(op.const, st, getattr(self.env, 'ieee', False))
            if isinstance(v, Opaque) and re.match(r'^[\w:<>{}#, ]+$', v.name) and '::' in v.name:
                # a named constant item: `const path::NAME` -> its body is in the dump under the trimmed name
                from models import strip_generics
                full = strip_generics(v.name)
                cands = [f for n, f in self.prog.promoted.items() if full == n or full.endswith('::' + n)]
                if len(cands) == 1:
                    return self.exec_fn(st, cands[0], [])
                lits = [(n, vals) for n, vals in self.prog.literal_consts.items() if full == n or full.endswith('::' + n)]
                if len(lits) == 1 and len(set(lits[0][1])) == 1:
                    return parse_const(lits[0][1][0], st, getattr(self.env, 'ieee', False))
            return v
        v = self.read_place(st, depth, op.place)
        return copy_value(v)

    def eval_rvalue(self, st, depth, rv, dest_ty=''):
        k = rv.kind
        if k == 'use':
            return self.eval_operand(st, depth, rv.args[0])
        if k == 'ref':
            c, key = self._resolve(st, depth, rv.args[0])
            if isinstance(c, _DowncastHolder):
                raise Inconclusive('reference to a downcast place')
            return RefV(c, key, bool(rv.extra))
        if k == 'binop':
            a = self.eval_operand(st, depth, rv.args[0])
            b = self.eval_operand(st, depth, rv.args[1])
            return self.binop(st, rv.extra, a, b)
        if k == 'unop':
            a = self.eval_operand(st, depth, rv.args[0])
            if rv.extra == 'Not':
                if isinstance(a, BV):
                    return BV(zs(z3.Not(a.t)))
                raise Inconclusive('bitwise Not on integers')
            if rv.extra == 'Neg':
                if isinstance(a, FP):
                    return FP(z3.fpNeg(a.t))
                if isinstance(a, FV):
                    return f_neg(st, a)
                if isinstance(a, IV):
                    return IV(zs(-a.t), a.ty)
            if rv.extra == 'PtrMetadata':
                x = a
                while isinstance(x, RefV):
                    x = x.load()
                if isinstance(x, VecV):
                    return IV(len(x.items))
                if isinstance(x, Agg) and x.kind == 'array':
                    return IV(len(x.fields))
            raise Inconclusive(f'unary {rv.extra}')
        if k == 'cast':
            a = self.eval_operand(st, depth, rv.args[0])
            ty, kind = rv.extra
            if kind == 'IntToFloat' and isinstance(a, IV) and getattr(self.env, 'ieee', False):
                # via a 64-bit vector (z3 only converts *numeral* reals to FP precisely); the integer must fit
                lo, hi = INT_RANGES.get(a.ty, (0, 2 ** 64 - 1))
                st.require(z3.And(a.t >= max(lo, -2 ** 63), a.t <= min(hi, 2 ** 63 - 1)), 'integer fits the 64-bit conversion')
                bv = z3.Int2BV(a.t, 64)
                return FP(z3.fpSignedToFP(RNE, bv, F64) if lo < 0 else z3.fpUnsignedToFP(RNE, bv, F64))
            if kind == 'FloatToInt' and isinstance(a, FP):
                # `as usize`/`as u64`: saturating, NaN -> 0; encoded for values in [0, 2^53] only (side-condition)
                lo, hi = INT_RANGES.get(ty.strip(), (None, None))
                st.require(z3.And(z3.Not(z3.fpIsNaN(a.t)), z3.fpGEQ(a.t, z3.FPVal(0.0, F64)), z3.fpLEQ(a.t, z3.FPVal(float(2 ** 53), F64))),
                           'float -> int conversion within [0, 2^53]')
                r = z3.ToInt(z3.fpToReal(z3.fpRoundToIntegral(z3.RTZ(), a.t)))
                return IV(r, ty.strip())
            if kind == 'FloatToInt' and isinstance(a, FV):
                # integer-valued, non-negative, not the MAX sentinel: the conversion is the identity
                lo, hi = INT_RANGES.get(ty.strip(), (None, None))
                st.require(z3.And(z3.Not(a.m), a.v >= 0), 'f64 -> unsigned int conversion of a non-negative integer-valued double')
                return IV(a.v, ty.strip())
            if kind == 'IntToFloat' and isinstance(a, IV):
                st.require(z3.And(a.t <= LIM, a.t >= -LIM), 'int -> f64 conversion exact')
                return FV(False, a.t)
            if kind == 'IntToInt' and isinstance(a, IV):
                lo, hi = INT_RANGES.get(ty.strip(), (None, None))
                if lo is None:
                    raise Inconclusive(f'cast to {ty}')
                st.require(z3.And(a.t >= lo, a.t <= hi), f'int cast to {ty} does not wrap')
                return IV(a.t, ty.strip())
            if kind == 'IntToInt' and isinstance(a, BV):
                return IV(zs(z3.If(a.t, 1, 0)), ty.strip())
            if kind.startswith('PointerCoercion') or kind in ('Transmute', 'PtrToPtr'):
                return a
            raise Inconclusive(f'cast {kind} to {ty}')
        if k == 'tuple':
            return Agg('tuple', [self.eval_operand(st, depth, a) for a in rv.args], dest_ty)
        if k in ('array',):
            return Agg('array', [self.eval_operand(st, depth, a) for a in rv.args], dest_ty)
        if k == 'repeat':
            n = re.match(r'^(?:const )?(\d+)', rv.extra.strip())
            if not n:
                raise Inconclusive(f'repeat length {rv.extra}')
            a = self.eval_operand(st, depth, rv.args[0])
            return Agg('array', [copy_value(a) for _ in range(int(n.group(1)))], dest_ty)
        if k == 'closure':
            ops = list(rv.args)
            need = self.closure_arity(rv.extra)
            if need is not None and len(ops) < need:
                ops = self.recover_captures(st, depth, ops, need, rv.extra)
            fields = [self.eval_operand(st, depth, a) for a in ops]
            return Agg('closure', fields, rv.extra, fn_name=rv.extra)
        if k == 'adt_named':
            path, names = rv.extra
            vals = [self.eval_operand(st, depth, a) for a in rv.args]
            return self.make_adt(path, names, vals, dest_ty)
        if k == 'adt_tuple':
            vals = [self.eval_operand(st, depth, a) for a in rv.args]
            return self.make_adt(rv.extra, None, vals, dest_ty)
        if k == 'discriminant':
            v = self.read_place(st, depth, rv.args[0])
            if isinstance(v, EnumV):
                return IV(v.discr, 'isize')
            raise Inconclusive(f'discriminant of {v!r}')
        if k == 'len':
            v = self.read_place(st, depth, rv.args[0])
            if isinstance(v, VecV):
                return IV(len(v.items))
            if isinstance(v, Agg):
                return IV(len(v.fields))
            raise Inconclusive('Len of non-sequence')
        raise Inconclusive(f'unsupported rvalue: {rv.extra if rv.kind == "unsupported" else rv.kind}')

    def make_adt(self, path, names, vals, dest_ty):
        from models import strip_generics
        clean = strip_generics(path)
        segs = clean.split('::')
        last = segs[-1]
        # enum variant?  `Option::<T>::Some`, `costs::TravelTime::Departure`, `std::cmp::Ordering::Less` ...
        if len(segs) >= 2:
            ety = '::'.join(segs[:-1])
            ebase = segs[-2]
            BUILTIN = {'Option': ['None', 'Some'], 'Result': ['Ok', 'Err'], 'ControlFlow': ['Continue', 'Break']}
            if ebase == 'Ordering' and last in ('Less', 'Equal', 'Greater'):
                return EnumV('Ordering', {'Less': -1, 'Equal': 0, 'Greater': 1}[last], {})
            variants = BUILTIN.get(ebase)
            if variants is None:
                for key in ('::'.join(segs[-3:-1]), ebase):
                    if key in self.layout.enums:
                        variants = self.layout.enums[key]
                        break
            if variants is not None and last in variants:
                idx = variants.index(last)
                return EnumV(ety, idx, {idx: list(vals)})
        # struct
        key = None
        for cand in ('::'.join(segs[-2:]), last):
            if cand in self.layout.structs:
                key = cand
                break
        if names is not None and key is not None:
            order = self.layout.structs[key]
            if set(names) == set(order):
                by = dict(zip(names, vals))
                return Agg('struct', [by[n] for n in order], key)
        if names is not None:
            # MIR prints struct fields in declaration order
            return Agg('struct', vals, clean)
        if not vals and dest_ty:
            return Agg('struct', [], clean)
        return Agg('struct', vals, clean)

    def binop(self, st, op, a, b):
        if isinstance(a, FP) and isinstance(b, FP):
            x, y = a.t, b.t
            if op == 'Add':
                return FP(z3.fpAdd(RNE, x, y))
            if op == 'Sub':
                return FP(z3.fpSub(RNE, x, y))
            if op == 'Mul':
                return FP(z3.fpMul(RNE, x, y))
            if op == 'Div':
                return FP(z3.fpDiv(RNE, x, y))
            t = {'Lt': z3.fpLT(x, y), 'Le': z3.fpLEQ(x, y), 'Gt': z3.fpGT(x, y), 'Ge': z3.fpGEQ(x, y), 'Eq': z3.fpEQ(x, y),
                 'Ne': z3.Not(z3.fpEQ(x, y))}.get(op)
            if t is None:
                raise Inconclusive(f'f64 operation {op}')
            return BV(zs(t))
        if isinstance(a, FV) and isinstance(b, FV):
            if op == 'Add':
                return f_add(st, a, b)
            if op == 'Sub':
                return f_sub(st, a, b)
            if op == 'Mul':
                return f_mul(st, a, b)
            if op == 'Lt':
                return BV(f_lt(a, b))
            if op == 'Le':
                return BV(f_le(a, b))
            if op == 'Gt':
                return BV(f_lt(b, a))
            if op == 'Ge':
                return BV(f_le(b, a))
            if op == 'Eq':
                return BV(f_eq(a, b))
            if op == 'Ne':
                return BV(zs(z3.Not(f_eq(a, b))))
            if op == 'Div' and getattr(self.env, 'havoc_div', False):
                # not decidable in this back end: the quotient is an unconstrained value and the path is marked, claims that
                # depend on it are not made
                st.tainted = True
                self.env._havoc = getattr(self.env, '_havoc', 0) + 1
                return FV(False, z3.Int(f'havoc_div_{self.env._havoc}'))
            raise Inconclusive(f'f64 operation {op} is outside the exact-int back end')
        if isinstance(a, IV) and isinstance(b, IV):
            x, y = a.t, b.t
            if op in ('Add', 'Sub', 'Mul', 'AddUnchecked', 'SubUnchecked', 'MulUnchecked'):
                r = {'A': x + y, 'S': x - y, 'M': x * y}[op[0]]
                lo, hi = INT_RANGES.get(a.ty, (None, None))
                if lo is not None:
                    st.panic_if(z3.Or(r < lo, r > hi), f'integer overflow in {op} ({a.ty})')
                return IV(zs(r), a.ty)
            if op in ('AddWithOverflow', 'SubWithOverflow', 'MulWithOverflow'):
                r = {'A': x + y, 'S': x - y, 'M': x * y}[op[0]]
                lo, hi = INT_RANGES.get(a.ty, (None, None))
                if lo is None:
                    raise Inconclusive(f'overflow check on {a.ty}')
                return Agg('tuple', [IV(zs(r), a.ty), BV(zs(z3.Or(r < lo, r > hi)))])
            if op in ('Lt', 'Le', 'Gt', 'Ge', 'Eq', 'Ne'):
                t = {'Lt': x < y, 'Le': x <= y, 'Gt': x > y, 'Ge': x >= y, 'Eq': x == y, 'Ne': x != y}[op]
                return BV(zs(t))
            if op == 'Div' or op == 'Rem':
                st.panic_if(y == 0, 'division by zero')
                # Rust integer division truncates toward zero; restricted to non-negative operands here
                st.require(z3.And(x >= 0, y > 0), 'integer division on non-negative operands')
                return IV(zs(x / y if op == 'Div' else x % y), a.ty)
            if op in ('BitOr', 'BitAnd', 'BitXor') and a.concrete() is not None and b.concrete() is not None:
                ca, cb = a.concrete(), b.concrete()
                return IV({'BitOr': ca | cb, 'BitAnd': ca & cb, 'BitXor': ca ^ cb}[op], a.ty)
            raise Inconclusive(f'integer operation {op}')
        if isinstance(a, BV) and isinstance(b, BV):
            t = {'Eq': a.t == b.t, 'Ne': a.t != b.t, 'BitAnd': z3.And(a.t, b.t), 'BitOr': z3.Or(a.t, b.t), 'BitXor': z3.Xor(a.t, b.t)}.get(op)
            if t is None:
                raise Inconclusive(f'bool operation {op}')
            return BV(zs(t))
        raise Inconclusive(f'binop {op} on {type(a).__name__}/{type(b).__name__}')

    # ---- closure captures
    def closure_arity(self, closure_text):
        """Number of captured places the closure body reads (1 + highest field index of its environment parameter)."""
        try:
            fn = self.env.closure_fn(self.prog, closure_text)
        except Inconclusive:
            return None
        hi = -1
        for line in fn.raw:
            for m in re.finditer(r'\(\(?\*?_1\)?\.(\d+): ', line):
                hi = max(hi, int(m.group(1)))
        return hi + 1

    def recover_captures(self, st, depth, ops, need, closure_text):
        """rustc's MIR pretty-printer lists ONE operand per captured *variable*; with edition-2021 disjoint field capture a
        variable can contribute several captured places whose operands are then not printed.  They are the temporaries
        assigned by the statements directly preceding the closure aggregate; they are recovered here and checked against
        the field types the closure body declares - anything that does not line up is inconclusive."""
        from mir import Operand, Place
        block, si = self._cur
        frame = st.stack[depth]
        fn = self.env.closure_fn(self.prog, closure_text)
        want = {}
        for line in fn.raw:
            for m in re.finditer(r'\(\(?\*?_1\)?\.(\d+): ([^)]*(?:\([^)]*\)[^)]*)*)\)', line):
                want.setdefault(int(m.group(1)), m.group(2).strip())
        prev = []
        j = si - 1
        while j >= 0 and len(prev) < need:
            stmt = block.stmts[j]
            if stmt.kind != 'assign' or stmt.place.proj:
                break
            prev.insert(0, stmt.place.local)
            j -= 1
        printed = [o.place.local for o in ops if o.place is not None and not o.place.proj]
        # find a window of `need` consecutive temporaries that contains the printed operands in order
        for start in range(0, len(prev) - need + 1):
            window = prev[start:start + need]
            it = iter(window)
            if all(p in it for p in printed):
                ok = True
                for idx, local in enumerate(window):
                    ty = frame.fn.locals.get(local, '').strip()
                    if idx in want and _norm_ty(want[idx]) != _norm_ty(ty):
                        ok = False
                if ok:
                    return [Operand('move', place=Place(l)) for l in window]
        raise Inconclusive(f'cannot recover the captured operands of {closure_text} (printed {len(ops)}, body reads {need})')

    # ---- branching by decision replay
    def choose(self, st, options):
        """options: list of (condition, payload). Returns the payload of the option taken on this path."""
        feas = [(zs(c), p) for c, p in options if self.feasible(st, c)]
        if not feas:
            st.ended = 'infeasible'
            raise _PathEnds()
        if len(feas) == 1:
            idx = 0
        else:
            k = len(st.taken)
            if k < len(st.prefix):
                idx = st.prefix[k]
                if idx >= len(feas):
                    raise Inconclusive('non-deterministic branch feasibility between re-executions')
            else:
                idx = 0
                st.alternatives.append((k, len(feas)))
            st.taken.append(idx)
        c, p = feas[idx]
        if not is_true(c):
            st.pc.append(c)
        return p

    def split_bool(self, st, cond):
        """Branches on a (possibly symbolic) boolean term; returns the Python bool taken on this path."""
        c = zs(cond)
        if z3.is_true(c):
            return True
        if z3.is_false(c):
            return False
        return self.choose(st, [(c, True), (z3.Not(c), False)])

    # ---- execution
    def engine_of(self, fn):
        owner = getattr(fn, 'prog', None)
        if owner is None or owner is self.prog:
            return self
        for e in self.siblings.values():
            if e.prog is owner:
                return e
        return self

    def exec_fn(self, st, fn, args):
        other = self.engine_of(fn)
        if other is not self:
            r = other.exec_fn(st, fn, args)
            self.functions_used |= other.functions_used
            return r
        self.prog.parse(fn)
        self.functions_used.add(fn.name)
        if len(st.stack) > self.inline_depth:
            raise Inconclusive(f'inline depth exceeded at {fn.name}')
        if len(args) != len(fn.args):
            raise Inconclusive(f'arity mismatch calling {fn.name}: {len(args)} vs {len(fn.args)}')
        frame = Frame(fn)
        for (local, _ty), v in zip(fn.args, args):
            frame.locals[local] = v
        st.stack.append(frame)
        depth = len(st.stack) - 1
        try:
            return self.exec_from(st, depth, 0)
        finally:
            del st.stack[depth:]

    def exec_from(self, st, depth, bb):
        steps = 0
        frame = st.stack[depth]
        fn = frame.fn
        while True:
            steps += 1
            if steps > 20000:
                raise Inconclusive('step limit exceeded (loop?)')
            block = fn.blocks.get(bb)
            if block is None:
                raise Inconclusive(f'missing block bb{bb} in {fn.name}')
            for si, stmt in enumerate(block.stmts):
                self._cur = (block, si)
                self.exec_stmt(st, depth, stmt)
            term = block.term
            if term is None:
                raise Inconclusive(f'block bb{bb} of {fn.name} has no terminator')
            k = term.kind
            if k == 'goto':
                bb = term.data
                continue
            if k == 'return':
                return frame.locals.get(0, UnitV())
            if k == 'drop':
                bb = term.data[1].get('return')
                continue
            if k == 'switch':
                op, targets = term.data
                v = self.eval_operand(st, depth, op)
                if isinstance(v, BV):
                    t = z3.If(v.t, 1, 0)
                elif isinstance(v, IV):
                    t = v.t
                else:
                    raise Inconclusive(f'switchInt on {v!r}')
                t = zs(t)
                cases = []
                others = []
                for key, tgt in targets.items():
                    if key == 'otherwise':
                        continue
                    val = int(key)
                    cases.append((t == val, tgt))
                    others.append(t != val)
                if 'otherwise' in targets:
                    cases.append((z3.And(*others) if others else z3.BoolVal(True), targets['otherwise']))
                bb = self.choose(st, cases)
                continue
            if k == 'assert':
                cond_op, expected, msg, targets = term.data
                v = self.eval_operand(st, depth, cond_op)
                if not isinstance(v, BV):
                    raise Inconclusive('assert on non-bool')
                ok = zs(v.t if expected else z3.Not(v.t))
                st.panic_if(z3.Not(ok), f'MIR assert: {msg[:60]}')
                if not self.feasible(st, ok):
                    st.ended = 'panic'
                    raise _PathEnds()
                if not is_true(ok):
                    st.pc.append(ok)
                bb = targets.get('success')
                continue
            if k == 'call':
                dest, callee, arg_ops, targets = term.data
                args = [self.eval_operand(st, depth, a) for a in arg_ops]
                ret_bb = targets.get('return')
                dest_ty = fn.locals.get(dest.local, '') if not dest.proj else ''
                ret = self.call(st, callee, args, dest_ty)
                if ret_bb is None:
                    st.ended = 'diverged'
                    raise _PathEnds()
                if isinstance(ret, EnumV) and dest_ty and (not ret.ty or ret.ty in ('Option', 'Result', 'ControlFlow')):
                    ret.ty = dest_ty
                self.write_place(st, depth, dest, ret)
                bb = ret_bb
                continue
            if k in ('unreachable',):
                st.ended = 'unreachable'
                raise _PathEnds()
            if k in ('diverge', 'resume'):
                st.panic_if(z3.BoolVal(True), f'diverging call: {term.text[:80]}')
                st.ended = 'panic'
                raise _PathEnds()
            raise Inconclusive(f'unsupported terminator in {fn.name}: {term.text[:160]}')

    def exec_stmt(self, st, depth, stmt):
        if stmt.kind == 'nop':
            return
        if stmt.kind == 'assign':
            frame = st.stack[depth]
            dest_ty = frame.fn.locals.get(stmt.place.local, '') if not stmt.place.proj else ''
            v = self.eval_rvalue(st, depth, stmt.rvalue, dest_ty)
            if isinstance(v, EnumV) and (not v.ty or v.ty in ('Option', 'Result')) and dest_ty:
                v.ty = dest_ty
            self.write_place(st, depth, stmt.place, v)
            return
        if stmt.kind == 'setdiscr':
            cur = self.read_place(st, depth, stmt.place)
            if isinstance(cur, EnumV):
                cur.discr = z3.IntVal(stmt.rvalue)
                return
            raise Inconclusive('set discriminant of non-enum')
        raise Inconclusive(f'unsupported statement in {st.stack[depth].fn.name}: {stmt.text[:200]}')

    # ---- calls
    def call(self, st, callee, args, dest_ty=''):
        from models import dispatch  # late import (models needs the classes above)
        return dispatch(self, st, callee, args, dest_ty)

    def call_closure(self, st, closure, args):
        """Calls a closure value (Agg kind=closure, possibly behind references) with the argument list `args`."""
        self_ref = None
        val = closure
        while isinstance(val, RefV):
            self_ref = val
            val = val.load()
        if isinstance(val, ArcV):
            val = val.cell.v
        if isinstance(val, DynV):
            return self.env.dyn_closure(self, st, val.tag, list(args))
        if isinstance(val, Opaque):
            # a function item used as a callable
            return self.call(st, val.name, list(args))
        if not (isinstance(val, Agg) and val.kind == 'closure'):
            raise Inconclusive(f'call of non-closure value {val!r}')
        fn = self.env.closure_fn(self.prog, val.fn_name)
        self.prog.parse(fn)
        self_ty = fn.args[0][1].strip()
        if self_ty.startswith('&'):
            first = self_ref if self_ref is not None else RefV(Cell(val), 0, True)
        else:
            first = copy_value(val)
        return self.exec_fn(st, fn, [first] + list(args))

    def explore(self, body, max_paths=4000):
        """Runs `body(st)` once per feasible path. Returns list of (state, result|None)."""
        results = []
        work = [[]]
        while work:
            prefix = work.pop()
            st = State(prefix)
            try:
                out = body(st)
            except _PathEnds:
                out = None
            results.append((st, out))
            for k, n in st.alternatives:
                for j in range(1, n):
                    work.append(st.taken[:k] + [j])
            if len(results) > max_paths:
                raise Inconclusive(f'more than {max_paths} paths')
        return results


def _norm_ty(t):
    t = re.sub(r'\b(?:\w+::)+', '', t)       # drop module paths
    return re.sub(r'\s+', '', t)


class _PathEnds(Exception):
    pass


class _Downcast:
    def __init__(self, enum, variant):
        self.enum, self.variant = enum, variant


class _DowncastHolder:
    """Container protocol adapter so that `(x as Variant).N` resolves to the enum payload."""

    def __init__(self, enum, variant):
        self.d = _Downcast(enum, variant)

    def get(self, key):
        return self.d

    def set(self, key, v):
        raise Inconclusive('assignment to a downcast place')
