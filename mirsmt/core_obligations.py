"""MIR->SMT obligations over vrp-core (schedule/time-window kernels, statistics, cost estimates, limits).

Every obligation: (1) symbolically executes the REAL functions from the current MIR dump on an input template whose
scalars are symbolic, (2) states the property against an independent reference written here directly as SMT terms,
(3) asks z3 (and cvc5 as second opinion) for a counter-model of `assumptions /\\ path /\\ not(claim /\\ exactness
side-conditions)`; unsat on every path = holds within the bound; sat = counterexample (returned as a concrete case for
native replay); (4) keeps a reachability witness per obligation (the interesting outcome must be satisfiable)."""
import re
import time

import z3

import drivers
import layout
import mir
import symex
from models import mk_option
from symex import (Agg, ArcV, BV, Cell, EnumV, FV, IV, Inconclusive, Opaque, RefV, StateV, UnitV, VecV, f_eq, f_le, f_lt, f_max, f_min, zs)
from smt import Decider


class Ctx:
    """Shared per-run context: program, layout, decider."""

    def __init__(self, crate='vrp-core', fresh=True):
        self.prog = mir.load(crate, fresh=fresh)
        self.layout = layout.Layout(crate)
        self.decider = Decider()


class Result:
    def __init__(self, name):
        self.name = name
        self.status = 'holds'      # holds | violated | inconclusive
        self.detail = ''
        self.queries = 0
        self.paths = 0
        self.claims = 0
        self.witnesses = 0         # reachability witnesses confirmed
        self.functions = set()
        self.counterexample = None
        self.solver_time = 0.0
        self.time = 0.0
        self.bounds = ''
        self.model = None
        self.case = None


# ---------------------------------------------------------------------------------------------------------------------
# reference simulation (independent of the code under test; plain SMT terms in the same exact-int value space)

def fv_add(a, b):
    """reference arithmetic on FV without side-condition bookkeeping (the reference is only evaluated where the
    implementation's own side-conditions were proved)"""
    m = z3.Or(a.m, b.m)
    return FV(zs(m), zs(z3.If(m, 0, a.v + b.v)))


def fv_sub(a, b):
    m = z3.And(a.m, z3.Not(b.m))
    return FV(zs(m), zs(z3.If(z3.Or(a.m, b.m), 0, a.v - b.v)))


class TourSpec:
    """A tour template: concrete shape (closed/open, number of jobs), symbolic scalars."""

    def __init__(self, env, k, closed, prefix='', shift_end_max=False):
        self.env, self.k, self.closed, self.prefix = env, k, closed, prefix
        p = prefix
        self.shift_start = env.sym_f(p + 'shift_start')
        self.dep0 = env.sym_f(p + 'dep0')
        env.assumptions.append(self.dep0.v >= self.shift_start.v)
        if closed:
            self.shift_end = env.sym_f(p + 'shift_end')
            env.assumptions.append(self.shift_end.v >= self.shift_start.v)
        else:
            # a vehicle without end place: Fleet::new sets the shift end to Float::MAX
            self.shift_end = FV.max_value()
        self.start_loc = env.sym_i(p + 'l0', 0, 1000)
        self.end_loc = env.sym_i(p + 'lend', 0, 1000) if closed else None
        self.jobs = []
        for i in range(1, k + 1):
            self.jobs.append(self.sym_job(f'{p}j{i}'))

    def sym_job(self, name):
        env = self.env
        j = {
            'name': name,
            'loc': env.sym_i(name + '_loc', 0, 1000),
            'dur': env.sym_f(name + '_dur'),
            'tws': env.sym_f(name + '_tws'),
            'twe': env.sym_f_or_max(name + '_twe'),
        }
        env.assumptions.append(z3.Or(j['twe'].m, j['tws'].v <= j['twe'].v))
        return j

    def nodes(self, jobs=None):
        """[(loc, dur, tws, twe, is_job)] including depot ends."""
        jobs = self.jobs if jobs is None else jobs
        out = [(self.start_loc, FV.const(0), self.shift_start, FV.max_value(), False)]
        for j in jobs:
            out.append((j['loc'], j['dur'], j['tws'], j['twe'], True))
        if self.closed:
            out.append((self.end_loc, FV.const(0), FV.const(0), self.shift_end, False))
        return out

    def build(self, jobs=None, old='old'):
        """RouteContext value with arbitrary (symbolic) previous schedules - the caches must not depend on them."""
        env = self.env
        acts = []
        nodes = self.nodes(jobs)
        for idx, (loc, dur, tws, twe, is_job) in enumerate(nodes):
            if idx == 0:
                arr, dep = self.dep0, self.dep0
            else:
                arr, dep = env.sym_f(f'{self.prefix}{old}_arr{idx}'), env.sym_f(f'{self.prefix}{old}_dep{idx}')
            job_arcs = getattr(self, 'job_arcs', None)
            use = jobs if jobs is not None else self.jobs
            arc = None
            if job_arcs is not None and is_job:
                arc = job_arcs.get(id(use[idx - 1]))
            acts.append(env.activity(loc, dur, tws, twe, arr, dep, has_job=is_job, job=arc))
        actor = env.actor(self.start_loc, self.shift_start, self.end_loc, self.shift_end,
                          vehicle_costs=getattr(self, 'vehicle_costs', None), driver_costs=getattr(self, 'driver_costs', None),
                          dimens=getattr(self, 'vehicle_dimens', None))
        if not self.closed:
            # ActorDetail.time.end is MAX for open tours
            pass
        return env.route_ctx(actor, acts, self.closed, n_jobs=getattr(self, 'n_jobs', None))

    # ---- reference simulation
    def sim(self, jobs=None):
        env = self.env
        nodes = self.nodes(jobs)
        arr = [self.dep0]
        dep = [self.dep0]
        for i in range(1, len(nodes)):
            loc, dur, tws, twe, _ = nodes[i]
            a = fv_add(dep[i - 1], FV(False, env.Dur(nodes[i - 1][0].t, loc.t)))
            start = f_max(a, tws)
            arr.append(a)
            dep.append(fv_add(start, dur))
        return nodes, arr, dep

    def feasible(self, jobs=None):
        nodes, arr, dep = self.sim(jobs)
        conds = []
        for i in range(1, len(nodes)):
            conds.append(f_le(arr[i], nodes[i][3]))
        return z3.And(*conds) if conds else z3.BoolVal(True)

    def matrix_assumptions(self, jobs=None):
        """Range of every routing entry the reference uses (the implementation adds its own per application)."""
        env = self.env
        nodes = self.nodes(jobs)
        out = []
        locs = [n[0] for n in nodes]
        for a in locs:
            for b in locs:
                for fn in (env.Dur, env.Dist):
                    t = fn(a.t, b.t)
                    out.append(z3.And(t >= 0, t <= env.bound))
        return out


def _ev_int(model, t):
    return model.eval(t, model_completion=True).as_long()


def _ev_f(model, f):
    if z3.is_true(model.eval(f.m, model_completion=True)):
        return None
    return _ev_int(model, f.v)


def _func_table(model, fn):
    interp = model[fn]
    if interp is None:
        return [], 0
    entries = []
    try:
        for i in range(interp.num_entries()):
            e = interp.entry(i)
            entries.append([e.arg_value(0).as_long(), e.arg_value(1).as_long(), e.value().as_long()])
        default = interp.else_value()
        default = default.as_long() if z3.is_int_value(default) else 0
    except Exception:
        default = 0
    return entries, default


def make_case(kind, env, spec, model, target=None, leg=None, extra=None, target2=None):
    """Concrete scenario (JSON-able) from a solver model, in the vocabulary of /verif/replay."""
    def job(j):
        d = {'loc': _ev_int(model, j['loc'].t), 'dur': _ev_f(model, j['dur']), 'tws': _ev_f(model, j['tws']), 'twe': _ev_f(model, j['twe'])}
        if 'demand' in j:
            d['demand'] = {k: _ev_int(model, v.t) for k, v in j['demand'].items()}
        return d
    dur, dur_default = _func_table(model, env.Dur)
    dist, dist_default = _func_table(model, env.Dist)
    case = {
        'kind': kind, 'closed': spec.closed, 'shift_start': _ev_f(model, spec.shift_start), 'dep0': _ev_f(model, spec.dep0),
        'shift_end': _ev_f(model, spec.shift_end) if spec.closed else None,
        'l0': _ev_int(model, spec.start_loc.t), 'lend': _ev_int(model, spec.end_loc.t) if spec.closed else 0,
        'jobs': [job(j) for j in spec.jobs], 'target': job(target) if target is not None else None, 'leg': leg,
        'target2': job(target2) if target2 is not None else None,
        'dur': dur, 'dist': dist, 'dur_default': dur_default, 'dist_default': dist_default,
    }
    for name in ('vehicle_costs_sym', 'driver_costs_sym'):
        c = getattr(spec, name, None)
        if c:
            case[name[:-4]] = {k: _ev_f(model, v) for k, v in c.items()}
    if extra:
        for k, v in extra.items():
            case[k] = v
    return case


def run_update(ctx, env, eng, st, rc):
    cell = Cell(rc)
    f = ctx.prog.find_free('update_route_schedule')
    eng.exec_fn(st, f, [RefV(cell, 0, True), env.dyn_activity(), env.dyn_transport()])
    return cell.v


def side_ok(st):
    return z3.And(*[c for _, c, _ in st.side]) if st.side else z3.BoolVal(True)


def decide_claim(ctx, res, env, st, claim, extra_assumptions=(), what='', ignore_side=False):
    """Returns True if `claim` (and the exactness side-conditions of this path) hold for every value on this path."""
    assertions = list(env.assumptions) + list(st.assumed) + list(extra_assumptions) + list(st.pc)
    goal = claim if ignore_side else z3.And(claim, side_ok(st))
    verdict, model, dt = ctx.decider.check(assertions + [z3.Not(goal)])
    res.queries += 1
    res.claims += 1
    res.solver_time += dt
    if verdict == 'unsat':
        return True
    if verdict == 'sat':
        # which part fails?
        part = 'claim'
        try:
            if not z3.is_true(model.eval(side_ok(st), model_completion=True)):
                part = 'exactness side-condition of the numeric abstraction'
        except Exception:
            pass
        res.status = 'violated' if part == 'claim' else 'inconclusive'
        res.detail = f'{what}: counter-model found ({part})'
        res.counterexample = {'what': what, 'part': part, 'model': {str(d): str(model[d]) for d in model.decls()}}
        res.model = model
        return False
    res.status = 'inconclusive'
    res.detail = f'{what}: solver answered {verdict}'
    return False


def witness(ctx, res, env, st, cond, extra_assumptions=()):
    assertions = list(env.assumptions) + list(st.assumed) + list(extra_assumptions) + list(st.pc) + [cond]
    verdict, model, dt = ctx.decider.check(assertions, cross=False)
    res.queries += 1
    res.solver_time += dt
    return verdict == 'sat'


def no_panic(ctx, res, env, st, extra_assumptions=(), what=''):
    if len(st.panics) > 3:
        # one query for "any panic reachable"; only a satisfiable (or undecided) answer is broken down per panic site
        assertions = list(env.assumptions) + list(st.assumed) + list(extra_assumptions) + [z3.Or(*[c for c, _ in st.panics])]
        verdict, model, dt = ctx.decider.check(assertions)
        res.queries += 1
        res.solver_time += dt
        if verdict == 'unsat':
            return True
    for cond, msg in st.panics:
        assertions = list(env.assumptions) + list(st.assumed) + list(extra_assumptions) + [cond]
        verdict, model, dt = ctx.decider.check(assertions)
        res.queries += 1
        res.solver_time += dt
        if verdict != 'unsat':
            res.status = 'violated' if verdict == 'sat' else 'inconclusive'
            res.detail = f'{what}: panic reachable: {msg}'
            if verdict == 'sat':
                res.counterexample = {'what': what + ' panic: ' + msg, 'model': {str(d): str(model[d]) for d in model.decls()}}
                res.model = model          # the inputs that reach the panic: callers build their replay case from it
            return False
    return True


# ---------------------------------------------------------------------------------------------------------------------
# obligations

def ob_schedule_state_statistics(ctx, k, closed, bits):
    """C06(1)(2) / C03 / C05: the complete `update_route_schedule` (real MIR incl. its three fold closures) on a tour of
    k jobs equals the reference simulation: schedules, latest arrivals, waiting suffix sums, total distance/duration;
    the result does not depend on previously cached schedules/states (history independence); no panic."""
    name = f'sched_state_stats[k={k},{"closed" if closed else "open"}]'
    res = Result(name)
    res.bounds = f'tour of {k} job activities, {"closed" if closed else "open"}; times/durations/windows integer-valued in [0,2^{bits}] (window end may be Float::MAX); routing = uninterpreted time-independent function with values in [0,2^{bits}]; locations symbolic'
    t0 = time.time()
    env = drivers.Env(ctx.prog, ctx.layout, bits)
    eng = symex.Engine(ctx.prog, ctx.layout, env)
    spec_holder = {}

    def body(st):
        env.assumptions.clear()
        spec = TourSpec(env, k, closed)
        spec_holder['spec'] = spec
        rc = spec.build()
        # pre-existing (stale) state must be overwritten, not read
        state = env.state_of(rc)
        state.table['latest_arrival'] = VecV([env.sym_f(f'stale_la{i}') for i in range(k + 2)])
        state.table['waiting_time'] = VecV([env.sym_f(f'stale_w{i}') for i in range(k + 2)])
        state.table['total_distance'] = env.sym_f('stale_td')
        state.table['total_duration'] = env.sym_f('stale_tdur')
        return run_update(ctx, env, eng, st, rc)

    paths = eng.explore(body)
    res.paths = len(paths)
    res.functions |= eng.functions_used
    ok_paths = 0
    for st, out in paths:
        if out is None:
            # a path that ends without returning must be a panic-free dead end; panics are checked below
            if not no_panic(ctx, res, env, st, what=name):
                break
            continue
        ok_paths += 1
        spec = spec_holder['spec']
        extra = spec.matrix_assumptions()
        nodes, arr, dep = spec.sim()
        acts = env.tour_activities(out)
        claims = []
        n = len(nodes)
        if len(acts) != n:
            res.status, res.detail = 'violated', 'number of activities changed by the schedule update'
            break
        for i in range(1, n):
            claims.append(f_eq(env.act_field(acts[i], 'schedule.arrival'), arr[i]))
            claims.append(f_eq(env.act_field(acts[i], 'schedule.departure'), dep[i]))
        # start activity untouched
        claims.append(f_eq(env.act_field(acts[0], 'schedule.departure'), spec.dep0))
        state = env.state_of(out)
        la = state.table.get('latest_arrival')
        wt = state.table.get('waiting_time')
        n_states = n - 1 if (closed or k == 0) else n
        if la is None or wt is None or len(la.items) != n_states or len(wt.items) != n_states:
            res.status, res.detail = 'violated', f'state vectors have unexpected length ({la and len(la.items)}, expected {n_states})'
            break
        # reference latest arrival / waiting (backward)
        ref_la = [None] * n
        ref_w = [None] * n
        if closed:
            nxt_la, nxt_loc = spec.shift_end, spec.end_loc
        else:
            nxt_la, nxt_loc = FV.max_value(), None
        wsum = FV.const(0)
        for i in range(n - 1 if closed else n - 1, 0, -1):
            loc, dur, tws, twe, is_job = nodes[i]
            if not is_job:
                continue
            if nxt_loc is None:
                la_i = twe
            else:
                la_i = f_min(twe, fv_sub(fv_sub(nxt_la, FV(False, env.Dur(loc.t, nxt_loc.t))), dur))
            wsum = fv_add(wsum, f_max(fv_sub(tws, arr[i]), FV.const(0)))
            ref_la[i], ref_w[i] = la_i, wsum
            nxt_la, nxt_loc = la_i, loc
        for i in range(0, n_states):
            if ref_la[i] is None:
                claims.append(f_eq(la.items[i], FV.const(0)))
                claims.append(f_eq(wt.items[i], FV.const(0)))
            else:
                claims.append(f_eq(la.items[i], ref_la[i]))
                claims.append(f_eq(wt.items[i], ref_w[i]))
        # totals
        dist = FV.const(0)
        for i in range(1, n):
            dist = fv_add(dist, FV(False, env.Dist(nodes[i - 1][0].t, nodes[i][0].t)))
        td, tdur = state.table.get('total_distance'), state.table.get('total_duration')
        if td is None or tdur is None:
            res.status, res.detail = 'violated', 'tour totals not written'
            break
        claims.append(f_eq(td, dist))
        claims.append(f_eq(tdur, fv_sub(dep[n - 1], spec.dep0)))
        # the route context is marked stale by the mutable accessors (C05: route_mut/state_mut/as_mut set the flag)
        cache = env.field(out, 'context::RouteContext', 'cache')
        claims.append(env.field(cache, 'context::RouteCache', 'is_stale').t)
        if not decide_claim(ctx, res, env, st, z3.And(*claims), extra, what=name):
            if res.model is not None:
                res.case = make_case('sched_state_stats', env, spec, res.model)
            break
        if not no_panic(ctx, res, env, st, extra, what=name):
            break
        # history independence: no output mentions a previously cached value
        stale = set()
        outs = [env.act_field(a, p) for a in acts for p in ('schedule.arrival', 'schedule.departure')] + la.items + wt.items + [td, tdur]
        for o in outs:
            for t in (o.m, o.v):
                for c in _consts(t):
                    if c.startswith('stale_') or c.startswith('old_'):
                        stale.add(c)
        # the start activity keeps its own schedule (it is an input), everything else must be recomputed
        stale -= {'old_arr0', 'old_dep0'}
        res.claims += 1
        if stale:
            res.status, res.detail = 'violated', f'outputs depend on previously cached values: {sorted(stale)[:4]}'
            res.counterexample = {'what': name + ' history dependence', 'symbols': sorted(stale)}
            break
        if witness(ctx, res, env, st, z3.BoolVal(True), extra):
            res.witnesses += 1
    if res.status == 'holds' and (ok_paths == 0 or res.witnesses == 0):
        res.status, res.detail = 'inconclusive', 'vacuous: no feasible returning path'
    res.time = time.time() - t0
    return res


def _consts(t):
    seen, out, todo = set(), set(), [t]
    while todo:
        x = todo.pop()
        if x.get_id() in seen:
            continue
        seen.add(x.get_id())
        if z3.is_const(x) and x.decl().kind() == z3.Z3_OP_UNINTERPRETED:
            out.add(x.decl().name())
        todo.extend(x.children())
    return out


def transport_constraint(env):
    return env.struct('transport::TransportConstraint', transport=env.arc_dyn_transport(), activity=env.arc_dyn_activity(),
                      time_window_code=Agg('struct', [IV(1, 'i32')], 'goal::ViolationCode'))


def activity_ctx(env, index, prev_ref, target_ref, next_ref):
    nxt = mk_option(True, next_ref, ty='Option<&Activity>') if next_ref is not None else mk_option(False, ty='Option<&Activity>')
    return env.struct('context::ActivityContext', index=IV(index), prev=prev_ref, target=target_ref, next=nxt)


def ob_time_window_gate(ctx, k, closed, bits, with_stop=True):
    """C06(3)(4)(5) / C01: on a feasible tour of k jobs whose caches were computed by the real `update_route_schedule`,
    for EVERY leg p and an arbitrary target activity, `TransportConstraint::evaluate_activity` returns no violation
    exactly when the tour with the target inserted at p is feasible for the reference simulation (sound + exact), and a
    violation flagged `stopped` implies that every later position is infeasible as well."""
    name = f'tw_gate[k={k},{"closed" if closed else "open"}]'
    res = Result(name)
    res.bounds = (f'tour of {k} job activities ({"closed" if closed else "open"}), every insertion leg, one symbolic target place; '
                  f'times integer-valued in [0,2^{bits}] (window ends may be Float::MAX); routing uninterpreted in [0,2^{bits}]')
    t0 = time.time()
    n_legs = k + 1
    for p in range(n_legs):
        env = drivers.Env(ctx.prog, ctx.layout, bits)
        eng = symex.Engine(ctx.prog, ctx.layout, env)
        holder = {}

        def body(st, p=p, env=env, eng=eng, holder=holder):
            env.assumptions.clear()
            spec = TourSpec(env, k, closed)
            target = spec.sym_job('target')
            holder['spec'], holder['target'] = spec, target
            holder['target2'] = spec.sym_job('target2')
            rc = spec.build()
            rc = run_update(ctx, env, eng, st, rc)
            holder['n_side_update'] = len(st.side)
            acts = env.tour_activities(rc)
            tgt_act = env.activity(target['loc'], target['dur'], target['tws'], target['twe'], FV.const(0), FV.const(0))
            acts_vec = env.field(env.field(env.field(rc, 'context::RouteContext', 'route'), 'route::Route', 'tour'), 'solution::tour::Tour', 'activities')
            prev_ref = RefV(acts_vec, p)
            next_ref = RefV(acts_vec, p + 1) if p + 1 < len(acts) else None
            actx = activity_ctx(env, p, prev_ref, RefV(Cell(tgt_act), 0), next_ref)
            fns = ctx.prog.find_method('TransportConstraint', 'evaluate_activity')
            if len(fns) != 1:
                raise Inconclusive('TransportConstraint::evaluate_activity not found')
            out = eng.exec_fn(st, fns[0], [RefV(Cell(transport_constraint(env)), 0), RefV(Cell(rc), 0), RefV(Cell(actx), 0)])
            return out

        paths = eng.explore(body)
        res.paths += len(paths)
        res.functions |= eng.functions_used
        saw_accept = saw_skip = saw_stop = False
        for st, out in paths:
            spec, target = holder['spec'], holder['target']
            # rebuild the specs of THIS path (symbols are identical by name across re-executions)
            jobs_post = spec.jobs[:p] + [target] + spec.jobs[p:]
            extra = spec.matrix_assumptions(jobs_post)
            pre_feasible = spec.feasible()
            assume = extra + [pre_feasible]
            if out is None:
                if not no_panic(ctx, res, env, st, assume, what=f'{name} leg {p}'):
                    break
                continue
            post_feasible = spec.feasible(jobs_post)
            accepted = zs(out.discr == 0)
            if not decide_claim(ctx, res, env, st, accepted == post_feasible, assume, what=f'{name} leg {p}: accepted <=> feasible after insertion'):
                if res.model is not None:
                    res.case = make_case('tw_gate', env, spec, res.model, target, p, target2=holder.get('target2'))
                break
            if with_stop:
                # stopped => every later position infeasible
                v = out.payload.get(1, [None])[0]
                if v is not None and not z3.is_false(accepted == False):  # noqa: E712
                    stopped = env.field(v, 'goal::ConstraintViolation', 'stopped').t
                    # a `stopped` verdict makes the evaluator abandon the remaining time windows/places of this leg AND all
                    # later legs, so it must not depend on the target: for an INDEPENDENT second target (other place, other
                    # time window) this leg and every later one must be infeasible as well
                    other = holder.get('target2')
                    later = []
                    for q in range(p, n_legs):
                        for tgt in ((target, other) if q > p else (other,)):
                            jobs_q = spec.jobs[:q] + [tgt] + spec.jobs[q:]
                            later.append(z3.Not(spec.feasible(jobs_q)))
                            assume = assume + spec.matrix_assumptions(jobs_q)
                    claim = z3.Implies(z3.And(z3.Not(accepted), stopped), z3.And(*later) if later else z3.BoolVal(True))
                    if not decide_claim(ctx, res, env, st, claim, assume, what=f'{name} leg {p}: stopped => this and every later leg infeasible for ANY target'):
                        if res.model is not None:
                            res.case = make_case('tw_gate', env, spec, res.model, target, p, target2=holder.get('target2'))
                        break
                    if witness(ctx, res, env, st, z3.And(z3.Not(accepted), stopped), assume):
                        saw_stop = True
                    if witness(ctx, res, env, st, z3.And(z3.Not(accepted), z3.Not(stopped)), assume):
                        saw_skip = True
            if not no_panic(ctx, res, env, st, assume, what=f'{name} leg {p}'):
                break
            if witness(ctx, res, env, st, accepted, assume):
                saw_accept = True
        if res.status != 'holds':
            break
        res.witnesses += int(saw_accept) + int(saw_skip) + int(saw_stop)
        if not saw_accept or not (saw_skip or saw_stop):
            res.status, res.detail = 'inconclusive', f'vacuous at leg {p}: accept={saw_accept} skip={saw_skip} stop={saw_stop}'
            break
    res.time = time.time() - t0
    return res


def move_ctx_activity(env, rc, actx):
    return EnumV('context::MoveContext', 1, {1: [RefV(Cell(Opaque('SolutionContext')), 0), RefV(Cell(rc), 0), RefV(Cell(actx), 0)]})


def move_ctx_route(env, rc, job):
    return EnumV('context::MoveContext', 0, {0: [RefV(Cell(Opaque('SolutionContext')), 0), RefV(Cell(rc), 0), RefV(Cell(job), 0)]})


def sym_costs(env, prefix, bits=8, concrete=None):
    hi = 2 ** bits
    if concrete is not None:
        fixed, pd, ct = (FV.const(x) for x in concrete)
    else:
        fixed = env.sym_f(prefix + '_fixed', 0, hi)
        pd = env.sym_f(prefix + '_per_distance', 0, hi)
        ct = env.sym_f(prefix + '_per_time', 0, hi)
    sym = {'fixed': fixed, 'per_distance': pd, 'per_driving_time': ct, 'per_waiting_time': ct, 'per_service_time': ct}
    return env.costs(fixed, pd, ct, ct, ct), sym


def insertion_setup(ctx, env, eng, st, k, closed, p, holder, costs=False, limits=False, rates=None):
    """Common part: feasible-shaped tour with caches from the real update + activity context for leg p."""
    spec = TourSpec(env, k, closed)
    if costs:
        spec.vehicle_costs, spec.vehicle_costs_sym = sym_costs(env, 'vc', concrete=rates[:3] if rates else None)
        spec.driver_costs, spec.driver_costs_sym = sym_costs(env, 'dc', concrete=rates[3:] if rates else None)
    target = spec.sym_job('target')
    holder['spec'], holder['target'] = spec, target
    rc = spec.build()
    rc = run_update(ctx, env, eng, st, rc)
    acts = env.tour_activities(rc)
    tgt_act = env.activity(target['loc'], target['dur'], target['tws'], target['twe'], FV.const(0), FV.const(0))
    acts_vec = env.field(env.field(env.field(rc, 'context::RouteContext', 'route'), 'route::Route', 'tour'), 'solution::tour::Tour', 'activities')
    prev_ref = RefV(acts_vec, p)
    next_ref = RefV(acts_vec, p + 1) if p + 1 < len(acts) else None
    actx = activity_ctx(env, p, prev_ref, RefV(Cell(tgt_act), 0), next_ref)
    return spec, target, rc, actx


def ref_totals(spec, jobs):
    env = spec.env
    nodes, arr, dep = spec.sim(jobs)
    dist = FV.const(0)
    for i in range(1, len(nodes)):
        dist = fv_add(dist, FV(False, env.Dist(nodes[i - 1][0].t, nodes[i][0].t)))
    waits = [f_max(fv_sub(nodes[i][2], arr[i]), FV.const(0)) for i in range(1, len(nodes)) if nodes[i][4]]
    return dist, fv_sub(dep[-1], spec.dep0), waits


def ob_distance_estimate(ctx, k, closed, bits):
    """C20: DistanceObjective::estimate for an insertion at leg p equals the change of the tour distance total (a route
    without jobs contributes nothing to the objective, so the change is the whole new tour there)."""
    name = f'distance_estimate[k={k},{"closed" if closed else "open"}]'
    res = Result(name)
    res.bounds = f'tour of {k} jobs ({"closed" if closed else "open"}), every leg, symbolic target; integer-valued in [0,2^{bits}]; routing uninterpreted'
    t0 = time.time()
    for p in range(k + 1):
        env = drivers.Env(ctx.prog, ctx.layout, bits)
        eng = symex.Engine(ctx.prog, ctx.layout, env)
        holder = {}

        def body(st, p=p, env=env, eng=eng, holder=holder):
            env.assumptions.clear()
            spec, target, rc, actx = insertion_setup(ctx, env, eng, st, k, closed, p, holder)
            obj = env.struct('transport::DistanceObjective', activity=env.arc_dyn_activity(), transport=env.arc_dyn_transport())
            fns = ctx.prog.find_method('DistanceObjective', 'estimate', trait='FeatureObjective')
            if len(fns) != 1:
                raise Inconclusive('DistanceObjective::estimate not found')
            return eng.exec_fn(st, fns[0], [RefV(Cell(obj), 0), RefV(Cell(move_ctx_activity(env, rc, actx)), 0)])

        paths = eng.explore(body)
        res.paths += len(paths)
        res.functions |= eng.functions_used
        seen = False
        for st, out in paths:
            spec, target = holder['spec'], holder['target']
            post = spec.jobs[:p] + [target] + spec.jobs[p:]
            extra = spec.matrix_assumptions(post)
            if out is None:
                if not no_panic(ctx, res, env, st, extra, what=name):
                    break
                continue
            d0, _, _ = ref_totals(spec, None)
            d1, _, _ = ref_totals(spec, post)
            delta = fv_sub(d1, d0) if k > 0 else d1
            if not decide_claim(ctx, res, env, st, f_eq(out, delta), extra, what=f'{name} leg {p}: estimate == realised distance change'):
                if res.model is not None:
                    res.case = make_case('estimate_distance', env, spec, res.model, target, p)
                break
            if not no_panic(ctx, res, env, st, extra, what=name):
                break
            seen = seen or witness(ctx, res, env, st, z3.Not(f_eq(out, FV.const(0))), extra)
        if res.status != 'holds':
            break
        res.witnesses += int(seen)
        if not seen:
            res.status, res.detail = 'inconclusive', f'vacuous at leg {p}'
            break
    res.time = time.time() - t0
    return res


def ref_cost(spec, jobs, empty_counts=False):
    """Total cost of the route by the definition used for the fitness (get_total_cost): vehicle + driver."""
    d, t, _ = ref_totals(spec, jobs)
    total = z3.IntVal(0)
    for c in (spec.vehicle_costs_sym, spec.driver_costs_sym):
        ct = c['per_driving_time']
        total = total + c['fixed'].v + c['per_distance'].v * d.v + ct.v * t.v
    return total


RATE_VECTORS_QUICK = [(1, 1, 1, 0, 0, 0), (0, 0, 0, 1, 1, 1), (3, 2, 5, 1, 4, 2)]
RATE_VECTORS_THOROUGH = [(1, 0, 0, 0, 0, 0), (0, 1, 0, 0, 0, 0), (0, 0, 1, 0, 0, 0), (0, 0, 0, 1, 0, 0), (0, 0, 0, 0, 1, 0), (0, 0, 0, 0, 0, 1),
                         (3, 2, 5, 1, 4, 2), (100, 7, 13, 50, 3, 11)]


def ob_cost_estimate(ctx, k, closed, bits, rate_vectors=None):
    """C20: CostObjective route estimate + activity estimate == change of the total cost (fixed + distance + time costs,
    vehicle and driver) whenever the tour contains no waiting before and after the insertion."""
    name = f'cost_estimate[k={k},{"closed" if closed else "open"}]'
    res = Result(name)
    rate_vectors = rate_vectors or RATE_VECTORS_QUICK
    res.bounds = (f'tour of {k} jobs ({"closed" if closed else "open"}), every leg, symbolic target; times in [0,2^{bits}]; cost rate vectors '
                  f'(vehicle fixed/distance/time, driver fixed/distance/time) in {rate_vectors} - the estimate is a linear form in the rates, '
                  f'so the unit vectors of the thorough tier span every rate vector; one time rate per actor part; no waiting before/after '
                  f'(precondition of the property)')
    t0 = time.time()
    for p, rates in [(p, r) for p in range(k + 1) for r in rate_vectors]:
        env = drivers.Env(ctx.prog, ctx.layout, bits)
        eng = symex.Engine(ctx.prog, ctx.layout, env)
        holder = {}

        def body(st, p=p, env=env, eng=eng, holder=holder, rates=rates):
            env.assumptions.clear()
            spec, target, rc, actx = insertion_setup(ctx, env, eng, st, k, closed, p, holder, costs=True, rates=rates)
            obj = env.struct('transport::CostObjective', activity=env.arc_dyn_activity(), transport=env.arc_dyn_transport())
            fns = ctx.prog.find_method('CostObjective', 'estimate', trait='FeatureObjective')
            if len(fns) != 1:
                raise Inconclusive('CostObjective::estimate not found')
            a = eng.exec_fn(st, fns[0], [RefV(Cell(obj), 0), RefV(Cell(move_ctx_activity(env, rc, actx)), 0)])
            job = EnumV('jobs::Job', 0, {0: [ArcV(Cell(Opaque('Single')))]})
            r = eng.exec_fn(st, fns[0], [RefV(Cell(obj), 0), RefV(Cell(move_ctx_route(env, rc, job)), 0)])
            return a, r

        paths = eng.explore(body)
        res.paths += len(paths)
        res.functions |= eng.functions_used
        seen = False
        for st, out in paths:
            spec, target = holder['spec'], holder['target']
            post = spec.jobs[:p] + [target] + spec.jobs[p:]
            extra = spec.matrix_assumptions(post)
            _, _, w0 = ref_totals(spec, None)
            _, _, w1 = ref_totals(spec, post)
            nowait = [f_eq(w, FV.const(0)) for w in w0 + w1]
            extra = extra + nowait
            if out is None:
                if not no_panic(ctx, res, env, st, extra, what=name):
                    break
                continue
            a, r = out
            est = a.v + r.v
            delta = ref_cost(spec, post) - (ref_cost(spec, None) if k > 0 else 0)
            claim = z3.And(z3.Not(a.m), z3.Not(r.m), est == delta)
            if not decide_claim(ctx, res, env, st, claim, extra, what=f'{name} leg {p}: estimate == realised cost change'):
                if res.model is not None:
                    res.case = make_case('estimate_cost', env, spec, res.model, target, p)
                break
            if not no_panic(ctx, res, env, st, extra, what=name):
                break
            seen = seen or witness(ctx, res, env, st, z3.BoolVal(True), extra)
        if res.status != 'holds':
            break
        res.witnesses += int(seen)
        if not seen:
            res.status, res.detail = 'inconclusive', f'vacuous at leg {p}'
            break
    res.time = time.time() - t0
    return res


def ob_limits_gate(ctx, k, closed, bits):
    """C01: TravelLimitConstraint accepts an insertion only if the tour distance and duration after the insertion stay
    within the limits (sound for both; exact for distance)."""
    name = f'limits_gate[k={k},{"closed" if closed else "open"}]'
    res = Result(name)
    res.bounds = f'tour of {k} jobs ({"closed" if closed else "open"}), every leg, symbolic target, optional symbolic distance/duration limits; integer-valued in [0,2^{bits}]'
    t0 = time.time()
    for p in range(k + 1):
        env = drivers.Env(ctx.prog, ctx.layout, bits)
        eng = symex.Engine(ctx.prog, ctx.layout, env)
        holder = {}

        def body(st, p=p, env=env, eng=eng, holder=holder):
            env.assumptions.clear()
            spec, target, rc, actx = insertion_setup(ctx, env, eng, st, k, closed, p, holder)
            has_d, has_t = z3.Bool('has_limit_distance'), z3.Bool('has_limit_duration')
            ld, lt = env.sym_f('limit_distance', 0, 2 ** (bits + 3)), env.sym_f('limit_duration', 0, 2 ** (bits + 3))
            holder['limits'] = (has_d, ld, has_t, lt)
            env.closures = {
                'limit_distance': lambda e, s, a: mk_option(has_d, ld, ty='Option<f64>'),
                'limit_duration': lambda e, s, a: mk_option(has_t, lt, ty='Option<f64>'),
            }
            from symex import DynV
            con = env.struct('tour_limits::TravelLimitConstraint', transport=env.arc_dyn_transport(),
                             tour_distance_limit_fn=ArcV(Cell(DynV('limit_distance'))), tour_duration_limit_fn=ArcV(Cell(DynV('limit_duration'))),
                             distance_code=Agg('struct', [IV(3, 'i32')], 'goal::ViolationCode'), duration_code=Agg('struct', [IV(4, 'i32')], 'goal::ViolationCode'))
            fns = ctx.prog.find_method('TravelLimitConstraint', 'evaluate', trait='FeatureConstraint')
            if len(fns) != 1:
                raise Inconclusive('TravelLimitConstraint::evaluate not found')
            return eng.exec_fn(st, fns[0], [RefV(Cell(con), 0), RefV(Cell(move_ctx_activity(env, rc, actx)), 0)])

        paths = eng.explore(body)
        res.paths += len(paths)
        res.functions |= eng.functions_used
        saw_acc = saw_rej = False
        for st, out in paths:
            spec, target = holder['spec'], holder['target']
            has_d, ld, has_t, lt = holder['limits']
            post = spec.jobs[:p] + [target] + spec.jobs[p:]
            extra = spec.matrix_assumptions(post)
            if out is None:
                if not no_panic(ctx, res, env, st, extra, what=name):
                    break
                continue
            d1, t1, _ = ref_totals(spec, post)
            # the tour as it stands respects its own limits (the gate is what maintains this invariant; a tour that already
            # exceeds a limit is not reachable through it) - a tour without jobs is not subject to the limits yet
            if k > 0:
                d0, t0_, _ = ref_totals(spec, None)
                extra = extra + [z3.Or(z3.Not(has_d), f_le(d0, ld)), z3.Or(z3.Not(has_t), f_le(t0_, lt))]
            accepted = zs(out.discr == 0)
            within_d = z3.Or(z3.Not(has_d), f_le(d1, ld))
            within_t = z3.Or(z3.Not(has_t), f_le(t1, lt))
            sound = z3.Implies(accepted, z3.And(within_d, within_t))
            exact_d = z3.Implies(z3.And(z3.Not(has_t), z3.Not(accepted)), z3.Not(within_d))
            if not decide_claim(ctx, res, env, st, z3.And(sound, exact_d), extra, what=f'{name} leg {p}: accepted => totals within limits (and distance exact)'):
                if res.model is not None:
                    m = res.model
                    lim = {'limit_distance': _ev_int(m, ld.v) if z3.is_true(m.eval(has_d, model_completion=True)) else None,
                           'limit_duration': _ev_int(m, lt.v) if z3.is_true(m.eval(has_t, model_completion=True)) else None}
                    lim['check_exact'] = lim['limit_duration'] is None
                    res.case = make_case('limits', env, spec, m, target, p, extra=lim)
                break
            if not no_panic(ctx, res, env, st, extra, what=name):
                break
            saw_acc = saw_acc or witness(ctx, res, env, st, z3.And(accepted, has_d, has_t), extra)
            saw_rej = saw_rej or witness(ctx, res, env, st, z3.Not(accepted), extra)
        if res.status != 'holds':
            break
        res.witnesses += int(saw_acc) + int(saw_rej)
        if not (saw_acc and saw_rej):
            res.status, res.detail = 'inconclusive', f'vacuous at leg {p}: accepted={saw_acc} rejected={saw_rej}'
            break
    res.time = time.time() - t0
    return res


# ---------------------------------------------------------------------------------------------------------------------
# capacity (T := SingleDimLoad)

def load_v(env, t):
    return env.struct('load::SingleDimLoad', value=IV(t, 'i32'))


def demand_v(env, d):
    """d: dict sp, dp, sd, dd -> IV"""
    return env.struct('load::Demand', pickup=Agg('tuple', [load_v(env, d['sp'].t), load_v(env, d['dp'].t)]),
                      delivery=Agg('tuple', [load_v(env, d['sd'].t), load_v(env, d['dd'].t)]))


def sym_demand(env, name, kind):
    """kind: 'static' (pickup or delivery), 'dynamic' (shipment leg), 'any'"""
    hi = 2 ** 14
    d = {k: env.sym_i(f'{name}_{k}', 0, hi, 'i32') for k in ('sp', 'dp', 'sd', 'dd')}
    # a single task carries ONE kind of demand (static pickup, static delivery, shipment pickup or shipment delivery);
    # several kinds in one task is DemandType::Mixed, which the code base documents as having no meaning
    keys = list(d)
    for i in range(4):
        for j in range(i + 1, 4):
            env.assumptions.append(z3.Or(d[keys[i]].t == 0, d[keys[j]].t == 0))
    return d


def single_job(env, demand):
    dimens = StateV({'job_demand': demand_v(env, demand)} if demand is not None else {})
    return ArcV(Cell(env.struct('jobs::Single', places=VecV([]), dimens=dimens)))


def capacity_tour(env, k, closed, capacity, demands, old_states=True):
    acts = [env.activity(IV(0), FV.const(0), FV.const(0), FV.max_value(), FV.const(0), FV.const(0), has_job=False)]
    for i in range(k):
        acts.append(env.activity(IV(i + 1), FV.const(0), FV.const(0), FV.max_value(), FV.const(0), FV.const(0), job=single_job(env, demands[i])))
    if closed:
        acts.append(env.activity(IV(0), FV.const(0), FV.const(0), FV.max_value(), FV.const(0), FV.const(0), has_job=False))
    dimens = StateV({'vehicle_capacity': load_v(env, capacity.t)})
    actor = env.actor(IV(0), FV.const(0), IV(0) if closed else None, FV.const(1000) if closed else FV.max_value(), dimens=dimens)
    return env.route_ctx(actor, acts, closed)


def ref_profile(demands, extra_at=None):
    """Reference load profile: static deliveries are on board from the start, static pickups stay until the end,
    dynamic changes apply in place. Returns the list of loads after each stop (index 0 = after the start depot)."""
    start = z3.IntVal(0)
    for d in demands:
        start = start + d['sd'].t
    cur = start
    loads = [cur]
    for d in demands:
        cur = cur + d['sp'].t + d['dp'].t - d['sd'].t - d['dd'].t
        loads.append(cur)
    return loads


def multitrip(env):
    return env.struct('capacity::CapacitatedMultiTrip', route_intervals=EnumV('route_intervals::RouteIntervals', 0, {}),
                      violation_code=Agg('struct', [IV(2, 'i32')], 'goal::ViolationCode'), phantom=UnitV())


def ob_capacity_gate(ctx, k, closed):
    """C06(6)(7) / C01: load caches computed by the real `recalculate_states` (T := SingleDimLoad) equal the reference
    load profile, and the real `CapacitatedMultiTrip::evaluate_activity` accepts an insertion after stop p exactly when
    the reference load profile of the tour after the insertion never exceeds the capacity (static and dynamic demand
    mixed in one tour)."""
    name = f'capacity_gate[k={k},{"closed" if closed else "open"}]'
    res = Result(name)
    res.bounds = (f'tour of {k} jobs with arbitrary mixed static/dynamic demand, every insertion index, arbitrary target demand; single dimension, '
                  f'amounts in [0,2^14], capacity in [0,2^15]; single route interval (no reloads)')
    t0 = time.time()
    for p in range(k + 1):
        env = drivers.Env(ctx.prog, ctx.layout, 16)
        env.type_subst = {'T': 'load::SingleDimLoad'}
        eng = symex.Engine(ctx.prog, ctx.layout, env)
        holder = {}

        def body(st, p=p, env=env, eng=eng, holder=holder):
            env.assumptions.clear()
            capacity = env.sym_i('capacity', 0, 2 ** 15, 'i32')
            demands = [sym_demand(env, f'd{i + 1}', 'any') for i in range(k)]
            target = sym_demand(env, 'target', 'any')
            holder.update(capacity=capacity, demands=demands, target=target)
            rc = capacity_tour(env, k, closed, capacity, demands)
            # stale caches that must be overwritten
            state = env.state_of(rc)
            for key in ('current_capacity', 'max_past_capacity', 'max_future_capacity'):
                state.table[key] = VecV([load_v(env, z3.Int(f'stale_{key}_{i}')) for i in range(k + 2)])
            mt = multitrip(env)
            fns = ctx.prog.find_method('CapacitatedMultiTrip', 'recalculate_states', trait='MultiTrip')
            if len(fns) != 1:
                raise Inconclusive('CapacitatedMultiTrip::recalculate_states not found')
            cell = Cell(rc)
            eng.exec_fn(st, fns[0], [RefV(Cell(mt), 0), RefV(cell, 0, True)])
            rc = cell.v
            holder['rc_state'] = env.state_of(rc)
            tgt_act = env.activity(IV(99), FV.const(0), FV.const(0), FV.max_value(), FV.const(0), FV.const(0), job=single_job(env, target))
            acts_vec = env.field(env.field(env.field(rc, 'context::RouteContext', 'route'), 'route::Route', 'tour'), 'solution::tour::Tour', 'activities')
            n = len(acts_vec.items)
            actx = activity_ctx(env, p, RefV(acts_vec, p), RefV(Cell(tgt_act), 0), RefV(acts_vec, p + 1) if p + 1 < n else None)
            ev = ctx.prog.find_method('CapacitatedMultiTrip', 'evaluate_activity')
            if len(ev) != 1:
                raise Inconclusive('CapacitatedMultiTrip::evaluate_activity not found')
            return eng.exec_fn(st, ev[0], [RefV(Cell(mt), 0), RefV(Cell(rc), 0), RefV(Cell(actx), 0)])

        paths = eng.explore(body)
        res.paths += len(paths)
        res.functions |= eng.functions_used
        saw_acc = saw_rej = False
        for st, out in paths:
            capacity, demands, target = holder['capacity'], holder['demands'], holder['target']
            loads = ref_profile(demands)
            pre_ok = z3.And(*[l <= capacity.t for l in loads])
            assume = [pre_ok]
            if out is None:
                if not no_panic(ctx, res, env, st, assume, what=name):
                    break
                continue
            state = holder['rc_state']
            n = k + 2 if closed else k + 1
            claims = []
            cur = state.table['current_capacity'].items
            past = state.table['max_past_capacity'].items
            fut = state.table['max_future_capacity'].items
            if not (len(cur) == len(past) == len(fut) == n):
                res.status, res.detail = 'violated', 'capacity state vectors have unexpected length'
                break
            full = loads + ([loads[-1]] if closed else [])   # the end depot carries the last load
            val = lambda a: a.fields[0].t
            for i in range(n):
                claims.append(val(cur[i]) == full[i])
                mp = z3.IntVal(0)
                for j in range(i + 1):
                    mp = z3.If(full[j] > mp, full[j], mp)
                claims.append(val(past[i]) == mp)
                mf = full[n - 1]
                for j in range(i, n):
                    mf = z3.If(full[j] > mf, full[j], mf)
                claims.append(val(fut[i]) == mf)
            if not decide_claim(ctx, res, env, st, z3.And(*claims), assume, what=f'{name} idx {p}: load caches == reference profile'):
                if res.model is not None:
                    m = res.model
                    ev = lambda d: {key: _ev_int(m, d[key].t) for key in ('sp', 'dp', 'sd', 'dd')}
                    res.case = {'kind': 'capacity_caches', 'closed': closed, 'shift_start': 0, 'dep0': 0, 'shift_end': 100000, 'l0': 0, 'lend': 0,
                                'capacity': _ev_int(m, capacity.t), 'dur': [], 'dist': [], 'dur_default': 0, 'dist_default': 0,
                                'jobs': [{'loc': i + 1, 'dur': 0, 'tws': 0, 'twe': None, 'demand': ev(d)} for i, d in enumerate(demands)]}
                break
            post = ref_profile(demands[:p] + [target] + demands[p:])
            post_ok = z3.And(*[l <= capacity.t for l in post])
            has_demand = z3.Or(*[target[key].t != 0 for key in ('sp', 'dp', 'sd', 'dd')])
            accepted = zs(out.discr == 0)
            claim = z3.And(z3.Implies(accepted, post_ok), z3.Implies(z3.And(post_ok), accepted))
            if not decide_claim(ctx, res, env, st, claim, assume, what=f'{name} idx {p}: accepted <=> load profile after insertion within capacity'):
                if res.model is not None:
                    m = res.model
                    ev = lambda d: {key: _ev_int(m, d[key].t) for key in ('sp', 'dp', 'sd', 'dd')}
                    res.case = {'kind': 'capacity_gate', 'closed': closed, 'shift_start': 0, 'dep0': 0, 'shift_end': 100000, 'l0': 0, 'lend': 0,
                                'capacity': _ev_int(m, capacity.t), 'leg': p, 'dur': [], 'dist': [], 'dur_default': 0, 'dist_default': 0,
                                'jobs': [{'loc': i + 1, 'dur': 0, 'tws': 0, 'twe': None, 'demand': ev(d)} for i, d in enumerate(demands)],
                                'target': {'loc': 99, 'dur': 0, 'tws': 0, 'twe': None, 'demand': ev(target)}}
                break
            if not no_panic(ctx, res, env, st, assume, what=name):
                break
            saw_acc = saw_acc or witness(ctx, res, env, st, z3.And(accepted, has_demand), assume)
            saw_rej = saw_rej or witness(ctx, res, env, st, z3.Not(accepted), assume)
        if res.status != 'holds':
            break
        res.witnesses += int(saw_acc) + int(saw_rej)
        if not (saw_acc and saw_rej):
            res.status, res.detail = 'inconclusive', f'vacuous at index {p}: accepted={saw_acc} rejected={saw_rej}'
            break
    res.time = time.time() - t0
    return res


def ob_total_cost_fold(ctx, bits=16, rate_vectors=None):
    """C03: one step of the `get_total_cost` fold (real closure MIR) adds fixed + per_distance*d + time_rate*T for the
    vehicle and for the driver, where d/T are the cached tour totals; a route whose totals are missing makes the cost
    unavailable (None) instead of a wrong number."""
    name = 'total_cost_fold'
    res = Result(name)
    rate_vectors = rate_vectors or RATE_VECTORS_QUICK
    res.bounds = f'one route, symbolic accumulated cost and tour totals in [0,2^{bits}], cost rate vectors {rate_vectors}; totals present / absent'
    t0 = time.time()
    f = None
    for cand in ctx.prog.find_method('InsertionContext', 'get_total_cost'):
        f = cand
    if f is None:
        raise Inconclusive('InsertionContext::get_total_cost not found')
    step = ctx.prog.closure_of(f, 1)
    get_cost = ctx.prog.closure_of(f, 0)
    import re as _re
    for rates in rate_vectors:
        for present in (True, False):
            env = drivers.Env(ctx.prog, ctx.layout, bits)
            eng = symex.Engine(ctx.prog, ctx.layout, env)
            holder = {}

            def body(st, env=env, eng=eng, holder=holder, rates=rates, present=present):
                env.assumptions.clear()
                spec = TourSpec(env, 1, True)
                spec.vehicle_costs, spec.vehicle_costs_sym = sym_costs(env, 'vc', concrete=rates[:3])
                spec.driver_costs, spec.driver_costs_sym = sym_costs(env, 'dc', concrete=rates[3:])
                rc = spec.build()
                td, tdur, acc = env.sym_f('total_distance'), env.sym_f('total_duration'), env.sym_f('acc', 0, 2 ** 24)
                holder.update(spec=spec, td=td, tdur=tdur, acc=acc)
                state = env.state_of(rc)
                state.table['total_distance'] = td
                if present:
                    state.table['total_duration'] = tdur
                c0 = Agg('closure', [], 'get_cost', fn_name=_re.search(r'\{closure@[^}]*\}', get_cost.header).group(0))
                c1 = Agg('closure', [RefV(Cell(c0), 0)], 'step', fn_name=_re.search(r'\{closure@[^}]*\}', step.header).group(0))
                return eng.exec_fn(st, step, [RefV(Cell(c1), 0, True), acc, RefV(Cell(rc), 0)])

            paths = eng.explore(body)
            res.paths += len(paths)
            res.functions |= eng.functions_used
            for st, out in paths:
                if out is None:
                    if not no_panic(ctx, res, env, st, what=name):
                        break
                    continue
                spec, td, tdur, acc = holder['spec'], holder['td'], holder['tdur'], holder['acc']
                if present:
                    expected = acc.v
                    for c in (spec.vehicle_costs_sym, spec.driver_costs_sym):
                        expected = expected + c['fixed'].v + c['per_distance'].v * td.v + c['per_driving_time'].v * tdur.v
                    val = out.payload[1][0]
                    claim = z3.And(out.discr == 1, z3.Not(val.m), val.v == expected)
                else:
                    claim = out.discr == 0
                if not decide_claim(ctx, res, env, st, claim, what=f'{name}: acc + vehicle cost + driver cost'):
                    if res.model is not None and present:
                        m = res.model
                        spec0 = TourSpec(drivers.Env(ctx.prog, ctx.layout, bits), 0, True)
                        res.case = {'kind': 'total_cost', 'closed': True, 'shift_start': 0, 'dep0': 0, 'shift_end': 100000, 'l0': 0, 'lend': 0, 'jobs': [],
                                    'dur': [], 'dist': [], 'dur_default': 0, 'dist_default': 0,
                                    'vehicle_costs': {k: _ev_f(m, v) for k, v in spec.vehicle_costs_sym.items()},
                                    'driver_costs': {k: _ev_f(m, v) for k, v in spec.driver_costs_sym.items()},
                                    'set_total_distance': _ev_f(m, td), 'set_total_duration': _ev_f(m, tdur)}
                    break
                if not no_panic(ctx, res, env, st, what=name):
                    break
                if witness(ctx, res, env, st, z3.BoolVal(True)):
                    res.witnesses += 1
            if res.status != 'holds':
                break
        if res.status != 'holds':
            break
    if res.status == 'holds' and res.witnesses == 0:
        res.status, res.detail = 'inconclusive', 'vacuous'
    res.time = time.time() - t0
    return res


def ob_reachable_gate(ctx, k, closed, bits):
    """C01: ReachableConstraint rejects an insertion exactly when one of the two new legs is flagged unreachable
    (negative matrix entry): prev -> target, and target -> next when a next activity exists."""
    name = f'reachable_gate[k={k},{"closed" if closed else "open"}]'
    res = Result(name)
    res.bounds = f'tour of {k} jobs ({"closed" if closed else "open"}), every leg, symbolic target; matrix entries in [-2^{bits}, 2^{bits}] (negative = unreachable)'
    t0 = time.time()
    for p in range(k + 1):
        env = drivers.Env(ctx.prog, ctx.layout, bits)
        env.allow_negative_matrix = True
        eng = symex.Engine(ctx.prog, ctx.layout, env)
        holder = {}

        def body(st, p=p, env=env, eng=eng, holder=holder):
            env.assumptions.clear()
            spec = TourSpec(env, k, closed)
            target = spec.sym_job('target')
            holder['spec'], holder['target'] = spec, target
            rc = spec.build()
            acts = env.tour_activities(rc)
            tgt_act = env.activity(target['loc'], target['dur'], target['tws'], target['twe'], env.sym_f('tgt_arr'), env.sym_f('tgt_dep'))
            acts_vec = env.field(env.field(env.field(rc, 'context::RouteContext', 'route'), 'route::Route', 'tour'), 'solution::tour::Tour', 'activities')
            actx = activity_ctx(env, p, RefV(acts_vec, p), RefV(Cell(tgt_act), 0), RefV(acts_vec, p + 1) if p + 1 < len(acts) else None)
            con = env.struct('reachable::ReachableConstraint', transport=env.arc_dyn_transport(), code=Agg('struct', [IV(5, 'i32')], 'goal::ViolationCode'))
            fns = ctx.prog.find_method('ReachableConstraint', 'evaluate', trait='FeatureConstraint')
            if len(fns) != 1:
                raise Inconclusive('ReachableConstraint::evaluate not found')
            return eng.exec_fn(st, fns[0], [RefV(Cell(con), 0), RefV(Cell(move_ctx_activity(env, rc, actx)), 0)])

        paths = eng.explore(body)
        res.paths += len(paths)
        res.functions |= eng.functions_used
        saw_acc = saw_rej = False
        for st, out in paths:
            spec, target = holder['spec'], holder['target']
            nodes = spec.nodes()
            prev_loc = nodes[p][0]
            next_loc = nodes[p + 1][0] if p + 1 < len(nodes) else None
            legs = [env.Dist(prev_loc.t, target['loc'].t)] + ([env.Dist(target['loc'].t, next_loc.t)] if next_loc is not None else [])
            extra = [z3.And(l >= -env.bound, l <= env.bound) for l in legs]
            if out is None:
                if not no_panic(ctx, res, env, st, extra, what=name):
                    break
                continue
            accepted = zs(out.discr == 0)
            reachable = z3.And(*[l >= 0 for l in legs])
            if not decide_claim(ctx, res, env, st, accepted == reachable, extra, what=f'{name} leg {p}: accepted <=> both new legs reachable'):
                if res.model is not None:
                    res.case = make_case('reachable', env, spec, res.model, target, p)
                break
            if not no_panic(ctx, res, env, st, extra, what=name):
                break
            saw_acc = saw_acc or witness(ctx, res, env, st, accepted, extra)
            saw_rej = saw_rej or witness(ctx, res, env, st, z3.Not(accepted), extra)
        if res.status != 'holds':
            break
        res.witnesses += int(saw_acc) + int(saw_rej)
        if not (saw_acc and saw_rej):
            res.status, res.detail = 'inconclusive', f'vacuous at leg {p}'
            break
    res.time = time.time() - t0
    return res


# ---------------------------------------------------------------------------------------------------------------------
# feature combinator mechanics (C05 stale flag, C01 constraint chaining)

class RecorderEnv(drivers.Env):
    """dyn FeatureState / FeatureConstraint objects are recording stubs."""

    def __init__(self, prog, layout):
        super().__init__(prog, layout, 16)
        self.calls = []
        self.violations = {}

    def override(self, engine, st, callee, args, dest_ty):
        if callee.endswith('RouteState::clear'):
            store = deref_all(args[0])
            store.table.clear()
            self.calls.append('clear')
            return UnitV()
        return super().override(engine, st, callee, args, dest_ty)

    def dyn_call(self, engine, st, trait, method, args, dest_ty):
        obj = args[0]
        while isinstance(obj, (RefV, ArcV)):
            obj = obj.load() if isinstance(obj, RefV) else obj.cell.v
        if trait == 'FeatureState' and method == 'accept_route_state':
            self.calls.append(obj.tag)
            rc = deref_all(args[1])
            # a real state writes its caches through state_mut(): model the write and the staleness it causes
            state = self.field(rc, 'context::RouteContext', 'state')
            state.table['written_by_' + obj.tag] = IV(1)
            cache = self.field(rc, 'context::RouteContext', 'cache')
            cache.fields[0] = BV(True)
            return UnitV()
        if trait == 'FeatureConstraint' and method == 'evaluate':
            self.calls.append(obj.tag)
            has = z3.Bool(f'violates_{obj.tag}')
            v = self.struct('goal::ConstraintViolation', code=Agg('struct', [IV(z3.Int(f'code_{obj.tag}'), 'i32')], 'goal::ViolationCode'),
                            stopped=BV(z3.Bool(f'stopped_{obj.tag}')))
            return mk_option(has, v, ty='Option<ConstraintViolation>')
        return super().dyn_call(engine, st, trait, method, args, dest_ty)


from models import deref_all  # noqa: E402


def ob_accept_route_state(ctx, n):
    """C05: accept_route_state_with_states recomputes a tour's caches exactly when the tour is stale: stale => the state
    store is cleared first, every feature state is invoked exactly once in order, the flag is reset; not stale => nothing
    is invoked and the store is untouched."""
    name = f'accept_route_state[states={n}]'
    res = Result(name)
    res.bounds = f'{n} feature states (recording stubs that write a cache and thereby re-mark the context stale), stale flag symbolic'
    t0 = time.time()
    env = RecorderEnv(ctx.prog, ctx.layout)
    eng = symex.Engine(ctx.prog, ctx.layout, env)
    f = ctx.prog.find_free('accept_route_state_with_states')
    from symex import DynV
    holder = {}

    def body(st):
        env.assumptions.clear()
        env.calls = []
        spec = TourSpec(env, 1, True)
        rc = spec.build()
        stale = z3.Bool('is_stale')
        env.field(rc, 'context::RouteContext', 'cache').fields[0] = BV(stale)
        env.state_of(rc).table['old_cache'] = IV(7)
        states = VecV([ArcV(Cell(DynV(f's{i}'))) for i in range(n)])
        cell = Cell(rc)
        try:
            eng.exec_fn(st, f, [RefV(Cell(states), 0), RefV(cell, 0, True)])
        finally:
            st.user_calls = list(env.calls)
        return cell.v

    paths = eng.explore(body)
    res.paths = len(paths)
    res.functions |= eng.functions_used
    seen = set()
    for st, out in paths:
        if out is None:
            if not no_panic(ctx, res, env, st, what=name):
                break
            continue
        stale = z3.Bool('is_stale')
        calls = st.user_calls
        table = env.state_of(out).table
        flag = env.field(out, 'context::RouteContext', 'cache').fields[0].t
        is_stale_path = witness(ctx, res, env, st, stale) and not witness(ctx, res, env, st, z3.Not(stale))
        res.claims += 1
        if is_stale_path:
            ok = calls == ['clear'] + [f's{i}' for i in range(n)] and 'old_cache' not in table and all(f'written_by_s{i}' in table for i in range(n))
            seen.add('stale')
        else:
            ok = calls == [] and 'old_cache' in table and len(table) == 1
            seen.add('fresh')
        if not ok:
            res.status, res.detail = 'violated', f'stale={is_stale_path}: calls {calls}, caches {sorted(table)}'
            res.counterexample = {'what': name, 'stale': is_stale_path, 'calls': calls, 'caches': sorted(table)}
            break
        if not decide_claim(ctx, res, env, st, z3.Not(flag), what=f'{name}: stale flag is reset'):
            break
        if not no_panic(ctx, res, env, st, what=name):
            break
        res.witnesses += 1
    if res.status == 'holds' and seen != {'stale', 'fresh'}:
        res.status, res.detail = 'inconclusive', f'vacuous: paths seen {seen}'
    res.time = time.time() - t0
    return res


def ob_evaluate_with_constraints(ctx, n):
    """C01: the combined constraint reports a violation exactly when at least one member does, namely the FIRST violating
    member's (code and stopped flag), and later members are not consulted after it."""
    name = f'evaluate_with_constraints[n={n}]'
    res = Result(name)
    res.bounds = f'{n} member constraints with symbolic verdicts (violates?, code, stopped)'
    t0 = time.time()
    env = RecorderEnv(ctx.prog, ctx.layout)
    eng = symex.Engine(ctx.prog, ctx.layout, env)
    f = ctx.prog.find_free('evaluate_with_constraints')
    from symex import DynV
    holder = {}

    def body(st):
        env.assumptions.clear()
        env.calls = []
        cons = VecV([ArcV(Cell(DynV(f'c{i}'))) for i in range(n)])
        try:
            out = eng.exec_fn(st, f, [RefV(Cell(cons), 0), RefV(Cell(Opaque('move_ctx')), 0)])
        finally:
            st.user_calls = list(env.calls)
        return out

    # UnwrapValue comes from rosomaxa (not in this dump): bind it to "the payload of either variant"
    orig_override = env.override

    def override(engine, st, callee, args, dest_ty):
        if callee.endswith('UnwrapValue>::unwrap_value'):
            cf = args[0]
            v = cf.variant()
            if v is None:
                v = 0 if engine.split_bool(st, cf.discr == 0) else 1
            return cf.payload[v][0]
        return orig_override(engine, st, callee, args, dest_ty)
    env.override = override

    paths = eng.explore(body)
    res.paths = len(paths)
    res.functions |= eng.functions_used
    for st, out in paths:
        if out is None:
            if not no_panic(ctx, res, env, st, what=name):
                break
            continue
        viol = [z3.Bool(f'violates_c{i}') for i in range(n)]
        calls = st.user_calls
        # expected: first violating index
        exp_some = z3.Or(*viol) if viol else z3.BoolVal(False)
        claims = [zs(out.discr == 1) == exp_some]
        if out.payload.get(1):
            v = out.payload[1][0]
            code = env.field(v, 'goal::ConstraintViolation', 'code').fields[0].t
            stopped = env.field(v, 'goal::ConstraintViolation', 'stopped').t
            for i in range(n):
                first = z3.And(viol[i], *[z3.Not(viol[j]) for j in range(i)])
                claims.append(z3.Implies(z3.And(out.discr == 1, first), z3.And(code == z3.Int(f'code_c{i}'), stopped == z3.Bool(f'stopped_c{i}'))))
        if not decide_claim(ctx, res, env, st, z3.And(*claims), what=f'{name}: first violation wins'):
            break
        res.claims += 1
        if calls != [f'c{i}' for i in range(len(calls))]:
            res.status, res.detail = 'violated', f'members consulted out of order: {calls}'
            break
        if not no_panic(ctx, res, env, st, what=name):
            break
        res.witnesses += int(witness(ctx, res, env, st, z3.BoolVal(True)))
    if res.status == 'holds' and res.witnesses == 0:
        res.status, res.detail = 'inconclusive', 'vacuous'
    res.time = time.time() - t0
    return res


def ob_deep_copy(ctx, k, closed):
    """C05/C14: RouteContext::deep_copy (real MIR incl. Tour::deep_copy and Activity::deep_copy) yields a context with the
    same activities, schedules and caches and - crucially - the SAME stale flag, so a modified-but-not-yet-recomputed tour
    stays marked after copying; the copy's activities are distinct objects (writing the copy leaves the original alone)."""
    name = f'deep_copy[k={k},{"closed" if closed else "open"}]'
    res = Result(name)
    res.bounds = f'route context with {k} job activities ({"closed" if closed else "open"}), symbolic schedules, caches and stale flag'
    t0 = time.time()
    env = drivers.Env(ctx.prog, ctx.layout, 16)
    eng = symex.Engine(ctx.prog, ctx.layout, env)
    fns = ctx.prog.find_method('RouteContext', 'deep_copy')
    if len(fns) != 1:
        raise Inconclusive('RouteContext::deep_copy not found')
    holder = {}

    def body(st):
        env.assumptions.clear()
        spec = TourSpec(env, k, closed)
        rc = spec.build()
        env.field(rc, 'context::RouteContext', 'cache').fields[0] = BV(z3.Bool('is_stale'))
        env.state_of(rc).table['total_distance'] = env.sym_f('cached_td')
        holder['orig'] = rc
        holder['spec'] = spec
        return eng.exec_fn(st, fns[0], [RefV(Cell(rc), 0)])

    paths = eng.explore(body)
    res.paths = len(paths)
    res.functions |= eng.functions_used
    for st, out in paths:
        if out is None:
            if not no_panic(ctx, res, env, st, what=name):
                break
            continue
        orig = holder['orig']
        claims = [env.field(out, 'context::RouteContext', 'cache').fields[0].t == z3.Bool('is_stale')]
        a0, a1 = env.tour_activities(orig), env.tour_activities(out)
        res.claims += 1
        if len(a0) != len(a1) or any(x is y for x, y in zip(a0, a1)):
            res.status, res.detail = 'violated', 'copy shares activity objects with the original or has a different length'
            break
        for x, y in zip(a0, a1):
            for path in ('schedule.arrival', 'schedule.departure', 'place.duration', 'place.time.start', 'place.time.end'):
                claims.append(f_eq(env.act_field(x, path), env.act_field(y, path)))
            claims.append(env.act_field(x, 'place.location').t == env.act_field(y, 'place.location').t)
        td = env.state_of(out).table.get('total_distance')
        claims.append(f_eq(td, env.sym_f('cached_td')) if td is not None else z3.BoolVal(False))
        if not decide_claim(ctx, res, env, st, z3.And(*claims), what=f'{name}: copy equals original incl. stale flag'):
            if res.model is not None:
                res.case = make_case('deep_copy', env, holder['spec'], res.model)
            break
        if not no_panic(ctx, res, env, st, what=name):
            break
        res.witnesses += int(witness(ctx, res, env, st, z3.Bool('is_stale')))
    if res.status == 'holds' and res.witnesses == 0:
        res.status, res.detail = 'inconclusive', 'vacuous'
    res.time = time.time() - t0
    return res


def ob_time_aware_provider(ctx, n_ts):
    """C16: TimeAwareMatrixTransportCost (real MIR of interpolate_distance / interpolate_duration): at a matrix timestamp
    the matrix value is returned, before the first / after the last timestamp the first / last matrix is used, in between
    the distance is the LEFT matrix value; durations are multiplied by the profile scale (scale 1 here). The in-between
    duration (a floating-point quotient) is outside this back end."""
    from symex import MapV
    name = f'time_aware_provider[timestamps={n_ts}]'
    res = Result(name)
    res.bounds = (f'{n_ts} strictly increasing symbolic integer timestamps, 2x2 matrices with symbolic entries, every (from,to), symbolic query time; '
                  f'scale 1; in-between durations not decided (division)')
    t0 = time.time()
    size = 2
    fd = ctx.prog.find_method('TimeAwareMatrixTransportCost', 'interpolate_distance')
    fu = ctx.prog.find_method('TimeAwareMatrixTransportCost', 'interpolate_duration')
    if len(fd) != 1 or len(fu) != 1:
        raise Inconclusive('TimeAwareMatrixTransportCost::interpolate_* not found')
    for which, fn in (('distance', fd[0]), ('duration', fu[0])):
        for frm in range(size):
            for to in range(size):
                env = drivers.Env(ctx.prog, ctx.layout, 16)
                env.havoc_div = True
                eng = symex.Engine(ctx.prog, ctx.layout, env)
                holder = {}

                def body(st, env=env, eng=eng, holder=holder, fn=fn, frm=frm, to=to):
                    env.assumptions.clear()
                    ts = [env.sym_i(f'ts{i}', 0, 2 ** 16, 'u64') for i in range(n_ts)]
                    for a, b in zip(ts, ts[1:]):
                        env.assumptions.append(a.t < b.t)
                    mats = []
                    vals = []
                    for i in range(n_ts):
                        dur = [env.sym_f(f'dur{i}_{c}') for c in range(size * size)]
                        dist = [env.sym_f(f'dist{i}_{c}') for c in range(size * size)]
                        vals.append((dur, dist))
                        mats.append(env.struct('costs::MatrixData', index=IV(0), timestamp=mk_option(True, FV(False, ts[i].t), ty='Option<f64>'),
                                               durations=VecV(dur), distances=VecV(dist)))
                    q = env.sym_f('query_time')
                    holder.update(ts=ts, vals=vals, q=q)
                    provider = env.struct('costs::TimeAwareMatrixTransportCost', costs=MapV({0: Agg('tuple', [VecV(ts), VecV(mats)])}), size=IV(size),
                                          fallback=Opaque('NoFallback'))
                    profile = env.struct('domain::Profile', index=IV(0), scale=FV.const(1))
                    tt = EnumV('costs::TravelTime', 1, {1: [q]})
                    return eng.exec_fn(st, fn, [RefV(Cell(provider), 0), RefV(Cell(profile), 0), IV(frm), IV(to), tt])

                paths = eng.explore(body)
                res.paths += len(paths)
                res.functions |= eng.functions_used
                for st, out in paths:
                    if out is None:
                        if not no_panic(ctx, res, env, st, what=name):
                            break
                        continue
                    ts, vals, q = holder['ts'], holder['vals'], holder['q']
                    cell = frm * size + to
                    sel = 1 if which == 'distance' else 0
                    claims = []
                    for i in range(n_ts):
                        claims.append(z3.Implies(q.v == ts[i].t, f_eq(out, vals[i][sel][cell])))
                    claims.append(z3.Implies(q.v < ts[0].t, f_eq(out, vals[0][sel][cell])))
                    claims.append(z3.Implies(q.v > ts[-1].t, f_eq(out, vals[-1][sel][cell])))
                    if which == 'distance':
                        for i in range(n_ts - 1):
                            claims.append(z3.Implies(z3.And(q.v > ts[i].t, q.v < ts[i + 1].t), f_eq(out, vals[i][sel][cell])))
                    if st.tainted and which == 'duration':
                        # in-between duration: only the bracket selection is checked through the path condition
                        claims = [z3.Or(*[z3.And(q.v > ts[i].t, q.v < ts[i + 1].t) for i in range(n_ts - 1)])]
                    if not decide_claim(ctx, res, env, st, z3.And(*claims), what=f'{name}: {which}({frm},{to}) equals the specified matrix value',
                                        ignore_side=st.tainted):
                        if res.model is not None:
                            m = res.model
                            res.case = {'kind': 'time_aware', 'size': size, 'from': frm, 'to': to, 'query': _ev_int(m, q.v),
                                        'matrices': [{'timestamp': _ev_int(m, ts[i].t), 'durations': [_ev_int(m, v.v) for v in vals[i][0]],
                                                      'distances': [_ev_int(m, v.v) for v in vals[i][1]]} for i in range(n_ts)]}
                        break
                    if not no_panic(ctx, res, env, st, what=name):
                        break
                    res.witnesses += int(witness(ctx, res, env, st, z3.BoolVal(True)))
                if res.status != 'holds':
                    break
            if res.status != 'holds':
                break
        if res.status != 'holds':
            break
    if res.status == 'holds' and res.witnesses == 0:
        res.status, res.detail = 'inconclusive', 'vacuous'
    res.time = time.time() - t0
    return res


def ob_simple_objectives(ctx):
    """C20: the additive objectives built by the real feature builders (MIR of create_minimize_tours_feature,
    MinimizeUnassignedBuilder::build, create_maximize_total_value_feature and the estimate methods): the quoted estimate
    equals the change of the objective: +1 tour exactly when the route has no jobs yet; -w(job) for the unassigned count;
    -value(job) for the total value; activity-level estimates are 0."""
    from symex import DynV
    name = 'simple_objectives'
    res = Result(name)
    res.bounds = 'route with 0 / 1 / 2 jobs; job weight / value: symbolic integer-valued; solution with n symbolic-free routes (n = 0..2)'
    t0 = time.time()

    class Env(drivers.Env):
        def dyn_closure(self, engine, st, tag, args):
            if tag in ('job_weight', 'job_value'):
                return self.sym_f_path(st, tag, 0, 2 ** 16)
            return super().dyn_closure(engine, st, tag, args)

    def feature_objective(feature):
        obj = env.field(feature, 'goal::Feature', 'objective')
        if obj.variant() != 1:
            raise Inconclusive('feature has no objective')
        return obj.payload[1][0]

    def estimate(eng, st, objective_arc, move_ctx):
        inner = objective_arc.cell.v
        fns = ctx.prog.find_method(inner.ty.split('::')[-1], 'estimate', trait='FeatureObjective')
        if len(fns) != 1:
            raise Inconclusive(f'estimate of {inner.ty} not found')
        return eng.exec_fn(st, fns[0], [RefV(objective_arc.cell, 0), RefV(Cell(move_ctx), 0)])

    def fitness_tours(eng, st, objective_arc, n_routes):
        inner = objective_arc.cell.v
        sol = Agg('struct', [], 'context::SolutionContext')
        order = ctx.layout.fields('context::SolutionContext')
        sol.fields = [Opaque(f) for f in order]
        sol.fields[order.index('routes')] = VecV([Opaque(f'route{i}') for i in range(n_routes)])
        clo = env.field(inner, 'fleet_usage::FleetUsageObjective', 'solution_estimate_fn')
        return eng.call_closure(st, clo, [RefV(Cell(sol), 0)])

    for k in (0, 1, 2):
        env = Env(ctx.prog, ctx.layout, 16)
        eng = symex.Engine(ctx.prog, ctx.layout, env)

        def body(st, k=k, env=env, eng=eng):
            env.assumptions.clear()
            spec = TourSpec(env, k, True)
            rc = spec.build()
            job = EnumV('jobs::Job', 0, {0: [ArcV(Cell(Opaque('Single')))]})
            name_tok = RefV(Cell(Opaque('"feature"')), 0)
            # minimize tours
            f1 = ctx.prog.find_free('create_minimize_tours_feature')
            feat = eng.exec_fn(st, f1, [name_tok])
            if feat.variant() != 0:
                raise Inconclusive('create_minimize_tours_feature failed')
            obj = feature_objective(feat.payload[0][0])
            e_route = estimate(eng, st, obj, move_ctx_route(env, rc, job))
            tgt_act = env.activity(IV(5), FV.const(0), FV.const(0), FV.max_value(), FV.const(0), FV.const(0))
            acts_vec = env.field(env.field(env.field(rc, 'context::RouteContext', 'route'), 'route::Route', 'tour'), 'solution::tour::Tour', 'activities')
            actx = activity_ctx(env, 0, RefV(acts_vec, 0), RefV(Cell(tgt_act), 0), RefV(acts_vec, 1))
            e_act = estimate(eng, st, obj, move_ctx_activity(env, rc, actx))
            # an empty route is not part of solution.routes: using it adds one tour
            before = fitness_tours(eng, st, obj, 1 if k > 0 else 0)
            after = fitness_tours(eng, st, obj, 1)
            # maximize tours: the mirror image
            f1b = ctx.prog.find_free('create_maximize_tours_feature')
            featb = eng.exec_fn(st, f1b, [name_tok])
            if featb.variant() != 0:
                raise Inconclusive('create_maximize_tours_feature failed')
            objb = feature_objective(featb.payload[0][0])
            mx_route = estimate(eng, st, objb, move_ctx_route(env, rc, job))
            mx_act = estimate(eng, st, objb, move_ctx_activity(env, rc, actx))
            mx_before = fitness_tours(eng, st, objb, 1 if k > 0 else 0)
            mx_after = fitness_tours(eng, st, objb, 1)
            # minimize unassigned (custom estimator = symbolic weight)
            mb = ctx.prog.find_method('MinimizeUnassignedBuilder', 'build')
            builder = env.struct('minimize_unassigned::MinimizeUnassignedBuilder', name=Opaque('"feature"'),
                                 job_estimator=mk_option(True, ArcV(Cell(DynV('job_weight'))), ty='Option<UnassignedJobEstimator>'))
            feat2 = eng.exec_fn(st, mb[0], [builder])
            obj2 = feature_objective(feat2.payload[0][0])
            u_route = estimate(eng, st, obj2, move_ctx_route(env, rc, job))
            u_act = estimate(eng, st, obj2, move_ctx_activity(env, rc, actx))
            # maximize total value (value read from the job by a symbolic function)
            f3 = ctx.prog.find_free('create_maximize_total_job_value_feature')
            read = EnumV('types::Either', 0, {0: [ArcV(Cell(DynV('job_value')))]})
            feat3 = eng.exec_fn(st, f3, [name_tok, read, ArcV(Cell(DynV('job_write'))), Agg('struct', [IV(9, 'i32')], 'goal::ViolationCode')])
            if feat3.variant() != 0:
                raise Inconclusive('create_maximize_total_job_value_feature failed')
            obj3 = feature_objective(feat3.payload[0][0])
            v_route = estimate(eng, st, obj3, move_ctx_route(env, rc, job))
            v_act = estimate(eng, st, obj3, move_ctx_activity(env, rc, actx))
            return e_route, e_act, before, after, u_route, u_act, v_route, v_act, (mx_route, mx_act, mx_before, mx_after)

        paths = eng.explore(body)
        res.paths += len(paths)
        res.functions |= eng.functions_used
        for st, out in paths:
            if out is None:
                if not no_panic(ctx, res, env, st, what=name):
                    break
                continue
            e_route, e_act, before, after, u_route, u_act, v_route, v_act, (mx_route, mx_act, mx_before, mx_after) = out
            w = env.sym_f('job_weight', 0, 2 ** 16)
            val = env.sym_f('job_value', 0, 2 ** 16)
            claims = [f_eq(e_route, fv_sub(after, before)), f_eq(e_act, FV.const(0)),
                      f_eq(mx_route, fv_sub(mx_after, mx_before)), f_eq(mx_act, FV.const(0)),
                      f_eq(after, FV.const(1)), f_eq(mx_after, FV.const(-1)),
                      f_eq(u_route, FV(False, -w.v)), f_eq(u_act, FV.const(0)),
                      f_eq(v_route, FV(False, -val.v)), f_eq(v_act, FV.const(0))]
            if not decide_claim(ctx, res, env, st, z3.And(*claims), what=f'{name}[k={k}]: estimates == objective changes'):
                if res.status == 'violated':
                    m = res.model
                    res.case = {'kind': 'simple_objectives', 'closed': True, 'shift_start': 0, 'dep0': 0, 'shift_end': 100000, 'l0': 0, 'lend': 0,
                                'jobs': [{'loc': i + 1, 'dur': 0, 'tws': 0, 'twe': None} for i in range(k)],
                                'weight': _ev_int(m, w.v), 'value': _ev_int(m, val.v), 'dur': [], 'dist': [], 'dur_default': 0, 'dist_default': 0}
                break
            if not no_panic(ctx, res, env, st, what=name):
                break
            res.witnesses += int(witness(ctx, res, env, st, w.v > 0))
        if res.status != 'holds':
            break
    if res.status == 'holds' and res.witnesses == 0:
        res.status, res.detail = 'inconclusive', 'vacuous'
    res.time = time.time() - t0
    return res


# ---------------------------------------------------------------------------------------------------------------------
# the leg-scanning loop of the insertion evaluator (C06 second sentence, C15 per-leaf step)

def ob_leg_scan(ctx, k, closed, n_tw=1, with_best_known=False):
    """C06: `eval_single` -> `analyze_insertion_in_route` -> `analyze_insertion_in_route_leg` (real MIR, exhaustive leg
    selection, default cost selector) over a tour of k jobs: with the goal's verdict and cost estimate for every candidate
    (leg x time window) as SYMBOLIC inputs, the evaluator returns Success exactly when some candidate has no violation
    (given that a `stopped` verdict is only issued when no candidate of this or any later leg is feasible - which C06/C01
    `tw_gate` proves for the real time-window constraint), and the returned (leg, cost, time window) is a violation-free candidate of minimal cost."""
    from symex import DynV
    name = f'leg_scan[k={k},{"closed" if closed else "open"},tw={n_tw}{",pruned" if with_best_known else ""}]'
    res = Result(name)
    res.bounds = (f'tour of {k} jobs ({"closed" if closed else "open"}), every leg, one place x {n_tw} time windows per leg; per candidate: symbolic verdict '
                  f'(none / skip / stop) and symbolic integer cost; exhaustive leg selection, BestResultSelector cost selection'
                  + ('; pruning by a symbolic best-known cost' if with_best_known else ''))
    t0 = time.time()
    n_legs = k + 1
    fns = ctx.prog.find_free('eval_single')

    class Env(drivers.Env):
        def override(self, engine, st, callee, args, dest_ty):
            if callee.endswith('GoalContext::evaluate') or callee.endswith('GoalContext::estimate'):
                mc = deref_all(args[1])
                actx = deref_all(mc.payload[1][2])
                idx = self.field(actx, 'context::ActivityContext', 'index').concrete()
                tgt = deref_all(self.field(actx, 'context::ActivityContext', 'target'))
                start = self.act_field(tgt, 'place.time.start')
                t = [i for i in range(n_tw) if zs(start.v).eq(zs(z3.Int(f'tw{i}_start')))]
                if idx is None or len(t) != 1:
                    raise Inconclusive('cannot identify the candidate of a goal call')
                t = t[0]
                self.calls.append((callee.split('::')[-1], idx, t))
                if callee.endswith('evaluate'):
                    viol = z3.Bool(f'viol_{idx}_{t}')
                    v = self.struct('goal::ConstraintViolation', code=Agg('struct', [IV(1, 'i32')], 'goal::ViolationCode'), stopped=BV(z3.Bool(f'stop_{idx}_{t}')))
                    return mk_option(viol, v, ty='Option<ConstraintViolation>')
                c = self.sym_f_path(st, f'cost_{idx}_{t}', 0, 2 ** 20)
                return self.struct('insertions::InsertionCost', data=VecV([c]))
            if callee.endswith('InsertionCost::max_value'):
                return RefV(Cell(self.struct('insertions::InsertionCost', data=VecV([FV.max_value()]))), 0)
            if callee.endswith('UnwrapValue>::unwrap_value'):
                cf = args[0]
                v = cf.variant()
                if v is None:
                    v = 0 if engine.split_bool(st, cf.discr == 0) else 1
                return cf.payload[v][0]
            return super().override(engine, st, callee, args, dest_ty)

        def dyn_call(self, engine, st, trait, method, args, dest_ty):
            if trait == 'ResultSelector' and method == 'select_cost':
                fn = self._trait_default('ResultSelector', 'select_cost')
                return engine.exec_fn(st, fn, args)
            return super().dyn_call(engine, st, trait, method, args, dest_ty)

    env = Env(ctx.prog, ctx.layout, 16)
    eng = symex.Engine(ctx.prog, ctx.layout, env)

    def body(st):
        env.assumptions.clear()
        env.calls = []
        spec = TourSpec(env, k, closed)
        rc = spec.build()
        tws = [env.time_window(env.sym_f(f'tw{i}_start'), env.sym_f(f'tw{i}_end')) for i in range(n_tw)]
        for i in range(n_tw):
            for j in range(i + 1, n_tw):
                env.assumptions.append(z3.Int(f'tw{i}_start') != z3.Int(f'tw{j}_start'))
        place = env.struct('jobs::Place', location=mk_option(True, IV(77), ty='Option<usize>'), duration=env.sym_f('job_duration'),
                           times=VecV([EnumV('domain::TimeSpan', 0, {0: [tw]}) for tw in tws]))
        single = ArcV(Cell(env.struct('jobs::Single', places=VecV([place]), dimens=StateV())))
        job = EnumV('jobs::Job', 0, {0: [single]})
        eval_ctx = env.struct('evaluators::EvaluationContext', goal=RefV(Cell(Opaque('goal')), 0), job=RefV(Cell(job), 0),
                              leg_selection=RefV(Cell(EnumV('selectors::LegSelection', 1, {})), 0), result_selector=RefV(Cell(DynV('selector')), 0))
        route_costs = env.struct('insertions::InsertionCost', data=VecV([FV.const(0)]))
        best = mk_option(True, env.struct('insertions::InsertionCost', data=VecV([env.sym_f('best_known', 0, 2 ** 20)])), ty='Option<InsertionCost>') \
            if with_best_known else mk_option(False, ty='Option<InsertionCost>')
        position = EnumV('evaluators::InsertionPosition', 0, {})
        try:
            out = eng.exec_fn(st, fns, [RefV(Cell(eval_ctx), 0), RefV(Cell(Opaque('SolutionContext')), 0), RefV(Cell(rc), 0), RefV(single.cell, 0) if False else RefV(Cell(single), 0),
                                        position, route_costs, best])
        finally:
            st.user_calls = list(env.calls)
        return out

    paths = eng.explore(body, max_paths=6000)
    res.paths = len(paths)
    res.functions |= eng.functions_used
    cands = [(p, t) for p in range(n_legs) for t in range(n_tw)]
    viol = {c: z3.Bool(f'viol_{c[0]}_{c[1]}') for c in cands}
    stop = {c: z3.Bool(f'stop_{c[0]}_{c[1]}') for c in cands}
    cost = {c: z3.Int(f'cost_{c[0]}_{c[1]}') for c in cands}
    # contract of the constraints (proved for the real TransportConstraint by tw_gate): a stopped violation does not depend
    # on the target, i.e. every candidate of this leg and of all later legs is violating as well
    contract = []
    for c in cands:
        later = [viol[d] for d in cands if d[0] >= c[0] and d != c]
        contract.append(z3.Implies(z3.And(viol[c], stop[c]), z3.And(*later) if later else z3.BoolVal(True)))
    saw_ok = saw_fail = False
    for st, out in paths:
        if out is None:
            if not no_panic(ctx, res, env, st, contract, what=name):
                break
            continue
        feasible = {c: z3.Not(viol[c]) for c in cands}
        bk = z3.Int('best_known')
        eligible = {c: (z3.And(feasible[c], cost[c] < bk) if with_best_known else feasible[c]) for c in cands}
        any_ok = z3.Or(*eligible.values())
        is_success = out.variant() == 0
        res.claims += 1
        if out.variant() is None:
            res.status, res.detail = 'inconclusive', 'symbolic result variant'
            break
        if is_success:
            s = out.payload[0][0]
            order = ctx.layout.fields('insertions::InsertionSuccess')
            rcost = s.fields[order.index('cost')].fields[0].items[0]
            acts = s.fields[order.index('activities')].items
            act, ridx = acts[0].fields[0], acts[0].fields[1]
            rstart = env.act_field(act, 'place.time.start')
            sel = []
            for c in cands:
                here = z3.And(ridx.t == c[0], rstart.v == z3.Int(f'tw{c[1]}_start'))
                sel.append(z3.And(here, eligible[c], rcost.v == cost[c], z3.Not(rcost.m),
                                  *[z3.Implies(eligible[d], cost[c] <= cost[d]) for d in cands]))
            claim = z3.And(any_ok, z3.Or(*sel))
            saw_ok = saw_ok or witness(ctx, res, env, st, z3.BoolVal(True), contract)
        else:
            claim = z3.Not(any_ok)
            saw_fail = saw_fail or witness(ctx, res, env, st, z3.BoolVal(True), contract)
        if not decide_claim(ctx, res, env, st, claim, contract, what=f'{name}: {"success => minimal violation-free candidate" if is_success else "failure => no violation-free candidate"}'):
            if res.model is not None:
                m = res.model
                res.case = None
                res.counterexample['candidates'] = {f'{c}': {'violation': str(m.eval(viol[c], model_completion=True)), 'stopped': str(m.eval(stop[c], model_completion=True)),
                                                            'cost': str(m.eval(cost[c], model_completion=True))} for c in cands}
            break
        if not no_panic(ctx, res, env, st, contract, what=name):
            break
    if res.status == 'holds':
        res.witnesses = int(saw_ok) + int(saw_fail)
        if not (saw_ok and saw_fail):
            res.status, res.detail = 'inconclusive', f'vacuous: success={saw_ok} failure={saw_fail}'
    res.time = time.time() - t0
    return res


def ob_fold_step(ctx, k, nonneg):
    """C15 (per-leaf fold step): `eval_job_insertion_in_route(.., alternative)` is what rayon folds over the (route, job)
    pairs.  For the result of `evaluate_all` to be independent of how the pairs are grouped into folds, the step has to
    be `min`: cost(result) == min(cost(alternative), route estimate + best activity estimate).  The function prunes a
    route when the alternative is not worse than the ROUTE-level estimate alone, which is only a lower bound of the total
    if activity-level estimates are non-negative.  `nonneg=True`: decided under that assumption (claimed);
    `nonneg=False`: no assumption - a counter-model is the recorded known finding."""
    from symex import DynV
    name = f'fold_step[k={k},{"activity estimates >= 0" if nonneg else "any sign"}]'
    res = Result(name)
    res.bounds = (f'tour of {k} jobs (closed), one place x one time window, symbolic alternative (failure or success with symbolic cost), symbolic '
                  f'route-level estimate and per-leg verdicts / activity-level estimates ({">= 0" if nonneg else "any sign"}); BestResultSelector')
    t0 = time.time()
    n_legs = k + 1
    fn = ctx.prog.find_free('eval_job_insertion_in_route')
    lo = 0 if nonneg else -(2 ** 20)

    class Env(drivers.Env):
        def override(self, engine, st, callee, args, dest_ty):
            if callee.endswith('GoalContext::evaluate') or callee.endswith('GoalContext::estimate'):
                mc = deref_all(args[1])
                if mc.variant() == 0:     # route level
                    if callee.endswith('evaluate'):
                        return mk_option(False, ty='Option<ConstraintViolation>')
                    return self.struct('insertions::InsertionCost', data=VecV([self.sym_f_path(st, 'route_estimate', 0, 2 ** 20)]))
                actx = deref_all(mc.payload[1][2])
                idx = self.field(actx, 'context::ActivityContext', 'index').concrete()
                if callee.endswith('evaluate'):
                    v = self.struct('goal::ConstraintViolation', code=Agg('struct', [IV(1, 'i32')], 'goal::ViolationCode'), stopped=BV(False))
                    return mk_option(z3.Bool(f'viol_{idx}'), v, ty='Option<ConstraintViolation>')
                return self.struct('insertions::InsertionCost', data=VecV([self.sym_f_path(st, f'act_estimate_{idx}', lo, 2 ** 20)]))
            if callee.endswith('InsertionCost::max_value'):
                return RefV(Cell(self.struct('insertions::InsertionCost', data=VecV([FV.max_value()]))), 0)
            if 'HashMap' in callee and callee.split('::<')[0].endswith('get') or ('HashMap' in callee and '>::get' in callee):
                return mk_option(False, ty=dest_ty)   # the job carries no unassignment code
            if callee.endswith('UnwrapValue>::unwrap_value'):
                cf = args[0]
                v = cf.variant()
                if v is None:
                    v = 0 if engine.split_bool(st, cf.discr == 0) else 1
                return cf.payload[v][0]
            return super().override(engine, st, callee, args, dest_ty)

        def dyn_call(self, engine, st, trait, method, args, dest_ty):
            if trait == 'ResultSelector':
                fns = engine.prog.find_method('BestResultSelector', method, trait='ResultSelector')
                if len(fns) == 1:
                    return engine.exec_fn(st, fns[0], args)
                return engine.exec_fn(st, self._trait_default('ResultSelector', method), args)
            return super().dyn_call(engine, st, trait, method, args, dest_ty)

    for alt_success in (True, False):
        env = Env(ctx.prog, ctx.layout, 16)
        eng = symex.Engine(ctx.prog, ctx.layout, env)

        def body(st, env=env, eng=eng, alt_success=alt_success):
            env.assumptions.clear()
            spec = TourSpec(env, k, True)
            rc = spec.build()
            place = env.struct('jobs::Place', location=mk_option(True, IV(77), ty='Option<usize>'), duration=env.sym_f('job_duration'),
                               times=VecV([EnumV('domain::TimeSpan', 0, {0: [env.time_window(env.sym_f('tw_start'), env.sym_f('tw_end'))]})]))
            single = ArcV(Cell(env.struct('jobs::Single', places=VecV([place]), dimens=StateV())))
            job = EnumV('jobs::Job', 0, {0: [single]})
            goal = ArcV(Cell(Opaque('goal')))
            order = ctx.layout.fields('domain::Problem')
            problem = Agg('struct', [Opaque(f) for f in order], 'domain::Problem')
            problem.fields[order.index('goal')] = goal
            so = ctx.layout.fields('context::SolutionContext')
            solution = Agg('struct', [Opaque(f) for f in so], 'context::SolutionContext')
            ictx = env.struct('context::InsertionContext', problem=ArcV(Cell(problem)), solution=solution, environment=Opaque('environment'))
            eval_ctx = env.struct('evaluators::EvaluationContext', goal=RefV(goal.cell, 0), job=RefV(Cell(job), 0),
                                  leg_selection=RefV(Cell(EnumV('selectors::LegSelection', 1, {})), 0), result_selector=RefV(Cell(DynV('selector')), 0))
            if alt_success:
                alt_cost = env.struct('insertions::InsertionCost', data=VecV([env.sym_f('alternative_cost', 0, 2 ** 20)]))
                alt = EnumV('insertions::InsertionResult', 0, {0: [env.struct('insertions::InsertionSuccess', cost=alt_cost, job=Opaque('other_job'),
                                                                              activities=VecV([]), actor=Opaque('other_actor'))]})
            else:
                alt = EnumV('insertions::InsertionResult', 1, {1: [env.struct('insertions::InsertionFailure', constraint=Agg('struct', [IV(-1, 'i32')], 'goal::ViolationCode'),
                                                                              stopped=BV(False), job=mk_option(False, ty='Option<Job>'))]})
            position = EnumV('evaluators::InsertionPosition', 0, {})
            return eng.exec_fn(st, fn, [RefV(Cell(ictx), 0), RefV(Cell(eval_ctx), 0), RefV(Cell(rc), 0), position, alt])

        paths = eng.explore(body, max_paths=4000)
        res.paths += len(paths)
        res.functions |= eng.functions_used
        for st, out in paths:
            if out is None:
                if not no_panic(ctx, res, env, st, what=name):
                    break
                continue
            r = z3.Int('route_estimate')
            viol = [z3.Bool(f'viol_{i}') for i in range(n_legs)]
            act = [z3.Int(f'act_estimate_{i}') for i in range(n_legs)]
            a0 = z3.Int('alternative_cost')
            # reference: minimum over the alternative and all violation-free candidates
            best_is = []
            res.claims += 1
            if out.variant() is None:
                res.status, res.detail = 'inconclusive', 'symbolic result variant'
                break
            any_cand = z3.Or(*[z3.Not(v) for v in viol])
            if out.variant() == 0:
                s = out.payload[0][0]
                rcost = s.fields[ctx.layout.fields('insertions::InsertionSuccess').index('cost')].fields[0].items[0]
                conds = [z3.Not(rcost.m)]
                opts = []
                if alt_success:
                    opts.append(rcost.v == a0)
                    conds.append(rcost.v <= a0)
                for i in range(n_legs):
                    opts.append(z3.And(z3.Not(viol[i]), rcost.v == r + act[i]))
                    conds.append(z3.Implies(z3.Not(viol[i]), rcost.v <= r + act[i]))
                claim = z3.And(z3.Or(*opts), *conds)
            else:
                claim = z3.And(z3.BoolVal(not alt_success), z3.Not(any_cand))
            domain = [z3.And(x >= lo, x <= 2 ** 20) for x in act] + [z3.And(r >= 0, r <= 2 ** 20), z3.And(a0 >= 0, a0 <= 2 ** 20)]
            if not decide_claim(ctx, res, env, st, claim, domain, what=f'{name}: cost(result) == min(alternative, route estimate + activity estimate of every violation-free leg)'):
                if res.model is not None:
                    m = res.model
                    ev = lambda t: m.eval(t, model_completion=True).as_long()
                    feas = [i for i in range(n_legs) if not z3.is_true(m.eval(viol[i], model_completion=True))]
                    best_act = min([ev(act[i]) for i in feas]) if feas else 0
                    # the same situation through the public API: job0 sets the alternative, job1 is the pruned one, fillers keep
                    # the single-threaded run sequential
                    res.case = {'kind': 'fold_order', 'routes': 1,
                                'route_estimates': [ev(a0) if alt_success else 10 ** 6, ev(r), 10 ** 6, 10 ** 6],
                                'activity_estimates': [0, best_act, 0, 0]}
                break
            if not no_panic(ctx, res, env, st, what=name):
                break
            res.witnesses += int(witness(ctx, res, env, st, z3.BoolVal(True)))
        if res.status != 'holds':
            break
    if res.status == 'holds' and res.witnesses == 0:
        res.status, res.detail = 'inconclusive', 'vacuous'
    res.time = time.time() - t0
    return res


def ob_route_level_gates(ctx, k, n_tw, multi_in_tour=False, n_places=1):
    """C01/C06 route-level gates: `TransportConstraint::evaluate_job` accepts a single job exactly when one of its time
    windows intersects the vehicle's shift window (inclusive), and the tour size limit (`ActivityLimitConstraint`)
    accepts a job exactly when the number of job activities after the insertion stays within the limit (single job = 1,
    multi job = number of sub-jobs)."""
    from symex import DynV
    name = f'route_level_gates[k={k},tw={n_tw}{",multi-in-tour" if multi_in_tour else ""}{",places=" + str(n_places) if n_places > 1 else ""}]'
    res = Result(name)
    res.bounds = (f'tour of {k} job activities' + (' of which the first two are the tasks of ONE multi job (job set smaller than activity count)' if multi_in_tour else ' (single jobs)') +
                  f'; job with {n_places} alternative place(s), each with {n_tw} symbolic time windows; multi job with 2 sub-jobs; symbolic optional size limit in [0,8]')
    t0 = time.time()
    ej = ctx.prog.find_method('TransportConstraint', 'evaluate_job')
    al = ctx.prog.find_method('ActivityLimitConstraint', 'evaluate', trait='FeatureConstraint')
    if len(ej) != 1 or len(al) != 1:
        raise Inconclusive('evaluate_job / ActivityLimitConstraint::evaluate not found')

    class Env(drivers.Env):
        def dyn_closure(self, engine, st, tag, args):
            if tag == 'size_limit':
                lim = z3.Int('size_limit')
                st.assumed.append(z3.And(lim >= 0, lim <= 8))
                return mk_option(z3.Bool('has_size_limit'), IV(lim), ty='Option<usize>')
            return super().dyn_closure(engine, st, tag, args)

    env = Env(ctx.prog, ctx.layout, 16)
    eng = symex.Engine(ctx.prog, ctx.layout, env)
    holder = {}

    def body(st):
        env.assumptions.clear()
        spec = TourSpec(env, k, True)
        if multi_in_tour:
            spec.n_jobs = k - 1
        rc = spec.build()
        holder['spec'] = spec
        tws = [(env.sym_f(f'tw{i}_start'), env.sym_f(f'tw{i}_end')) for i in range(n_tw * n_places)]
        holder['tws'] = tws
        places = [env.struct('jobs::Place', location=mk_option(True, IV(5 + pi), ty='Option<usize>'), duration=FV.const(0),
                             times=VecV([EnumV('domain::TimeSpan', 0, {0: [env.time_window(a, b)]}) for a, b in tws[pi * n_tw:(pi + 1) * n_tw]]))
                  for pi in range(n_places)]
        single = ArcV(Cell(env.struct('jobs::Single', places=VecV(places), dimens=StateV())))
        job = EnumV('jobs::Job', 0, {0: [single]})
        a = eng.exec_fn(st, ej[0], [RefV(Cell(transport_constraint(env)), 0), RefV(Cell(rc), 0), RefV(Cell(job), 0)])
        con = env.struct('tour_limits::ActivityLimitConstraint', code=Agg('struct', [IV(6, 'i32')], 'goal::ViolationCode'), limit_fn=ArcV(Cell(DynV('size_limit'))))
        b = eng.exec_fn(st, al[0], [RefV(Cell(con), 0), RefV(Cell(move_ctx_route(env, rc, job)), 0)])
        mo = ctx.layout.fields('jobs::Multi')
        multi = Agg('struct', [Opaque(f) for f in mo], 'jobs::Multi')
        multi.fields[mo.index('jobs')] = VecV([Opaque('sub1'), Opaque('sub2')])
        mjob = EnumV('jobs::Job', 1, {1: [ArcV(Cell(multi))]})
        c = eng.exec_fn(st, al[0], [RefV(Cell(con), 0), RefV(Cell(move_ctx_route(env, rc, mjob)), 0)])
        return a, b, c

    paths = eng.explore(body)
    res.paths = len(paths)
    res.functions |= eng.functions_used
    saw = set()
    for st, out in paths:
        if out is None:
            if not no_panic(ctx, res, env, st, what=name):
                break
            continue
        a, b, c = out
        spec, tws = holder['spec'], holder['tws']
        inter = z3.Or(*[z3.And(f_le(s, spec.shift_end), f_le(spec.shift_start, e)) for s, e in tws])
        has, lim = z3.Bool('has_size_limit'), z3.Int('size_limit')
        claims = [zs(a.discr == 0) == inter,
                  zs(b.discr == 0) == z3.Or(z3.Not(has), k + 1 <= lim),
                  zs(c.discr == 0) == z3.Or(z3.Not(has), k + 2 <= lim)]
        dom = [z3.And(lim >= 0, lim <= 8)]
        if not decide_claim(ctx, res, env, st, z3.And(*claims), dom, what=f'{name}: route-level verdicts'):
            if res.status == 'violated':
                m = res.model
                res.case = make_case('route_gates', env, spec, m, extra={
                    'route_job': {'tws': [[_ev_f(m, s), _ev_f(m, e)] for s, e in tws], 'windows_per_place': n_tw},
                    'size_limit': _ev_int(m, lim) if z3.is_true(m.eval(has, model_completion=True)) else None,
                    'multi_in_tour': multi_in_tour})
            break
        if not no_panic(ctx, res, env, st, dom, what=name):
            break
        if witness(ctx, res, env, st, z3.And(a.discr == 0, b.discr == 1), dom):
            saw.add('mixed')
        if witness(ctx, res, env, st, z3.And(a.discr == 1), dom):
            saw.add('tw-rejected')
    res.witnesses = len(saw)
    if res.status == 'holds' and len(saw) < 2:
        res.status, res.detail = 'inconclusive', f'vacuous: {saw}'
    res.time = time.time() - t0
    return res


def ob_multi_job_scan(ctx, k):
    """C06 (multi-task jobs): `eval_multi` (real MIR: permutations, shadow context, sequential sub-job search) for a
    pickup+delivery job on a tour of k jobs, with the goal's verdict and cost for every (sub-job, leg, shadow state)
    symbolic: whenever it reports Success, both tasks are placed, the delivery after the pickup, every chosen placement had NO
    violation on the shadow tour that already contains the earlier task, and the quoted cost is the sum of the chosen
    placements' estimates.  (Failure is allowed to miss feasible combinations - greedy search, by the property itself.)"""
    from symex import DynV
    name = f'multi_job_scan[k={k}]'
    res = Result(name)
    res.bounds = f'closed tour of {k} jobs; multi job with 2 single-place single-window tasks in the fixed order (pickup, delivery); symbolic verdict/cost per (task, leg, position of the earlier task)'
    t0 = time.time()
    fn = ctx.prog.find_free('eval_multi')

    class Env(drivers.Env):
        def key(self, mc):
            rc = deref_all(mc.payload[1][1])
            actx = deref_all(mc.payload[1][2])
            idx = self.field(actx, 'context::ActivityContext', 'index').concrete()
            tgt = deref_all(self.field(actx, 'context::ActivityContext', 'target'))
            tjob = self.field(tgt, 'route::Activity', 'job').payload[1][0].cell
            service = self.services.index(tjob)
            # where do the tasks already sit in the (shadow) tour?
            pos = []
            for i, a in enumerate(self.tour_activities(rc)):
                j = self.field(a, 'route::Activity', 'job')
                if j.variant() == 1 and j.payload[1][0].cell in self.services:
                    pos.append((self.services.index(j.payload[1][0].cell), i))
            return service, idx, tuple(pos)

        def override(self, engine, st, callee, args, dest_ty):
            if callee.endswith('GoalContext::evaluate') or callee.endswith('GoalContext::estimate'):
                mc = deref_all(args[1])
                service, idx, pos = self.key(mc)
                tag = f's{service}_l{idx}_' + '_'.join(f'{a}at{b}' for a, b in pos)
                self.calls.append((callee.split('::')[-1], service, idx, pos, tag))
                if callee.endswith('evaluate'):
                    v = self.struct('goal::ConstraintViolation', code=Agg('struct', [IV(1, 'i32')], 'goal::ViolationCode'), stopped=BV(z3.Bool('stop_' + tag)))
                    return mk_option(z3.Bool('viol_' + tag), v, ty='Option<ConstraintViolation>')
                return self.struct('insertions::InsertionCost', data=VecV([self.sym_f_path(st, 'cost_' + tag, 0, 2 ** 20)]))
            if callee.endswith('GoalContext::accept_route_state'):
                return UnitV()
            if callee.endswith('Multi::permutations'):
                return VecV([VecV([ArcV(c) for c in self.services])])
            if callee.endswith('InsertionCost::max_value'):
                return RefV(Cell(self.struct('insertions::InsertionCost', data=VecV([FV.max_value()]))), 0)
            if callee.endswith('UnwrapValue>::unwrap_value'):
                cf = args[0]
                v = cf.variant()
                if v is None:
                    v = 0 if engine.split_bool(st, cf.discr == 0) else 1
                return cf.payload[v][0]
            return super().override(engine, st, callee, args, dest_ty)

        def dyn_call(self, engine, st, trait, method, args, dest_ty):
            if trait == 'ResultSelector' and method == 'select_cost':
                return engine.exec_fn(st, self._trait_default('ResultSelector', 'select_cost'), args)
            return super().dyn_call(engine, st, trait, method, args, dest_ty)

    env = Env(ctx.prog, ctx.layout, 16)
    eng = symex.Engine(ctx.prog, ctx.layout, env)

    def body(st):
        env.assumptions.clear()
        env.calls = []
        spec = TourSpec(env, k, True)
        rc = spec.build()
        singles = []
        for i in range(2):
            place = env.struct('jobs::Place', location=mk_option(True, IV(70 + i), ty='Option<usize>'), duration=FV.const(0),
                               times=VecV([EnumV('domain::TimeSpan', 0, {0: [env.time_window(FV.const(0), FV.max_value())]})]))
            singles.append(ArcV(Cell(env.struct('jobs::Single', places=VecV([place]), dimens=StateV()))))
        env.services = [s.cell for s in singles]
        mo = ctx.layout.fields('jobs::Multi')
        multi = Agg('struct', [Opaque(f) for f in mo], 'jobs::Multi')
        multi.fields[mo.index('jobs')] = VecV(singles)
        marc = ArcV(Cell(multi))
        job = EnumV('jobs::Job', 1, {1: [marc]})
        eval_ctx = env.struct('evaluators::EvaluationContext', goal=RefV(Cell(Opaque('goal')), 0), job=RefV(Cell(job), 0),
                              leg_selection=RefV(Cell(EnumV('selectors::LegSelection', 1, {})), 0), result_selector=RefV(Cell(DynV('selector')), 0))
        route_costs = env.struct('insertions::InsertionCost', data=VecV([FV.const(0)]))
        try:
            out = eng.exec_fn(st, fn, [RefV(Cell(eval_ctx), 0), RefV(Cell(Opaque('SolutionContext')), 0), RefV(Cell(rc), 0), RefV(Cell(marc), 0),
                                       EnumV('evaluators::InsertionPosition', 0, {}), route_costs, mk_option(False, ty='Option<InsertionCost>')])
        finally:
            st.user_calls = list(env.calls)
            st.user_services = list(env.services)
        return out

    paths = eng.explore(body, max_paths=20000)
    res.paths = len(paths)
    res.functions |= eng.functions_used
    saw_ok = saw_fail = False
    for st, out in paths:
        if out is None:
            if not no_panic(ctx, res, env, st, what=name):
                break
            continue
        res.claims += 1
        if out.variant() == 1:
            saw_fail = True
            continue
        s = out.payload[0][0]
        order = ctx.layout.fields('insertions::InsertionSuccess')
        acts = s.fields[order.index('activities')].items
        rcost = s.fields[order.index('cost')].fields[0].items[0]
        if len(acts) != 2:
            res.status, res.detail = 'violated', f'success with {len(acts)} activities for a two-task job'
            break
        (a0, i0), (a1, i1) = [(x.fields[0], x.fields[1].concrete()) for x in acts]
        s0 = st.user_services.index(env.field(a0, 'route::Activity', 'job').payload[1][0].cell)
        s1 = st.user_services.index(env.field(a1, 'route::Activity', 'job').payload[1][0].cell)
        if (s0, s1) != (0, 1) or i0 is None or i1 is None or i1 < i0 + 1:
            res.status, res.detail = 'violated', f'tasks placed in a forbidden order or at inconsistent legs: tasks {(s0, s1)} legs {(i0, i1)}'
            break
        # the verdict/cost symbols of the chosen placements: pickup on the original tour, delivery on the shadow tour with the pickup at i0+1
        tag0 = f's0_l{i0}_'
        tag1 = f's1_l{i1}_0at{i0 + 1}'
        called = {c[4] for c in st.user_calls if c[0] == 'evaluate'}
        if tag0 not in called or tag1 not in called:
            res.status, res.detail = 'violated', f'a returned placement was never evaluated: {tag0} / {tag1} not in {sorted(called)[:6]}'
            break
        claim = z3.And(z3.Not(z3.Bool('viol_' + tag0)), z3.Not(z3.Bool('viol_' + tag1)), z3.Not(rcost.m),
                       rcost.v == z3.Int('cost_' + tag0) + z3.Int('cost_' + tag1))
        dom = [z3.And(z3.Int('cost_' + t) >= 0, z3.Int('cost_' + t) <= 2 ** 20) for t in (tag0, tag1)]
        if not decide_claim(ctx, res, env, st, claim, dom, what=f'{name}: success => both placements violation-free on the shadow tour, cost = sum'):
            break
        if not no_panic(ctx, res, env, st, dom, what=name):
            break
        saw_ok = saw_ok or witness(ctx, res, env, st, z3.BoolVal(True), dom)
    if res.status == 'holds':
        res.witnesses = int(saw_ok) + int(saw_fail)
        if not saw_ok:
            res.status, res.detail = 'inconclusive', 'vacuous: no successful path'
    res.time = time.time() - t0
    return res


# ---------------------------------------------------------------------------------------------------------------------
# end-to-end: the real evaluator over the real time-window constraint and the real schedule update (shadow tour)

def ob_insertion_e2e(ctx, k, n_tasks, closed=True, bits=16, n_tw=1, n_places=1):
    """C06 end to end, incl. multi-task jobs: `eval_single` / `eval_multi` (real MIR) where `GoalContext::evaluate` is the
    real `TransportConstraint::evaluate_activity` and `GoalContext::accept_route_state` is the real `update_route_schedule`
    (so the shadow tour of a multi job carries exactly the state the real code computes - or fails to compute), the cost
    estimate per candidate is a fresh symbol (it only drives which alternative is selected: every selection is explored).
    Claim: on a feasible tour of k jobs, Success => the tour with all tasks at the returned positions, in the job's
    order, is feasible for the independent forward simulation; for a single-task job additionally Failure => no leg is
    feasible.  (Failure of a multi-task job may miss feasible combinations: greedy by design, not claimed.)"""
    from symex import DynV
    name = f'insertion_e2e[k={k},{"closed" if closed else "open"},tasks={n_tasks}{",tw=" + str(n_tw) if n_tw > 1 else ""}{",places=" + str(n_places) if n_places > 1 else ""}]'
    res = Result(name)
    res.bounds = (f'tour of {k} jobs ({"closed" if closed else "open"}); job with {n_tasks} task(s) ({n_places} alternative place(s) with symbolic location and duration, {n_tw} symbolic window(s) each) in fixed order; '
                  f'times integer-valued in [0,2^{bits}] (window ends may be Float::MAX); routing uninterpreted in [0,2^{bits}]; exhaustive legs; '
                  f'symbolic cost per candidate')
    t0 = time.time()
    fn = ctx.prog.find_free('eval_multi' if n_tasks > 1 else 'eval_single')
    ea = ctx.prog.find_method('TransportConstraint', 'evaluate_activity')
    if len(ea) != 1:
        raise Inconclusive('TransportConstraint::evaluate_activity not found')

    class Env(drivers.Env):
        def override(self, engine, st, callee, args, dest_ty):
            if callee.endswith('GoalContext::evaluate'):
                mc = deref_all(args[1])
                return engine.exec_fn(st, ea[0], [RefV(Cell(transport_constraint(self)), 0), mc.payload[1][1], mc.payload[1][2]])
            if callee.endswith('GoalContext::estimate'):
                self.n_cost += 1
                return self.struct('insertions::InsertionCost', data=VecV([self.sym_f_path(st, f'cost_call{self.n_cost}', 0, 2 ** 20)]))
            if callee.endswith('GoalContext::accept_route_state'):
                f = ctx.prog.find_free('update_route_schedule')
                engine.exec_fn(st, f, [args[1], self.dyn_activity(), self.dyn_transport()])
                return UnitV()
            if callee.endswith('Multi::permutations'):
                return VecV([VecV([ArcV(c) for c in self.services])])
            if callee.endswith('InsertionCost::max_value'):
                return RefV(Cell(self.struct('insertions::InsertionCost', data=VecV([FV.max_value()]))), 0)
            if callee.endswith('UnwrapValue>::unwrap_value'):
                cf = args[0]
                v = cf.variant()
                if v is None:
                    v = 0 if engine.split_bool(st, cf.discr == 0) else 1
                return cf.payload[v][0]
            return super().override(engine, st, callee, args, dest_ty)

        def dyn_call(self, engine, st, trait, method, args, dest_ty):
            if trait == 'ResultSelector' and method == 'select_cost':
                return engine.exec_fn(st, self._trait_default('ResultSelector', 'select_cost'), args)
            return super().dyn_call(engine, st, trait, method, args, dest_ty)

    env = Env(ctx.prog, ctx.layout, bits)
    eng = symex.Engine(ctx.prog, ctx.layout, env)
    holder = {}

    def body(st):
        env.assumptions.clear()
        env.n_cost = 0
        spec = TourSpec(env, k, closed)
        tasks = [spec.sym_job(f'task{i}') for i in range(n_tasks)]
        for i, t in enumerate(tasks):
            # alternative windows of the same place
            t['windows'] = [(t['tws'], t['twe'])] + [(env.sym_f(f'task{i}_tws{w}'), env.sym_f_or_max(f'task{i}_twe{w}')) for w in range(1, n_tw)]
            for (a, b) in t['windows'][1:]:
                env.assumptions.append(z3.Or(b.m, a.v <= b.v))
            # alternative places: own location, duration and windows
            t['alts'] = [t] + [dict(spec.sym_job(f'task{i}_alt{q}')) for q in range(1, n_places)]
            for alt in t['alts'][1:]:
                alt['windows'] = [(alt['tws'], alt['twe'])]
        holder['spec'], holder['tasks'] = spec, tasks
        rc = spec.build()
        rc = run_update(ctx, env, eng, st, rc)
        singles = []
        for t in tasks:
            places = [env.struct('jobs::Place', location=mk_option(True, alt['loc'], ty='Option<usize>'), duration=alt['dur'],
                                 times=VecV([EnumV('domain::TimeSpan', 0, {0: [env.time_window(a, b)]}) for a, b in alt['windows']])) for alt in t['alts']]
            singles.append(ArcV(Cell(env.struct('jobs::Single', places=VecV(places), dimens=StateV()))))
        env.services = [s.cell for s in singles]
        st.user_services = list(env.services)
        route_costs = env.struct('insertions::InsertionCost', data=VecV([FV.const(0)]))
        position = EnumV('evaluators::InsertionPosition', 0, {})
        none_cost = mk_option(False, ty='Option<InsertionCost>')
        if n_tasks > 1:
            mo = ctx.layout.fields('jobs::Multi')
            multi = Agg('struct', [Opaque(f) for f in mo], 'jobs::Multi')
            multi.fields[mo.index('jobs')] = VecV(singles)
            marc = ArcV(Cell(multi))
            job = EnumV('jobs::Job', 1, {1: [marc]})
            second = RefV(Cell(marc), 0)
        else:
            job = EnumV('jobs::Job', 0, {0: [singles[0]]})
            second = RefV(Cell(singles[0]), 0)
        eval_ctx = env.struct('evaluators::EvaluationContext', goal=RefV(Cell(Opaque('goal')), 0), job=RefV(Cell(job), 0),
                              leg_selection=RefV(Cell(EnumV('selectors::LegSelection', 1, {})), 0), result_selector=RefV(Cell(DynV('selector')), 0))
        return eng.exec_fn(st, fn, [RefV(Cell(eval_ctx), 0), RefV(Cell(Opaque('SolutionContext')), 0), RefV(Cell(rc), 0), second, position, route_costs, none_cost])

    paths = eng.explore(body, max_paths=60000)
    res.paths = len(paths)
    res.functions |= eng.functions_used
    saw_ok = saw_fail = False
    order = ctx.layout.fields('insertions::InsertionSuccess')
    n_legs = k + 1

    def case_of(model, spec, tasks):
        def job(j):
            d = {'loc': _ev_int(model, j['loc'].t), 'dur': _ev_f(model, j['dur']), 'tws': _ev_f(model, j['tws']), 'twe': _ev_f(model, j['twe'])}
            if len(j.get('windows', [])) > 1:
                d['windows'] = [[_ev_f(model, a), _ev_f(model, b)] for a, b in j['windows']]
            if len(j.get('alts', [])) > 1:
                d['alts'] = [{'loc': _ev_int(model, a['loc'].t), 'dur': _ev_f(model, a['dur']), 'windows': [[_ev_f(model, x), _ev_f(model, y)] for x, y in a['windows']]} for a in j['alts']]
            return d
        return make_case('insertion_e2e', env, spec, model, extra={'tasks': [job(t) for t in tasks]})

    for st, out in paths:
        spec, tasks = holder['spec'], holder['tasks']
        all_alts = [a for t in tasks for a in t['alts']]
        assume = spec.matrix_assumptions(spec.jobs + all_alts) + [spec.feasible()]
        if out is None:
            if not no_panic(ctx, res, env, st, assume, what=name):
                break
            continue
        if out.variant() is None:
            res.status, res.detail = 'inconclusive', 'symbolic result variant'
            break
        if out.variant() == 0:
            s = out.payload[0][0]
            acts = s.fields[order.index('activities')].items
            if len(acts) != n_tasks:
                res.status, res.detail = 'inconclusive', f'success with {len(acts)} activities for {n_tasks} tasks (structural; no replay)'
                break
            placed = []
            used = []
            member = []
            for x in acts:
                a, idx = x.fields[0], x.fields[1]
                cell = env.field(a, 'route::Activity', 'job').payload[1][0].cell
                ti = st.user_services.index(cell)
                placed.append((ti, idx))
                # the activity that is returned (and would be inserted) carries the chosen window: simulate with THAT window
                rs, re_ = env.act_field(a, 'place.time.start'), env.act_field(a, 'place.time.end')
                rl, rd = env.act_field(a, 'place.location'), env.act_field(a, 'place.duration')
                used.append({'name': 'returned', 'loc': rl, 'dur': rd, 'tws': rs, 'twe': re_})
                member.append(z3.Or(*[z3.And(rl.t == alt['loc'].t, f_eq(rd, alt['dur']), f_eq(rs, wa), f_eq(re_, wb)) for alt in tasks[ti]['alts'] for wa, wb in alt['windows']]))
            if [p[0] for p in placed] != list(range(n_tasks)):
                res.status, res.detail = 'inconclusive', f'tasks returned in order {[p[0] for p in placed]} (structural; no replay)'
                break
            # final tour by sequential insertion; a symbolic index is split over its possible legs
            alts = [([], z3.BoolVal(True))]
            for t, idx in placed:
                nxt = []
                for seq, cond in alts:
                    c = idx.concrete()
                    legs = [c] if c is not None else range(0, n_legs + t)
                    for p in legs:
                        nxt.append((seq + [p], z3.And(cond, idx.t == p) if c is None else cond))
                alts = nxt
            options = []
            extra = []
            for seq, cond in alts:
                lst = list(spec.jobs)
                ok = all(0 <= p <= len(lst) + i for i, p in enumerate(seq)) and all(seq[i + 1] >= seq[i] + 1 for i in range(len(seq) - 1))
                if not ok:
                    continue
                for t, p in enumerate(seq):
                    lst.insert(p, used[t])
                options.append(z3.And(cond, spec.feasible(lst)))
            claim = z3.And(z3.Or(*options) if options else z3.BoolVal(False), *member)
            what = f'{name}: success => the tour with the tasks at the returned positions and windows (job order kept) is feasible'
            saw_ok = saw_ok or witness(ctx, res, env, st, z3.BoolVal(True), assume)
        else:
            if n_tasks > 1:
                saw_fail = saw_fail or witness(ctx, res, env, st, z3.BoolVal(True), assume)
                if not no_panic(ctx, res, env, st, assume, what=name):
                    break
                continue
            claim = z3.And(*[z3.Not(spec.feasible(spec.jobs[:p] + [dict(alt, tws=wa, twe=wb)] + spec.jobs[p:])) for p in range(n_legs) for alt in tasks[0]['alts'] for wa, wb in alt['windows']])
            what = f'{name}: failure => no leg is feasible (for any place and window)'
            saw_fail = saw_fail or witness(ctx, res, env, st, z3.BoolVal(True), assume)
        res.claims += 0
        if not decide_claim(ctx, res, env, st, claim, assume, what=what):
            if res.status == 'violated' and res.model is not None:
                res.case = case_of(res.model, spec, tasks)
            break
        if not no_panic(ctx, res, env, st, assume, what=name):
            break
    if res.status == 'holds':
        res.witnesses = int(saw_ok) + int(saw_fail)
        if not (saw_ok and saw_fail):
            res.status, res.detail = 'inconclusive', f'vacuous: success={saw_ok} failure={saw_fail}'
    res.time = time.time() - t0
    return res


def ob_capacity_e2e(ctx, k, shape, closed=True):
    """C06 end to end for capacity, incl. pickup-and-delivery: `eval_single` / `eval_multi` (real MIR) where
    `GoalContext::evaluate` is the real `CapacitatedMultiTrip::evaluate_activity` and `GoalContext::accept_route_state` is
    the real `recalculate_states` on the shadow tour.  Tour of k jobs with arbitrary mixed static/shipment demand.
    shape 'single': one task with any (single-kind) demand - Success => the reference load profile of the tour with the
    job at the returned position stays within capacity; Failure => no position does.  shape 'shipment': pickup task then
    delivery task of the same symbolic amount - Success => pickup before delivery and the profile stays within capacity."""
    from symex import DynV
    n_tasks = 1 if shape == 'single' else 2
    name = f'capacity_e2e[k={k},{"closed" if closed else "open"},{shape}]'
    res = Result(name)
    res.bounds = (f'tour of {k} jobs with arbitrary mixed static/dynamic demand ({"closed" if closed else "open"}); '
                  + ('job: one task, any single-kind demand' if shape == 'single' else 'job: shipment (pickup task, then delivery task, same symbolic amount)')
                  + '; single dimension, amounts in [0,2^14], capacity in [0,2^15]; no reloads; exhaustive legs; symbolic cost per candidate')
    t0 = time.time()
    fn = ctx.prog.find_free('eval_multi' if n_tasks > 1 else 'eval_single')
    ev = ctx.prog.find_method('CapacitatedMultiTrip', 'evaluate_activity')
    rs = ctx.prog.find_method('CapacitatedMultiTrip', 'recalculate_states', trait='MultiTrip')
    if len(ev) != 1 or len(rs) != 1:
        raise Inconclusive('CapacitatedMultiTrip::evaluate_activity / recalculate_states not found')

    class Env(drivers.Env):
        def override(self, engine, st, callee, args, dest_ty):
            if callee.endswith('GoalContext::evaluate'):
                mc = deref_all(args[1])
                return engine.exec_fn(st, ev[0], [RefV(Cell(multitrip(self)), 0), mc.payload[1][1], mc.payload[1][2]])
            if callee.endswith('GoalContext::estimate'):
                self.n_cost += 1
                return self.struct('insertions::InsertionCost', data=VecV([self.sym_f_path(st, f'cost_call{self.n_cost}', 0, 2 ** 20)]))
            if callee.endswith('GoalContext::accept_route_state'):
                engine.exec_fn(st, rs[0], [RefV(Cell(multitrip(self)), 0), args[1]])
                return UnitV()
            if callee.endswith('Multi::permutations'):
                return VecV([VecV([ArcV(c) for c in self.services])])
            if callee.endswith('InsertionCost::max_value'):
                return RefV(Cell(self.struct('insertions::InsertionCost', data=VecV([FV.max_value()]))), 0)
            if callee.endswith('UnwrapValue>::unwrap_value'):
                cf = args[0]
                v = cf.variant()
                if v is None:
                    v = 0 if engine.split_bool(st, cf.discr == 0) else 1
                return cf.payload[v][0]
            return super().override(engine, st, callee, args, dest_ty)

        def dyn_call(self, engine, st, trait, method, args, dest_ty):
            if trait == 'ResultSelector' and method == 'select_cost':
                return engine.exec_fn(st, self._trait_default('ResultSelector', 'select_cost'), args)
            return super().dyn_call(engine, st, trait, method, args, dest_ty)

    env = Env(ctx.prog, ctx.layout, 16)
    env.type_subst = {'T': 'load::SingleDimLoad'}
    eng = symex.Engine(ctx.prog, ctx.layout, env)
    holder = {}

    def body(st):
        env.assumptions.clear()
        env.n_cost = 0
        capacity = env.sym_i('capacity', 0, 2 ** 15, 'i32')
        demands = [sym_demand(env, f'd{i + 1}', 'any') for i in range(k)]
        if shape == 'single':
            tdem = [sym_demand(env, 'task0', 'any')]
        else:
            q = env.sym_i('shipment', 0, 2 ** 14, 'i32')
            zero = IV(0, 'i32')
            tdem = [{'sp': zero, 'dp': q, 'sd': zero, 'dd': zero}, {'sp': zero, 'dp': zero, 'sd': zero, 'dd': q}]
        holder.update(capacity=capacity, demands=demands, tdem=tdem)
        rc = capacity_tour(env, k, closed, capacity, demands)
        cell = Cell(rc)
        eng.exec_fn(st, rs[0], [RefV(Cell(multitrip(env)), 0), RefV(cell, 0, True)])
        rc = cell.v
        singles = []
        for i, d in enumerate(tdem):
            place = env.struct('jobs::Place', location=mk_option(True, IV(90 + i), ty='Option<usize>'), duration=FV.const(0),
                               times=VecV([EnumV('domain::TimeSpan', 0, {0: [env.time_window(FV.const(0), FV.max_value())]})]))
            singles.append(ArcV(Cell(env.struct('jobs::Single', places=VecV([place]), dimens=StateV({'job_demand': demand_v(env, d)})))))
        env.services = [s.cell for s in singles]
        st.user_services = list(env.services)
        route_costs = env.struct('insertions::InsertionCost', data=VecV([FV.const(0)]))
        position = EnumV('evaluators::InsertionPosition', 0, {})
        none_cost = mk_option(False, ty='Option<InsertionCost>')
        if n_tasks > 1:
            mo = ctx.layout.fields('jobs::Multi')
            multi = Agg('struct', [Opaque(f) for f in mo], 'jobs::Multi')
            multi.fields[mo.index('jobs')] = VecV(singles)
            marc = ArcV(Cell(multi))
            job = EnumV('jobs::Job', 1, {1: [marc]})
            second = RefV(Cell(marc), 0)
        else:
            job = EnumV('jobs::Job', 0, {0: [singles[0]]})
            second = RefV(Cell(singles[0]), 0)
        eval_ctx = env.struct('evaluators::EvaluationContext', goal=RefV(Cell(Opaque('goal')), 0), job=RefV(Cell(job), 0),
                              leg_selection=RefV(Cell(EnumV('selectors::LegSelection', 1, {})), 0), result_selector=RefV(Cell(DynV('selector')), 0))
        return eng.exec_fn(st, fn, [RefV(Cell(eval_ctx), 0), RefV(Cell(Opaque('SolutionContext')), 0), RefV(Cell(rc), 0), second, position, route_costs, none_cost])

    paths = eng.explore(body, max_paths=60000)
    res.paths = len(paths)
    res.functions |= eng.functions_used
    saw_ok = saw_fail = False
    order = ctx.layout.fields('insertions::InsertionSuccess')
    n_legs = k + 1

    def case_of(m):
        evd = lambda d: {key: _ev_int(m, d[key].t) for key in ('sp', 'dp', 'sd', 'dd')}
        return {'kind': 'insertion_e2e', 'with_capacity': True, 'closed': closed, 'shift_start': 0, 'dep0': 0, 'shift_end': 100000 if closed else None, 'l0': 0, 'lend': 0,
                'capacity': _ev_int(m, holder['capacity'].t), 'dur': [], 'dist': [], 'dur_default': 0, 'dist_default': 0,
                'jobs': [{'loc': i + 1, 'dur': 0, 'tws': 0, 'twe': None, 'demand': evd(d)} for i, d in enumerate(holder['demands'])],
                'tasks': [{'loc': 90 + i, 'dur': 0, 'tws': 0, 'twe': None, 'demand': evd(d)} for i, d in enumerate(holder['tdem'])]}

    for st, out in paths:
        capacity, demands, tdem = holder['capacity'], holder['demands'], holder['tdem']
        within = lambda ds: z3.And(*[l <= capacity.t for l in ref_profile(ds)])
        assume = [within(demands)]
        if out is None:
            if not no_panic(ctx, res, env, st, assume, what=name):
                break
            continue
        if out.variant() is None:
            res.status, res.detail = 'inconclusive', 'symbolic result variant'
            break
        if out.variant() == 0:
            s = out.payload[0][0]
            acts = s.fields[order.index('activities')].items
            if len(acts) != n_tasks:
                res.status, res.detail = 'inconclusive', f'success with {len(acts)} activities for {n_tasks} tasks (structural; no replay)'
                break
            placed = []
            for x in acts:
                a, idx = x.fields[0], x.fields[1]
                cell = env.field(a, 'route::Activity', 'job').payload[1][0].cell
                placed.append((st.user_services.index(cell), idx))
            if [p[0] for p in placed] != list(range(n_tasks)):
                res.status, res.detail = 'inconclusive', f'tasks returned in order {[p[0] for p in placed]} (structural; no replay)'
                break
            alts = [([], z3.BoolVal(True))]
            for t, idx in placed:
                nxt = []
                for seq, cond in alts:
                    c = idx.concrete()
                    for p in ([c] if c is not None else range(0, n_legs + t)):
                        nxt.append((seq + [p], z3.And(cond, idx.t == p) if c is None else cond))
                alts = nxt
            options = []
            for seq, cond in alts:
                lst = list(demands)
                if not (all(0 <= p <= len(lst) + i for i, p in enumerate(seq)) and all(seq[i + 1] >= seq[i] + 1 for i in range(len(seq) - 1))):
                    continue
                for t, p in enumerate(seq):
                    lst.insert(p, tdem[t])
                options.append(z3.And(cond, within(lst)))
            claim = z3.Or(*options) if options else z3.BoolVal(False)
            what = f'{name}: success => load profile with the tasks at the returned positions (pickup before delivery) within capacity'
            saw_ok = saw_ok or witness(ctx, res, env, st, z3.Or(*[tdem[0][key].t != 0 for key in ('sp', 'dp', 'sd', 'dd')]), assume)
        else:
            saw_fail = saw_fail or witness(ctx, res, env, st, z3.BoolVal(True), assume)
            if n_tasks > 1:
                # not claimed: the pickup is judged before the delivery position is known (conservatively, as if the load stayed
                # on board to the end), so feasible pairs can be missed - allowed by the property for multi-task jobs
                if not no_panic(ctx, res, env, st, assume, what=name):
                    break
                continue
            claim = z3.And(*[z3.Not(within(demands[:p] + [tdem[0]] + demands[p:])) for p in range(n_legs)])
            what = f'{name}: failure => no position keeps the load profile within capacity'
        if not decide_claim(ctx, res, env, st, claim, assume, what=what):
            if res.status == 'violated' and res.model is not None:
                res.case = case_of(res.model)
            break
        if not no_panic(ctx, res, env, st, assume, what=name):
            break
    if res.status == 'holds':
        res.witnesses = int(saw_ok) + int(saw_fail)
        if not (saw_ok and saw_fail):
            res.status, res.detail = 'inconclusive', f'vacuous: success={saw_ok} failure={saw_fail}'
    res.time = time.time() - t0
    return res


# ---------------------------------------------------------------------------------------------------------------------
# C15: the work distribution in front of the reducer

def ob_evaluate_all(ctx, n_routes, n_jobs):
    """C15: `PositionInsertionEvaluator::evaluate_all` (real MIR incl. both closures and `choose_best_result`) under the
    documented rayon contract made symbolic: `fold_reduce(source, identity, fold, reduce)` = the items of `source` are cut
    into contiguous groups at ARBITRARY places (one nondeterministic bit per gap), each group is folded from `identity()`,
    the group results are reduced from `identity()`; `cartesian_product(a, b)` = all pairs.  The per-pair step
    `eval_job_insertion_in_route` is replaced by its proved specification (fold_step: min of the alternative and the
    pair's own symbolic cost).  Claim: for every grouping every (route, job) pair is evaluated exactly once and the result
    is the minimum over ALL pairs - i.e. the answer does not depend on how the work is split."""
    name = f'evaluate_all[routes={n_routes},jobs={n_jobs}]'
    res = Result(name)
    res.bounds = (f'{n_routes} routes x {n_jobs} jobs, symbolic integer cost per (route, job) pair in [0,2^20], every contiguous grouping of the pairs '
                  f'(2^{n_routes * n_jobs - 1} schedules), left-to-right reduction with identity leaf; BestResultSelector')
    t0 = time.time()
    fns = ctx.prog.find_method('PositionInsertionEvaluator', 'evaluate_all', trait='InsertionEvaluator')
    sel = ctx.prog.find_method('BestResultSelector', 'select_insertion', trait='ResultSelector')
    if len(fns) != 1 or len(sel) != 1:
        raise Inconclusive('PositionInsertionEvaluator::evaluate_all / BestResultSelector::select_insertion not found')
    s_order = ctx.layout.fields('insertions::InsertionSuccess')

    def success(env, cost):
        f = {name_: Opaque(name_) for name_ in s_order}
        f['cost'] = env.struct('insertions::InsertionCost', data=VecV([cost]))
        return EnumV('insertions::InsertionResult', 0, {0: [Agg('struct', [f[n_] for n_ in s_order], 'insertions::InsertionSuccess')]})

    class Env(drivers.Env):
        def override(self, engine, st, callee, args, dest_ty):
            base = callee.split('::<')[0]
            if base.endswith('cartesian_product'):
                a, b = deref_all(args[0]), deref_all(args[1])
                return VecV([Agg('tuple', [RefV(a, i), RefV(b, j)], '') for i in range(len(a.items)) for j in range(len(b.items))])
            if base.endswith('current_num_threads'):
                # not used by the unchanged code; a refactoring that sizes batches by the thread count gets every count 1..4
                n = z3.Int('num_threads')
                st.assumed.append(z3.And(n >= 1, n <= 4))
                return IV(engine.choose(st, [(n == i, i) for i in range(1, 5)]), 'usize')
            if base.endswith('fold_reduce'):
                source, identity, fold, reduce = args
                items = list(deref_all(source).items)
                groups, cur = [], []
                for i, it in enumerate(items):
                    cur.append(it)
                    if i + 1 < len(items) and engine.split_bool(st, z3.Bool(f'cut_after_{i}')):
                        groups.append(cur)
                        cur = []
                groups.append(cur)
                st.user_groups = [len(g) for g in groups]
                partials = []
                for g in groups:
                    acc = engine.call_closure(st, identity, [])
                    for it in g:
                        acc = engine.call_closure(st, fold, [acc, it])
                    partials.append(acc)
                out = engine.call_closure(st, identity, [])
                for p in partials:
                    out = engine.call_closure(st, reduce, [out, p])
                return out
            if callee.endswith('eval_job_insertion_in_route'):
                route, alt = deref_all(args[2]), args[4]
                job = deref_all(self.field(deref_all(args[1]), 'evaluators::EvaluationContext', 'job'))
                r = [i for i, x in enumerate(self.routes) if x is route]
                j = [i for i, x in enumerate(self.jobs) if x is job]
                if len(r) != 1 or len(j) != 1:
                    raise Inconclusive('cannot identify the (route, job) pair of a fold step')
                self.pairs.append((r[0], j[0]))
                c = z3.Int(f'cost_r{r[0]}_j{j[0]}')
                st.assumed.append(z3.And(c >= 0, c <= 2 ** 20))
                if alt.variant() == 1:
                    return success(self, FV(False, c))
                if alt.variant() == 0:
                    prev = self.field(alt.payload[0][0], 'insertions::InsertionSuccess', 'cost').fields[0].items[0]
                    return success(self, FV(False, zs(z3.If(c < prev.v, c, prev.v))))
                raise Inconclusive('symbolic alternative variant')
            if callee.endswith('InsertionCost::max_value'):
                return RefV(Cell(self.struct('insertions::InsertionCost', data=VecV([FV.max_value()]))), 0)
            return super().override(engine, st, callee, args, dest_ty)

        def dyn_call(self, engine, st, trait, method, args, dest_ty):
            if trait == 'ResultSelector' and method == 'select_insertion':
                return engine.exec_fn(st, sel[0], args)
            if trait == 'ResultSelector' and method == 'select_cost':
                return engine.exec_fn(st, self._trait_default('ResultSelector', 'select_cost'), args)
            return super().dyn_call(engine, st, trait, method, args, dest_ty)

    env = Env(ctx.prog, ctx.layout, 20)
    eng = symex.Engine(ctx.prog, ctx.layout, env)

    def body(st):
        from symex import DynV
        env.assumptions.clear()
        env.pairs = []
        env.routes = [Opaque(f'route{i}') for i in range(n_routes)]
        env.jobs = [Opaque(f'job{i}') for i in range(n_jobs)]
        po = ctx.layout.fields('domain::Problem')
        problem = Agg('struct', [Opaque(f) if f != 'goal' else ArcV(Cell(Opaque('goal'))) for f in po], 'domain::Problem')
        ictx = env.struct('context::InsertionContext', problem=ArcV(Cell(problem)), solution=Opaque('solution'), environment=Opaque('environment'))
        evaluator = env.struct('selectors::PositionInsertionEvaluator', insertion_position=EnumV('evaluators::InsertionPosition', 0, {}))
        jobs = VecV([RefV(Cell(j), 0) for j in env.jobs])
        routes = VecV([RefV(Cell(r), 0) for r in env.routes])
        # `x is route` identification needs the very objects: keep the cells' payloads
        env.jobs = [r.load() for r in jobs.items]
        env.routes = [r.load() for r in routes.items]
        try:
            return eng.exec_fn(st, fns[0], [RefV(Cell(evaluator), 0), RefV(Cell(ictx), 0), RefV(jobs, 0) if False else RefV(Cell(jobs), 0), RefV(Cell(routes), 0),
                                           RefV(Cell(EnumV('selectors::LegSelection', 1, {})), 0), RefV(Cell(DynV('selector')), 0)])
        finally:
            st.user_pairs = list(env.pairs)

    paths = eng.explore(body, max_paths=60000)
    res.paths = len(paths)
    res.functions |= eng.functions_used
    all_pairs = [(r, j) for r in range(n_routes) for j in range(n_jobs)]
    costs = [z3.Int(f'cost_r{r}_j{j}') for r, j in all_pairs]
    dom = [z3.And(c >= 0, c <= 2 ** 20) for c in costs]
    groupings = set()
    for st, out in paths:
        if out is None:
            if not no_panic(ctx, res, env, st, dom, what=name):
                break
            continue
        groupings.add(tuple(getattr(st, 'user_groups', ())))
        seen = sorted(st.user_pairs)
        if seen != all_pairs:
            # structural part of the claim: find costs that expose the missing pair and let the native replay decide
            missing = [p for p in all_pairs if p not in seen]
            res.status = 'violated'
            res.detail = f'{name}: grouping {getattr(st, "user_groups", None)}: pairs evaluated {seen} != all pairs (missing {missing}, duplicates {len(seen) - len(set(seen))})'
            res.counterexample = {'what': res.detail}
            table = [[(0 if (r, j) in missing else 10 + r + j) for j in range(n_jobs)] for r in range(n_routes)]
            res.case = {'kind': 'fold_order', 'routes': n_routes, 'pair_costs': table, 'route_estimates': [0] * n_jobs, 'activity_estimates': [0] * n_jobs}
            break
        if out.variant() != 0:
            res.status, res.detail = 'violated', f'{name}: result is not a Success although every pair has a cost'
            break
        rcost = env.field(out.payload[0][0], 'insertions::InsertionSuccess', 'cost').fields[0].items[0]
        claim = z3.And(z3.Not(rcost.m), z3.Or(*[rcost.v == c for c in costs]), *[rcost.v <= c for c in costs])
        if not decide_claim(ctx, res, env, st, claim, dom, what=f'{name}: grouping {getattr(st, "user_groups", None)}: result == minimum over all pairs'):
            if res.status == 'violated' and res.model is not None:
                m = res.model
                table = [[_ev_int(m, z3.Int(f'cost_r{r}_j{j}')) for j in range(n_jobs)] for r in range(n_routes)]
                res.case = {'kind': 'fold_order', 'routes': n_routes, 'pair_costs': table, 'route_estimates': [0] * n_jobs, 'activity_estimates': [0] * n_jobs}
            break
        if not no_panic(ctx, res, env, st, dom, what=name):
            break
    if res.status == 'holds':
        res.witnesses = len(groupings)
        plain = {g for g in groupings if sum(g) == n_routes * n_jobs}
        if plain == groupings and len(groupings) != 2 ** (n_routes * n_jobs - 1):
            # the source of the fold is the plain product: every cut pattern must have been explored
            res.status, res.detail = 'inconclusive', f'only {len(groupings)} of {2 ** (n_routes * n_jobs - 1)} groupings explored'
        elif len(groupings) < 2:
            res.status, res.detail = 'inconclusive', 'vacuous: fewer than two groupings explored'
    res.time = time.time() - t0
    return res


# ---------------------------------------------------------------------------------------------------------------------
# C01: task order as a hard rule

def ob_tour_order_gate(ctx, k, closed=True):
    """C01 (task order as a hard rule): `TourOrderConstraint::evaluate` (real MIR incl. `evaluate_result`,
    `compare_order_results`) on a tour of k jobs whose order results (Value(v) / Default / Ignored) are symbolic and which
    is ordered as it stands: for every leg p, the target is accepted exactly when the tour with the target inserted at p
    is still ordered (no activity with a greater order before one with a smaller order; Default after every Value;
    Ignored never constrains), and a `stopped` violation implies that every later position violates the order too."""
    from symex import DynV
    name = f'tour_order_gate[k={k}{"" if closed else ",open"}]'
    res = Result(name)
    res.bounds = f'{"closed" if closed else "open"} tour of {k} jobs, every leg; order per job symbolic: Value(v) with integer v in [0,2^16], Default or Ignored'
    t0 = time.time()
    fns = ctx.prog.find_method('TourOrderConstraint', 'evaluate', trait='FeatureConstraint')
    if len(fns) != 1:
        raise Inconclusive('TourOrderConstraint::evaluate not found')
    n_legs = k + 1

    def order_sym(i):
        return z3.Int(f'okind{i}'), z3.Int(f'oval{i}')   # kind: 0 Value, 1 Default, 2 Ignored

    def greater(a, b):
        (ka, va), (kb, vb) = a, b
        return z3.Or(z3.And(ka == 0, kb == 0, va > vb), z3.And(ka == 1, kb == 0))

    def ordered(seq):
        return z3.And(*[z3.Not(greater(seq[i], seq[j])) for i in range(len(seq)) for j in range(i + 1, len(seq))]) if len(seq) > 1 else z3.BoolVal(True)

    for p in range(n_legs):
        class Env(drivers.Env):
            def dyn_closure(self, engine, st, tag, args):
                if tag == 'order':
                    single = deref_all(args[0])
                    idx = [i for i, c in enumerate(self.singles) if c.v is single]
                    if len(idx) != 1:
                        raise Inconclusive('order function called for an unknown job')
                    kind, val = order_sym(idx[0])
                    return EnumV('tour_order::OrderResult', kind, {0: [FV(False, val)]})
                return super().dyn_closure(engine, st, tag, args)

        env = Env(ctx.prog, ctx.layout, 16)
        eng = symex.Engine(ctx.prog, ctx.layout, env)

        def body(st, p=p, env=env, eng=eng):
            env.assumptions.clear()
            for i in range(k + 1):
                kind, val = order_sym(i)
                env.assumptions.append(z3.And(kind >= 0, kind <= 2, val >= 0, val <= 2 ** 16))
            singles = [ArcV(Cell(env.struct('jobs::Single', places=VecV([]), dimens=StateV()))) for _ in range(k + 1)]
            env.singles = [s.cell for s in singles]
            zero, mx = FV.const(0), FV.max_value()
            acts = [env.activity(IV(0), zero, zero, mx, zero, zero, has_job=False)]
            acts += [env.activity(IV(i + 1), zero, zero, mx, zero, zero, job=singles[i]) for i in range(k)]
            if closed:
                acts.append(env.activity(IV(0), zero, zero, mx, zero, zero, has_job=False))
            rc = env.route_ctx(env.actor(IV(0), zero, IV(0) if closed else None, FV.const(1000) if closed else mx), acts, closed)
            tgt = env.activity(IV(99), zero, zero, mx, zero, zero, job=singles[k])
            acts_vec = env.field(env.field(env.field(rc, 'context::RouteContext', 'route'), 'route::Route', 'tour'), 'solution::tour::Tour', 'activities')
            actx = activity_ctx(env, p, RefV(acts_vec, p), RefV(Cell(tgt), 0), RefV(acts_vec, p + 1) if p + 1 < len(acts) else None)
            con = env.struct('tour_order::TourOrderConstraint', code=Agg('struct', [IV(7, 'i32')], 'goal::ViolationCode'),
                             order_fn=EnumV('types::Either', 0, {0: [ArcV(Cell(DynV('order')))]}))
            return eng.exec_fn(st, fns[0], [RefV(Cell(con), 0), RefV(Cell(move_ctx_activity(env, rc, actx)), 0)])

        paths = eng.explore(body, max_paths=20000)
        res.paths += len(paths)
        res.functions |= eng.functions_used
        tour = [order_sym(i) for i in range(k)]
        target = order_sym(k)
        assume = [ordered(tour)]
        saw_acc = saw_rej = saw_stop = False
        for st, out in paths:
            if out is None:
                if not no_panic(ctx, res, env, st, assume, what=name):
                    break
                continue
            accepted = zs(out.discr == 0)
            post = ordered(tour[:p] + [target] + tour[p:])
            claim = accepted == post
            v = out.payload.get(1, [None])[0]
            if v is not None:
                stopped = env.field(v, 'goal::ConstraintViolation', 'stopped').t
                later = [z3.Not(ordered(tour[:q] + [target] + tour[q:])) for q in range(p, n_legs)]
                claim = z3.And(claim, z3.Implies(z3.And(z3.Not(accepted), stopped), z3.And(*later)))
                saw_stop = saw_stop or witness(ctx, res, env, st, z3.And(z3.Not(accepted), stopped), assume)
            if not decide_claim(ctx, res, env, st, claim, assume, what=f'{name} leg {p}: accepted <=> order kept; stopped => no later position keeps it'):
                if res.status == 'violated' and res.model is not None:
                    m = res.model

                    def o(i):
                        kind, val = order_sym(i)
                        return {'kind': ['value', 'default', 'ignored'][_ev_int(m, kind)], 'value': _ev_int(m, val)}
                    res.case = {'kind': 'tour_order', 'closed': closed, 'shift_start': 0, 'dep0': 0, 'shift_end': 100000 if closed else None, 'l0': 0, 'lend': 0,
                                'dur': [], 'dist': [], 'dur_default': 0, 'dist_default': 0, 'leg': p,
                                'jobs': [{'loc': i + 1, 'dur': 0, 'tws': 0, 'twe': None, 'order': o(i)} for i in range(k)],
                                'target': {'loc': 99, 'dur': 0, 'tws': 0, 'twe': None, 'order': o(k)}}
                break
            if not no_panic(ctx, res, env, st, assume, what=name):
                break
            saw_acc = saw_acc or witness(ctx, res, env, st, accepted, assume)
            saw_rej = saw_rej or witness(ctx, res, env, st, z3.Not(accepted), assume)
        if res.status != 'holds':
            break
        res.witnesses += int(saw_acc) + int(saw_rej) + int(saw_stop)
        if not saw_acc or (k > 0 and not saw_rej):
            res.status, res.detail = 'inconclusive', f'vacuous at leg {p}: accepted={saw_acc} rejected={saw_rej}'
            break
    res.time = time.time() - t0
    return res


# ---------------------------------------------------------------------------------------------------------------------
# capacity per reload interval (C01: "per reload interval", C05: caches, C06)

def ob_capacity_reload(ctx, before, after, closed=True, shipment=False):
    """C01/C05/C06 with a reload in the tour: tour = start, `before` jobs, a marker (reload) activity, `after` jobs (, end).
    The intervals come from the real `get_route_intervals`; `recalculate_states` (real MIR, T := SingleDimLoad, symbolic
    stale caches) must produce, per interval, the reference profile: static deliveries of an interval are on board from its
    first activity (the start depot or the reload), static pickups leave at its end; and `evaluate_activity` must accept a
    single job with static demand at leg p exactly when the piecewise profile with the job inserted stays within capacity."""
    from symex import DynV
    k = before + after
    name = f'capacity_reload[{before}+R+{after},{"closed" if closed else "open"}{",shipment-pickup" if shipment else ""}]'
    res = Result(name)
    res.bounds = (f'tour: start, {before} jobs, reload marker, {after} jobs{", end" if closed else ""}; jobs and target carry static pickup and/or static delivery '
                  f'(single dimension, amounts in [0,2^14], capacity in [0,2^15]); every insertion leg; symbolic stale caches'
                  + ('; the inserted activity is the PICKUP task of a shipment (multi job): its load is taken to stay on board to the end of the tour, across the reload' if shipment else ''))
    t0 = time.time()
    gri = ctx.prog.find_free('route_intervals::get_route_intervals')
    rs = ctx.prog.find_method('CapacitatedMultiTrip', 'recalculate_states', trait='MultiTrip')
    ev = ctx.prog.find_method('CapacitatedMultiTrip', 'evaluate_activity')
    if len(rs) != 1 or len(ev) != 1:
        raise Inconclusive('CapacitatedMultiTrip::recalculate_states / evaluate_activity not found')
    n_acts = k + 2 + (1 if closed else 0)
    marker_idx = before + 1

    def static_demand(env, nm):
        d = {'sp': env.sym_i(f'{nm}_sp', 0, 2 ** 14, 'i32'), 'sd': env.sym_i(f'{nm}_sd', 0, 2 ** 14, 'i32'), 'dp': IV(0, 'i32'), 'dd': IV(0, 'i32')}
        return d

    def reference(demands_with_marker):
        """demands_with_marker: list over job activities (None = the marker). -> loads after each activity incl. start (idx 0) [and end]."""
        # intervals: [0 .. marker-1], [marker .. last]
        acts = [None] + list(demands_with_marker) + ([None] if closed else [])      # None at 0 = start depot, trailing None = end depot
        m = 1 + demands_with_marker.index('R')
        loads = [None] * len(acts)
        carry = z3.IntVal(0)
        for lo, hi in ((0, m - 1), (m, len(acts) - 1)):
            seg = [a for a in acts[lo:hi + 1] if isinstance(a, dict)]
            cur = carry + sum([d['sd'].t for d in seg], z3.IntVal(0))
            for i in range(lo, hi + 1):
                a = acts[i]
                if isinstance(a, dict):
                    cur = cur + a['sp'].t - a['sd'].t
                loads[i] = cur
            carry = cur - sum([d['sp'].t for d in seg], z3.IntVal(0))
        return loads, m

    for p in range(n_acts - (1 if closed else 0)):
        class Env(drivers.Env):
            def dyn_call(self, engine, st, trait, method, args, dest_ty):
                if trait == 'RouteIntervalsState' and method == 'get_route_intervals':
                    return mk_option(True, RefV(Cell(self.intervals), 0), ty=dest_ty)
                return super().dyn_call(engine, st, trait, method, args, dest_ty)

            def override(self, engine, st, callee, args, dest_ty):
                if shipment and callee.endswith('Activity::retrieve_job'):
                    act = deref_all(args[0])
                    job = self.field(act, 'route::Activity', 'job')
                    if job.variant() == 1 and job.payload[1][0].cell is getattr(self, 'target_cell', None):
                        return mk_option(True, EnumV('jobs::Job', 1, {1: [ArcV(Cell(Opaque('Multi')))]}), ty=dest_ty)
                return super().override(engine, st, callee, args, dest_ty)

            def dyn_closure(self, engine, st, tag, args):
                if tag == 'is_marker':
                    act = deref_all(args[0])
                    job = self.field(act, 'route::Activity', 'job')
                    return BV(job.variant() == 1 and job.payload[1][0].cell is self.marker_cell)
                return super().dyn_closure(engine, st, tag, args)

        env = Env(ctx.prog, ctx.layout, 16)
        env.type_subst = {'T': 'load::SingleDimLoad'}
        eng = symex.Engine(ctx.prog, ctx.layout, env)
        holder = {}

        def body(st, p=p, env=env, eng=eng, holder=holder):
            env.assumptions.clear()
            capacity = env.sym_i('capacity', 0, 2 ** 15, 'i32')
            demands = [static_demand(env, f'd{i + 1}') for i in range(k)]
            target = static_demand(env, 'target')
            if shipment:
                target = {'sp': IV(0, 'i32'), 'sd': IV(0, 'i32'), 'dp': env.sym_i('target_dp', 0, 2 ** 14, 'i32'), 'dd': IV(0, 'i32')}
            zero, mx = FV.const(0), FV.max_value()
            marker = ArcV(Cell(env.struct('jobs::Single', places=VecV([]), dimens=StateV({}))))
            env.marker_cell = marker.cell
            acts = [env.activity(IV(0), zero, zero, mx, zero, zero, has_job=False)]
            seq = []
            for i in range(k + 1):
                if i == before:
                    acts.append(env.activity(IV(50), zero, zero, mx, zero, zero, job=marker))
                    seq.append('R')
                if i < k:
                    acts.append(env.activity(IV(i + 1), zero, zero, mx, zero, zero, job=single_job(env, demands[i])))
                    seq.append(demands[i])
            if closed:
                acts.append(env.activity(IV(0), zero, zero, mx, zero, zero, has_job=False))
            dimens = StateV({'vehicle_capacity': load_v(env, capacity.t)})
            actor = env.actor(IV(0), zero, IV(0) if closed else None, FV.const(1000) if closed else mx, dimens=dimens)
            rc = env.route_ctx(actor, acts, closed)
            state = env.state_of(rc)
            for key in ('current_capacity', 'max_past_capacity', 'max_future_capacity'):
                state.table[key] = VecV([load_v(env, z3.Int(f'stale_{key}_{i}')) for i in range(len(acts))])
            # intervals by the real function (marker predicate = identity of the marker job)
            route = env.field(rc, 'context::RouteContext', 'route')
            env.intervals = eng.exec_fn(st, gri, [RefV(Cell(route), 0), Agg('closure', [], 'is_marker', fn_name='is_marker') if False else ArcV(Cell(DynV('is_marker')))])
            holder['intervals'] = [(t.fields[0].concrete(), t.fields[1].concrete()) for t in env.intervals.items]
            multiple = EnumV('route_intervals::RouteIntervals', 1, {1: [ArcV(Cell(DynV('is_marker_single'))), ArcV(Cell(DynV('is_new_interval_needed'))),
                                                                         ArcV(Cell(DynV('is_obsolete_interval'))), ArcV(Cell(DynV('is_assignable'))),
                                                                         ArcV(Cell(DynV('intervals_state')))]})
            mt = env.struct('capacity::CapacitatedMultiTrip', route_intervals=multiple, violation_code=Agg('struct', [IV(2, 'i32')], 'goal::ViolationCode'), phantom=UnitV())
            cell = Cell(rc)
            eng.exec_fn(st, rs[0], [RefV(Cell(mt), 0), RefV(cell, 0, True)])
            rc = cell.v
            holder.update(capacity=capacity, seq=seq, target=target, state=env.state_of(rc))
            tgt_job = single_job(env, target)
            env.target_cell = tgt_job.cell
            tgt_act = env.activity(IV(99), zero, zero, mx, zero, zero, job=tgt_job)
            acts_vec = env.field(env.field(env.field(rc, 'context::RouteContext', 'route'), 'route::Route', 'tour'), 'solution::tour::Tour', 'activities')
            n = len(acts_vec.items)
            actx = activity_ctx(env, p, RefV(acts_vec, p), RefV(Cell(tgt_act), 0), RefV(acts_vec, p + 1) if p + 1 < n else None)
            return eng.exec_fn(st, ev[0], [RefV(Cell(mt), 0), RefV(Cell(rc), 0), RefV(Cell(actx), 0)])

        paths = eng.explore(body)
        res.paths += len(paths)
        res.functions |= eng.functions_used
        saw_acc = saw_rej = False
        for st, out in paths:
            capacity, seq, target, state = holder['capacity'], holder['seq'], holder['target'], holder['state']
            if holder['intervals'] != [(0, marker_idx - 1), (marker_idx, n_acts - 1)]:
                res.status, res.detail = 'violated', f'{name}: get_route_intervals returned {holder["intervals"]}'
                break
            loads, m = reference(seq)
            assume = [z3.And(*[l <= capacity.t for l in loads])]
            if out is None:
                if not no_panic(ctx, res, env, st, assume, what=name):
                    break
                continue
            cur = state.table['current_capacity'].items
            past = state.table['max_past_capacity'].items
            fut = state.table['max_future_capacity'].items
            val = lambda a: a.fields[0].t
            claims = []
            for lo, hi in ((0, m - 1), (m, n_acts - 1)):
                for i in range(lo, hi + 1):
                    claims.append(val(cur[i]) == loads[i])
                    mp = z3.IntVal(0)
                    for j in range(lo, i + 1):
                        mp = z3.If(loads[j] > mp, loads[j], mp)
                    claims.append(val(past[i]) == mp)
                    mf = loads[hi]
                    for j in range(i, hi + 1):
                        mf = z3.If(loads[j] > mf, loads[j], mf)
                    claims.append(val(fut[i]) == mf)
            def case_of(kind_, m):
                evd = lambda d: {key: _ev_int(m, d[key].t) for key in ('sp', 'dp', 'sd', 'dd')}
                jobs_doc = [{'loc': 50, 'dur': 0, 'tws': 0, 'twe': None, 'reload': True} if x == 'R' else {'loc': 1 + i, 'dur': 0, 'tws': 0, 'twe': None, 'demand': evd(x)}
                            for i, x in enumerate(seq)]
                return {'kind': kind_, 'closed': closed, 'shift_start': 0, 'dep0': 0, 'shift_end': 100000 if closed else None, 'l0': 0, 'lend': 0, 'target_multi': shipment,
                        'capacity': _ev_int(m, capacity.t), 'leg': p, 'dur': [], 'dist': [], 'dur_default': 0, 'dist_default': 0, 'jobs': jobs_doc,
                        'target': {'loc': 99, 'dur': 0, 'tws': 0, 'twe': None, 'demand': evd(target)}}
            if not decide_claim(ctx, res, env, st, z3.And(*claims), assume, what=f'{name} leg {p}: load caches == piecewise reference profile'):
                if res.status == 'violated' and res.model is not None:
                    res.case = case_of('capacity_caches', res.model)
                break
            # insertion at leg p: the target goes after activity p; in the job sequence that is position p (activities are offset by the start depot)
            if shipment:
                # the picked-up amount is on board from the insertion point to the end of the tour (the delivery position is not known yet)
                post_ok = z3.And(*[loads[i] + target['dp'].t <= capacity.t for i in range(p, len(loads))])
                has_demand = target['dp'].t != 0
            else:
                post_seq = seq[:p] + [target] + seq[p:]
                post_loads, _ = reference(post_seq)
                post_ok = z3.And(*[l <= capacity.t for l in post_loads])
                has_demand = z3.Or(target['sp'].t != 0, target['sd'].t != 0)
            accepted = zs(out.discr == 0)
            if not decide_claim(ctx, res, env, st, accepted == post_ok, assume, what=f'{name} leg {p}: accepted <=> piecewise load profile after insertion within capacity'):
                if res.status == 'violated' and res.model is not None:
                    res.case = case_of('capacity_gate_exact', res.model)
                break
            if not no_panic(ctx, res, env, st, assume, what=name):
                break
            saw_acc = saw_acc or witness(ctx, res, env, st, z3.And(accepted, has_demand), assume)
            saw_rej = saw_rej or witness(ctx, res, env, st, z3.Not(accepted), assume)
        if res.status != 'holds':
            break
        res.witnesses += int(saw_acc) + int(saw_rej)
        if not (saw_acc and saw_rej):
            res.status, res.detail = 'inconclusive', f'vacuous at leg {p}: accepted={saw_acc} rejected={saw_rej}'
            break
    res.time = time.time() - t0
    return res


def ob_insertion_e2e_both(ctx, k, closed=True, bits=16):
    """C06 second sentence, both constraints at once: `eval_single` (real MIR) where `GoalContext::evaluate` is the real
    time-window constraint followed by the real capacity constraint (first violation wins - the order of the goal), and the
    tour state comes from the real `update_route_schedule` and `recalculate_states`.  Tour of k jobs with symbolic times
    AND symbolic mixed demand, single-task job with a symbolic window and any single-kind demand.  Success => the returned
    position is feasible for the time simulation and keeps the load profile within capacity; Failure => no position is
    feasible for both."""
    from symex import DynV
    name = f'insertion_e2e_both[k={k},{"closed" if closed else "open"}]'
    res = Result(name)
    res.bounds = (f'tour of {k} jobs ({"closed" if closed else "open"}) with symbolic times and mixed static/dynamic demand; single-task job, one symbolic window, any single-kind '
                  f'demand; times in [0,2^{bits}], amounts in [0,2^14], capacity in [0,2^15]; routing uninterpreted; exhaustive legs; symbolic cost per candidate')
    t0 = time.time()
    fn = ctx.prog.find_free('eval_single')
    ea = ctx.prog.find_method('TransportConstraint', 'evaluate_activity')
    ec = ctx.prog.find_method('CapacitatedMultiTrip', 'evaluate_activity')
    rs = ctx.prog.find_method('CapacitatedMultiTrip', 'recalculate_states', trait='MultiTrip')
    if len(ea) != 1 or len(ec) != 1 or len(rs) != 1:
        raise Inconclusive('constraint functions not found')

    class Env(drivers.Env):
        def override(self, engine, st, callee, args, dest_ty):
            if callee.endswith('GoalContext::evaluate'):
                mc = deref_all(args[1])
                v = engine.exec_fn(st, ea[0], [RefV(Cell(transport_constraint(self)), 0), mc.payload[1][1], mc.payload[1][2]])
                if engine.split_bool(st, v.discr == 1):
                    return v
                return engine.exec_fn(st, ec[0], [RefV(Cell(multitrip(self)), 0), mc.payload[1][1], mc.payload[1][2]])
            if callee.endswith('GoalContext::estimate'):
                self.n_cost += 1
                return self.struct('insertions::InsertionCost', data=VecV([self.sym_f_path(st, f'cost_call{self.n_cost}', 0, 2 ** 20)]))
            if callee.endswith('InsertionCost::max_value'):
                return RefV(Cell(self.struct('insertions::InsertionCost', data=VecV([FV.max_value()]))), 0)
            return super().override(engine, st, callee, args, dest_ty)

        def dyn_call(self, engine, st, trait, method, args, dest_ty):
            if trait == 'ResultSelector' and method == 'select_cost':
                return engine.exec_fn(st, self._trait_default('ResultSelector', 'select_cost'), args)
            return super().dyn_call(engine, st, trait, method, args, dest_ty)

    env = Env(ctx.prog, ctx.layout, bits)
    env.type_subst = {'T': 'load::SingleDimLoad'}
    eng = symex.Engine(ctx.prog, ctx.layout, env)
    holder = {}

    def body(st):
        env.assumptions.clear()
        env.n_cost = 0
        spec = TourSpec(env, k, closed)
        capacity = env.sym_i('capacity', 0, 2 ** 15, 'i32')
        spec.vehicle_dimens = StateV({'vehicle_capacity': load_v(env, capacity.t)})
        spec.job_arcs = {}
        for i, j in enumerate(spec.jobs):
            j['demand'] = sym_demand(env, f'd{i + 1}', 'any')
            spec.job_arcs[id(j)] = single_job(env, j['demand'])
        task = spec.sym_job('task0')
        task['demand'] = sym_demand(env, 'task0_d', 'any')
        holder.update(spec=spec, task=task, capacity=capacity)
        rc = spec.build()
        rc = run_update(ctx, env, eng, st, rc)
        cell = Cell(rc)
        eng.exec_fn(st, rs[0], [RefV(Cell(multitrip(env)), 0), RefV(cell, 0, True)])
        rc = cell.v
        place = env.struct('jobs::Place', location=mk_option(True, task['loc'], ty='Option<usize>'), duration=task['dur'],
                           times=VecV([EnumV('domain::TimeSpan', 0, {0: [env.time_window(task['tws'], task['twe'])]})]))
        single = ArcV(Cell(env.struct('jobs::Single', places=VecV([place]), dimens=StateV({'job_demand': demand_v(env, task['demand'])}))))
        job = EnumV('jobs::Job', 0, {0: [single]})
        eval_ctx = env.struct('evaluators::EvaluationContext', goal=RefV(Cell(Opaque('goal')), 0), job=RefV(Cell(job), 0),
                              leg_selection=RefV(Cell(EnumV('selectors::LegSelection', 1, {})), 0), result_selector=RefV(Cell(DynV('selector')), 0))
        route_costs = env.struct('insertions::InsertionCost', data=VecV([FV.const(0)]))
        return eng.exec_fn(st, fn, [RefV(Cell(eval_ctx), 0), RefV(Cell(Opaque('SolutionContext')), 0), RefV(Cell(rc), 0), RefV(Cell(single), 0),
                                    EnumV('evaluators::InsertionPosition', 0, {}), route_costs, mk_option(False, ty='Option<InsertionCost>')])

    paths = eng.explore(body, max_paths=60000)
    res.paths = len(paths)
    res.functions |= eng.functions_used
    order = ctx.layout.fields('insertions::InsertionSuccess')
    n_legs = k + 1
    saw_ok = saw_fail = False
    for st, out in paths:
        spec, task, capacity = holder['spec'], holder['task'], holder['capacity']
        within = lambda js: z3.And(*[l <= capacity.t for l in ref_profile([j['demand'] for j in js])])
        both = lambda js: z3.And(spec.feasible(js), within(js))
        assume = spec.matrix_assumptions(spec.jobs + [task]) + [both(spec.jobs)]
        if out is None:
            if not no_panic(ctx, res, env, st, assume, what=name):
                break
            continue
        if out.variant() is None:
            res.status, res.detail = 'inconclusive', 'symbolic result variant'
            break
        if out.variant() == 0:
            s = out.payload[0][0]
            acts = s.fields[order.index('activities')].items
            idx = acts[0].fields[1]
            c = idx.concrete()
            options = [z3.And(idx.t == p if c is None else z3.BoolVal(c == p), both(spec.jobs[:p] + [task] + spec.jobs[p:])) for p in range(n_legs)]
            claim = z3.Or(*options)
            what = f'{name}: success => returned position feasible for time windows AND capacity'
            saw_ok = saw_ok or witness(ctx, res, env, st, z3.Or(*[task['demand'][key].t != 0 for key in ('sp', 'dp', 'sd', 'dd')]), assume)
        else:
            claim = z3.And(*[z3.Not(both(spec.jobs[:p] + [task] + spec.jobs[p:])) for p in range(n_legs)])
            what = f'{name}: failure => no position feasible for both'
            saw_fail = saw_fail or witness(ctx, res, env, st, z3.BoolVal(True), assume)
        if not decide_claim(ctx, res, env, st, claim, assume, what=what):
            if res.status == 'violated' and res.model is not None:
                m = res.model
                jd = lambda j: {'loc': _ev_int(m, j['loc'].t), 'dur': _ev_f(m, j['dur']), 'tws': _ev_f(m, j['tws']), 'twe': _ev_f(m, j['twe']),
                                'demand': {key: _ev_int(m, v.t) for key, v in j['demand'].items()}}
                res.case = make_case('insertion_e2e', env, spec, m, extra={'tasks': [jd(task)], 'capacity': _ev_int(m, capacity.t)})
            break
        if not no_panic(ctx, res, env, st, assume, what=name):
            break
    if res.status == 'holds':
        res.witnesses = int(saw_ok) + int(saw_fail)
        if not (saw_ok and saw_fail):
            res.status, res.detail = 'inconclusive', f'vacuous: success={saw_ok} failure={saw_fail}'
    res.time = time.time() - t0
    return res


def ob_evaluate_collect_all(ctx, n_routes, n_jobs, fold_jobs):
    """C15 (collection flavour): `PositionInsertionEvaluator::evaluate_and_collect_all` (real MIR, both closures) with
    `parallel_collect(source, map)` taken at its contract (the results of `map` in source order) and the per-pair step
    replaced by its specification (min with a symbolic cost per pair): with more required jobs than routes the result has
    one entry per job = minimum over the routes, otherwise one entry per route = minimum over the jobs; every (route, job)
    pair is evaluated exactly once."""
    from symex import DynV
    name = f'evaluate_collect_all[routes={n_routes},jobs={n_jobs},{"per-job" if fold_jobs else "per-route"}]'
    res = Result(name)
    res.bounds = f'{n_routes} routes x {n_jobs} jobs, symbolic integer cost per pair in [0,2^20]; required jobs {"more" if fold_jobs else "not more"} than routes in the solution'
    t0 = time.time()
    fns = ctx.prog.find_method('PositionInsertionEvaluator', 'evaluate_and_collect_all')
    if len(fns) != 1:
        raise Inconclusive('PositionInsertionEvaluator::evaluate_and_collect_all not found')
    s_order = ctx.layout.fields('insertions::InsertionSuccess')

    def success(env, cost):
        f = {n_: Opaque(n_) for n_ in s_order}
        f['cost'] = env.struct('insertions::InsertionCost', data=VecV([cost]))
        return EnumV('insertions::InsertionResult', 0, {0: [Agg('struct', [f[n_] for n_ in s_order], 'insertions::InsertionSuccess')]})

    class Env(drivers.Env):
        def override(self, engine, st, callee, args, dest_ty):
            base = callee.split('::<')[0]
            if base.endswith('parallel_collect'):
                src = deref_all(args[0])
                return VecV([engine.call_closure(st, args[1], [RefV(src, i)]) for i in range(len(src.items))])
            if callee.endswith('eval_job_insertion_in_route'):
                route, alt = deref_all(args[2]), args[4]
                job = deref_all(self.field(deref_all(args[1]), 'evaluators::EvaluationContext', 'job'))
                r = [i for i, x in enumerate(self.routes) if x is route]
                j = [i for i, x in enumerate(self.jobs) if x is job]
                if len(j) != 1:
                    raise Inconclusive('cannot identify the job of a fold step')
                if len(r) != 1:
                    # a tour that was NOT handed over in `routes` (e.g. taken from the solution instead): noted, cost symbol of its own
                    self.pairs.append((-1, j[0]))
                    r = [-1]
                else:
                    self.pairs.append((r[0], j[0]))
                c = z3.Int(f'cost_r{r[0]}_j{j[0]}' if r[0] >= 0 else f'cost_foreign_j{j[0]}')
                st.assumed.append(z3.And(c >= 0, c <= 2 ** 20))
                if alt.variant() == 1:
                    return success(self, FV(False, c))
                prev = self.field(alt.payload[0][0], 'insertions::InsertionSuccess', 'cost').fields[0].items[0]
                return success(self, FV(False, zs(z3.If(c < prev.v, c, prev.v))))
            return super().override(engine, st, callee, args, dest_ty)

    env = Env(ctx.prog, ctx.layout, 20)
    eng = symex.Engine(ctx.prog, ctx.layout, env)

    def body(st):
        env.assumptions.clear()
        env.pairs = []
        po = ctx.layout.fields('domain::Problem')
        problem = Agg('struct', [Opaque(f) if f != 'goal' else ArcV(Cell(Opaque('goal'))) for f in po], 'domain::Problem')
        so = ctx.layout.fields('context::SolutionContext')
        sol = Agg('struct', [Opaque(f) for f in so], 'context::SolutionContext')
        # the caller hands over the tours of the solution PLUS fresh ones from the registry: the solution itself has one tour less
        n_sol = max(n_routes - 1, 1)
        n_req = (n_sol + 1) if fold_jobs else 0
        sol.fields[so.index('required')] = VecV([Opaque(f'required{i}') for i in range(n_req)])
        sol.fields[so.index('routes')] = VecV([Opaque(f'sroute{i}') for i in range(n_sol)])
        ictx = env.struct('context::InsertionContext', problem=ArcV(Cell(problem)), solution=sol, environment=Opaque('environment'))
        evaluator = env.struct('selectors::PositionInsertionEvaluator', insertion_position=EnumV('evaluators::InsertionPosition', 0, {}))
        jobs = VecV([RefV(Cell(Opaque(f'job{i}')), 0) for i in range(n_jobs)])
        routes = VecV([RefV(Cell(Opaque(f'route{i}')), 0) for i in range(n_routes)])
        env.jobs = [r.load() for r in jobs.items]
        env.routes = [r.load() for r in routes.items]
        try:
            return eng.exec_fn(st, fns[0], [RefV(Cell(evaluator), 0), RefV(Cell(ictx), 0), RefV(Cell(jobs), 0), RefV(Cell(routes), 0),
                                           RefV(Cell(EnumV('selectors::LegSelection', 1, {})), 0), RefV(Cell(DynV('selector')), 0)])
        finally:
            st.user_pairs = list(env.pairs)

    paths = eng.explore(body)
    res.paths = len(paths)
    res.functions |= eng.functions_used
    all_pairs = [(r, j) for r in range(n_routes) for j in range(n_jobs)]
    dom = [z3.And(z3.Int(f'cost_r{r}_j{j}') >= 0, z3.Int(f'cost_r{r}_j{j}') <= 2 ** 20) for r, j in all_pairs]
    for st, out in paths:
        if out is None:
            if not no_panic(ctx, res, env, st, dom, what=name):
                break
            continue
        if sorted(st.user_pairs) != all_pairs:
            res.status = 'violated'
            res.detail = f'{name}: the (route, job) pairs evaluated are {sorted(st.user_pairs)} (-1 = a tour that was not handed over), not every pair of the given routes and jobs once'
            res.counterexample = {'what': res.detail}
            res.case = {'kind': 'collect_all', 'routes': n_routes, 'jobs': n_jobs, 'fold_jobs': fold_jobs}
            break
        items = out.items
        groups = [[(r, j) for r in range(n_routes)] for j in range(n_jobs)] if fold_jobs else [[(r, j) for j in range(n_jobs)] for r in range(n_routes)]
        if len(items) != len(groups):
            res.status, res.detail = 'inconclusive', f'{name}: {len(items)} results for {len(groups)} {"jobs" if fold_jobs else "routes"} (structural; no replay)'
            break
        claims = []
        for item, group in zip(items, groups):
            if item.variant() != 0:
                claims.append(z3.BoolVal(False))
                continue
            rc = env.field(item.payload[0][0], 'insertions::InsertionSuccess', 'cost').fields[0].items[0]
            cs = [z3.Int(f'cost_r{r}_j{j}') for r, j in group]
            claims.append(z3.And(z3.Or(*[rc.v == c for c in cs]), *[rc.v <= c for c in cs]))
        if not decide_claim(ctx, res, env, st, z3.And(*claims), dom, what=f'{name}: entry i == minimum over the other dimension'):
            break
        if not no_panic(ctx, res, env, st, dom, what=name):
            break
        res.witnesses += 1
    if res.status == 'holds' and res.witnesses == 0:
        res.status, res.detail = 'inconclusive', 'vacuous'
    res.time = time.time() - t0
    return res


# ---------------------------------------------------------------------------------------------------------------------
# C16: construction of the time-aware provider

def ob_time_aware_new(ctx, n):
    """C16 (time-dependent routing, construction): `TimeAwareMatrixTransportCost::new` (real MIR incl. the sort by
    timestamp; `collect_group_by_key` = grouping by key, hash containers as association lists with symbolic keys) for n
    matrices with symbolic profile index, symbolic timestamp and symbolic 'timestamp present': rejected exactly when a
    timestamp is missing or a profile has a single matrix; otherwise every profile's group holds exactly its matrices,
    ascending by timestamp, with the timestamp vector aligned - the state the interpolation obligations start from."""
    name = f'time_aware_new[matrices={n}]'
    res = Result(name)
    res.bounds = f'{n} matrices, profile index symbolic in {{0,1}}, timestamps symbolic integers in [0,2^16], presence of each timestamp symbolic'
    t0 = time.time()
    fns = ctx.prog.find_method('TimeAwareMatrixTransportCost', 'new')
    if len(fns) != 1:
        raise Inconclusive('TimeAwareMatrixTransportCost::new not found')

    class Env(drivers.Env):
        symbolic_maps = True

        def override(self, engine, st, callee, args, dest_ty):
            if 'collect_group_by_key' in callee:
                from symex import AMapV
                from models import iterator_method, value_eq
                it = iterator_method(engine, st, 'into_iter', [args[0]], '')
                groups = []        # [(key, VecV)]
                for item in it.items:
                    key = engine.call_closure(st, args[1], [RefV(Cell(item), 0)])
                    for gk, vec in groups:
                        if engine.split_bool(st, zs(value_eq(gk, key))):
                            vec.items.append(item)
                            break
                    else:
                        groups.append((key, VecV([item])))
                return AMapV(groups)
            return super().override(engine, st, callee, args, dest_ty)

    env = Env(ctx.prog, ctx.layout, 16)
    eng = symex.Engine(ctx.prog, ctx.layout, env)
    holder = {}

    def body(st):
        env.assumptions.clear()
        mats, info = [], []
        for i in range(n):
            prof = env.sym_i(f'profile{i}', 0, 1)
            ts = env.sym_f(f'timestamp{i}')
            has = z3.Bool(f'has_timestamp{i}')
            mats.append(env.struct('costs::MatrixData', index=prof, timestamp=mk_option(has, ts, ty='Option<f64>'), durations=VecV([FV.const(i)]), distances=VecV([FV.const(i)])))
            info.append((prof, ts, has))
        holder['info'] = info
        return eng.exec_fn(st, fns[0], [VecV(mats), IV(1), Opaque('NoFallback')])

    paths = eng.explore(body, max_paths=20000)
    res.paths = len(paths)
    res.functions |= eng.functions_used
    saw_ok = saw_err = False
    order = ctx.layout.fields('costs::TimeAwareMatrixTransportCost')
    for st, out in paths:
        if out is None:
            if not no_panic(ctx, res, env, st, what=name):
                break
            continue
        info = holder['info']
        missing = z3.Or(*[z3.Not(h) for _, _, h in info])
        single = z3.Or(*[z3.Sum([z3.If(p2.t == p.t, 1, 0) for p2, _, _ in info]) == 1 for p, _, _ in info])
        if out.variant() is None:
            res.status, res.detail = 'inconclusive', 'symbolic result variant'
            break
        if out.variant() == 1:
            claim = z3.Or(missing, single)
            saw_err = True
        else:
            provider = out.payload[0][0]
            costs = provider.fields[order.index('costs')]
            conds = [z3.Not(missing), z3.Not(single)]
            total = 0
            for key, val in costs.entries:
                tss, ms = val.fields[0].items, val.fields[1].items
                total += len(ms)
                if len(tss) != len(ms):
                    conds.append(z3.BoolVal(False))
                    continue
                for t_, m_ in zip(tss, ms):
                    conds.append(env.field(m_, 'costs::MatrixData', 'index').t == key.t)
                    conds.append(t_.t == env.field(m_, 'costs::MatrixData', 'timestamp').payload[1][0].v)
                for a_, b_ in zip(tss, tss[1:]):
                    conds.append(a_.t <= b_.t)
            conds.append(z3.BoolVal(total == n))
            keys = [k for k, _ in costs.entries]
            for i in range(len(keys)):
                for j in range(i + 1, len(keys)):
                    conds.append(keys[i].t != keys[j].t)
            claim = z3.And(*conds)
            saw_ok = True
        if not decide_claim(ctx, res, env, st, claim, what=f'{name}: rejected <=> missing timestamp or single matrix; accepted => grouped by profile, ascending, aligned'):
            if res.status == 'violated' and res.model is not None:
                m = res.model
                ev = lambda t: m.eval(t, model_completion=True).as_long()
                if all(z3.is_true(m.eval(h, model_completion=True)) for _, _, h in info) and len({ev(p.t) for p, _, _ in info}) == 1:
                    # one profile, all timestamps present: the provider is built from the matrices in the model's order and asked after the
                    # last timestamp - it must answer from the matrix with the LARGEST timestamp
                    tsv = [ev(t.v) for _, t, _ in info]
                    res.case = {'kind': 'time_aware', 'size': 1, 'from': 0, 'to': 0, 'query': max(tsv) + 1,
                                'matrices': [{'timestamp': tsv[i], 'durations': [10.0 * (i + 1)], 'distances': [10.0 * (i + 1)]} for i in range(n)]}
            break
        if not no_panic(ctx, res, env, st, what=name):
            break
    if res.status == 'holds':
        res.witnesses = int(saw_ok) + int(saw_err)
        if not (saw_ok and saw_err):
            res.status, res.detail = 'inconclusive', f'vacuous: ok={saw_ok} err={saw_err}'
    res.time = time.time() - t0
    return res


# ---------------------------------------------------------------------------------------------------------------------
# C14 (registry half): vehicle bookkeeping from an arbitrary state

def ob_registry_step(ctx, groups):
    """C14 (vehicle registry): `Registry::use_actor`, `free_actor`, `available`, `next`, `deep_copy` (real MIR) from an
    ARBITRARY bookkeeping state: the actors are fixed objects (groups as given), which of them are currently available is
    one symbolic Bool each, so every subset is covered by one execution (hash containers: association lists; sets with
    symbolic membership).  use_actor(a) answers 'was available' and makes a unavailable; a second use_actor(a) answers
    false (never handed out twice); free_actor(a) answers 'was in use' and makes a available; no other actor changes;
    `available()` yields exactly the available actors, each once; `next()` yields one available actor of each group that
    has one, for every answer of the random source; a deep copy has the same content and later changes of the copy do not
    touch the original."""
    from symex import AMapV, ASetV, DynV
    n_groups = len(groups)
    name = f'registry_step[groups={"+".join(map(str, groups))}]'
    res = Result(name)
    res.bounds = f'{sum(groups)} actors in {n_groups} group(s) of sizes {groups}; availability of every actor symbolic; every actor as argument; random source: any integer in range'
    t0 = time.time()
    F = {m: ctx.prog.find_method('Registry', m) for m in ('use_actor', 'free_actor', 'available', 'next', 'deep_copy', 'deep_slice')}
    if any(len(v) != 1 for v in F.values()):
        raise Inconclusive('Registry methods not found')
    # the filter closure of the one production caller of deep_slice (decompose search): |actor| actors.contains(actor)
    slice_filter = [f for n, f in ctx.prog.functions.items() if n.startswith('create_partial_insertion_ctx::{closure#') and
                    re.search(r'_2: &(?:\w+::)*Actor\) -> bool', f.header)]
    if len(slice_filter) != 1:
        raise Inconclusive('the deep_slice filter closure of create_partial_insertion_ctx was not found')
    slice_filter_text = re.search(r'\{closure@[^}]*\}', slice_filter[0].header).group(0)
    total = sum(groups)

    class Env(drivers.Env):
        symbolic_maps = True

        def dyn_call(self, engine, st, trait, method, args, dest_ty):
            if trait == 'Random' and method == 'uniform_int':
                lo, hi = args[1], args[2]
                self.n_rand = getattr(self, 'n_rand', 0) + 1
                v = z3.Int(f'random_{self.n_rand}')
                st.assumed.append(z3.And(v >= lo.t, v <= hi.t))
                # the value is used as a skip count: make it concrete per path
                # (any answer the requested range admits, also beyond the number of actors: infeasible ones are pruned)
                return IV(engine.choose(st, [(v == i, i) for i in range(0, total + 2)]), 'i32')
            return super().dyn_call(engine, st, trait, method, args, dest_ty)

    def build(env):
        actors, avail = [], []
        gid_of = []
        for g, size in enumerate(groups):
            for i in range(size):
                actors.append(ArcV(Cell(Opaque(f'actor{g}_{i}'))))
                avail.append(z3.Bool(f'available_{g}_{i}'))
                gid_of.append(g)
        sets = []
        for g in range(n_groups):
            idx = [i for i in range(total) if gid_of[i] == g]
            sets.append(ASetV([actors[i] for i in idx], [avail[i] for i in idx]))
        registry = env.struct('registry::Registry', available=AMapV([(IV(g), sets[g]) for g in range(n_groups)]),
                              index=AMapV([(actors[i], IV(gid_of[i])) for i in range(total)]), all=VecV(list(actors)), random=ArcV(Cell(DynV('random'))))
        return registry, actors, avail, gid_of

    def membership(env, registry):
        """availability term of every actor cell in the registry value (absent actor: false)."""
        out = {}
        for _, sv in env.field(registry, 'registry::Registry', 'available').entries:
            if isinstance(sv, ASetV):
                for k, p in zip(sv.keys, sv.present):
                    out[id(k.cell)] = p
            elif isinstance(sv, AMapV):
                for k, _ in sv.entries:
                    out[id(deref_all(k).cell)] = z3.BoolVal(True)
            else:
                raise Inconclusive(f'unexpected set value {sv!r}')
        return out

    for target in range(total):
        for op in ('use', 'free', 'use-twice', 'query', 'copy', 'slice'):
            if op in ('query', 'copy') and target != 0:
                continue
            env = Env(ctx.prog, ctx.layout, 8)
            eng = symex.Engine(ctx.prog, ctx.layout, env)
            holder = {}

            def body(st, env=env, eng=eng, holder=holder, op=op, target=target):
                env.assumptions.clear()
                env.n_rand = 0
                registry, actors, avail, gid_of = build(env)
                holder.update(actors=actors, avail=avail, gid_of=gid_of)
                cell = Cell(registry)
                a = actors[target]
                if op == 'use':
                    r = eng.exec_fn(st, F['use_actor'][0], [RefV(cell, 0, True), RefV(a.cell, 0)])
                    return ('use', r, cell.v, (actors, avail, gid_of))
                if op == 'free':
                    r = eng.exec_fn(st, F['free_actor'][0], [RefV(cell, 0, True), RefV(Cell(a), 0)])
                    return ('free', r, cell.v, (actors, avail, gid_of))
                if op == 'use-twice':
                    r1 = eng.exec_fn(st, F['use_actor'][0], [RefV(cell, 0, True), RefV(a.cell, 0)])
                    r2 = eng.exec_fn(st, F['use_actor'][0], [RefV(cell, 0, True), RefV(a.cell, 0)])
                    return ('use-twice', (r1, r2), cell.v, (actors, avail, gid_of))
                if op == 'query':
                    av = eng.exec_fn(st, F['available'][0], [RefV(cell, 0)])
                    nx = eng.exec_fn(st, F['next'][0], [RefV(cell, 0)])
                    from models import as_iter
                    return ('query', (list(as_iter(av).items), list(as_iter(nx).items)), cell.v, (actors, avail, gid_of))
                if op == 'slice':
                    keep = [z3.Bool(f'keep_{i}') for i in range(total)]
                    keep_set = ASetV(list(actors), keep)
                    flt = Agg('closure', [RefV(Cell(keep_set), 0)], slice_filter_text, fn_name=slice_filter_text)
                    sl = eng.exec_fn(st, F['deep_slice'][0], [RefV(cell, 0), flt])
                    slc = Cell(sl)
                    r = eng.exec_fn(st, F['use_actor'][0], [RefV(slc, 0, True), RefV(a.cell, 0)])
                    return ('slice', (r, slc.v, keep), cell.v, (actors, avail, gid_of))
                cp = eng.exec_fn(st, F['deep_copy'][0], [RefV(cell, 0)])
                cpc = Cell(cp)
                r = eng.exec_fn(st, F['use_actor'][0], [RefV(cpc, 0, True), RefV(a.cell, 0)])
                return ('copy', (r, cpc.v), cell.v, (actors, avail, gid_of))

            paths = eng.explore(body, max_paths=4000)
            res.paths += len(paths)
            res.functions |= eng.functions_used
            for st, out in paths:
                if out is None:
                    if not no_panic(ctx, res, env, st, what=name):
                        break
                    continue
                kind, r, reg, (actors, avail, gid_of) = out
                post = membership(env, reg)
                after = [post[id(a.cell)] for a in actors]
                others = [after[i] == avail[i] for i in range(total) if i != target]
                if kind == 'use':
                    claim = z3.And(r.t == avail[target], z3.Not(after[target]), *others)
                elif kind == 'free':
                    claim = z3.And(r.t == z3.Not(avail[target]), after[target], *others)
                elif kind == 'use-twice':
                    claim = z3.And(r[0].t == avail[target], z3.Not(r[1].t), z3.Not(after[target]), *others)
                elif kind == 'query':
                    av, nx = r
                    cells = lambda items: [deref_all(x).cell if isinstance(deref_all(x), ArcV) else None for x in items]
                    avc, nxc = cells(av), cells(nx)
                    conds = [after[i] == avail[i] for i in range(total)]
                    # available(): exactly the available actors, each once (the iteration split the path on every flag)
                    for i, a in enumerate(actors):
                        cnt = sum(1 for c in avc if c is a.cell)
                        conds.append(z3.If(avail[i], cnt == 1, cnt == 0))
                    # next(): one available actor per group that has one
                    for g in range(n_groups):
                        members = [i for i in range(total) if gid_of[i] == g]
                        picked = [c for c in nxc if any(c is actors[i].cell for i in members)]
                        conds.append(z3.If(z3.Or(*[avail[i] for i in members]), len(picked) == 1, len(picked) == 0))
                        for c in picked:
                            i = next(i for i in members if actors[i].cell is c)
                            conds.append(avail[i])
                    claim = z3.And(*conds)
                elif kind == 'slice':
                    used_in_slice, sl, keep = r
                    slm = membership(env, sl)
                    conds = [after[i] == avail[i] for i in range(total)]
                    conds.append(used_in_slice.t == z3.And(avail[target], keep[target]))
                    for i, a in enumerate(actors):
                        inside = slm.get(id(a.cell), z3.BoolVal(False))
                        conds.append(inside == (z3.And(avail[i], keep[i]) if i != target else z3.BoolVal(False)))
                    # the slice knows exactly the kept actors (all / index), in fleet order
                    all_cells = [deref_all(x).cell for x in env.field(sl, 'registry::Registry', 'all').items]
                    idx_cells = [deref_all(k).cell for k, _ in env.field(sl, 'registry::Registry', 'index').entries]
                    for i, a in enumerate(actors):
                        conds.append(z3.If(keep[i], sum(1 for c in all_cells if c is a.cell) == 1, sum(1 for c in all_cells if c is a.cell) == 0))
                        conds.append(z3.If(keep[i], sum(1 for c in idx_cells if c is a.cell) == 1, sum(1 for c in idx_cells if c is a.cell) == 0))
                    claim = z3.And(*[c if z3.is_expr(c) else z3.BoolVal(bool(c)) for c in conds])
                else:
                    used_in_copy, cp = r
                    cpm = membership(env, cp)
                    claim = z3.And(used_in_copy.t == avail[target], z3.Not(cpm[id(actors[target].cell)]), *[after[i] == avail[i] for i in range(total)])
                if not decide_claim(ctx, res, env, st, claim, what=f'{name}: {kind} on actor {target}'):
                    if res.status == 'violated' and res.model is not None:
                        m = res.model
                        ids = [f'v{gid_of[i]}_{sum(1 for j in range(i) if gid_of[j] == gid_of[i])}' for i in range(total)]
                        res.case = {'kind': 'registry', 'groups': list(groups), 'op': kind, 'target': ids[target],
                                    'in_use': [ids[i] for i in range(total) if not z3.is_true(m.eval(avail[i], model_completion=True))]}
                        if kind == 'slice':
                            res.case['keep'] = [ids[i] for i in range(total) if z3.is_true(m.eval(r[2][i], model_completion=True))]
                    break
                if not no_panic(ctx, res, env, st, what=name):
                    break
                res.witnesses += 1
            if res.status != 'holds':
                break
        if res.status != 'holds':
            break
    if res.status == 'holds' and res.witnesses == 0:
        res.status, res.detail = 'inconclusive', 'vacuous'
    res.time = time.time() - t0
    return res


def ob_registry_ctx_step(ctx, groups):
    """C14 (vehicle registry as the heuristics use it): `RegistryContext::get_route`, `use_route`, `free_route`, `next_route`,
    `deep_copy`, `deep_slice` (real MIR, on top of the real Registry) from an ARBITRARY availability state (one symbolic Bool
    per actor).  get_route(a) hands out a route exactly when a is available - a deep copy of a's empty prototype, for that
    actor - and a second request answers None (never twice); use_route / free_route answer and change availability like
    use_actor / free_actor; next_route yields the prototype of one available actor per group; a deep copy / deep slice is
    independent of the original and a slice serves exactly the kept actors."""
    from symex import AMapV, ASetV, DynV
    n_groups = len(groups)
    name = f'registry_ctx_step[groups={"+".join(map(str, groups))}]'
    res = Result(name)
    res.bounds = (f'{sum(groups)} actors in {n_groups} group(s) of sizes {groups}, each with an empty prototype route (open/closed alternating); '
                  'availability of every actor symbolic; every actor as argument; random source: any integer in range')
    t0 = time.time()
    names = ('get_route', 'use_route', 'free_route', 'next_route', 'deep_copy', 'deep_slice')
    F = {m: [f for f in ctx.prog.find_method('RegistryContext', m)] for m in names}
    if any(len(v) != 1 for v in F.values()):
        raise Inconclusive('RegistryContext methods not found: ' + ', '.join(m for m in names if len(F[m]) != 1))
    slice_filter = [f for n, f in ctx.prog.functions.items() if n.startswith('create_partial_insertion_ctx::{closure#') and
                    re.search(r'_2: &(?:\w+::)*Actor\) -> bool', f.header)]
    if len(slice_filter) != 1:
        raise Inconclusive('the deep_slice filter closure of create_partial_insertion_ctx was not found')
    slice_filter_text = re.search(r'\{closure@[^}]*\}', slice_filter[0].header).group(0)
    total = sum(groups)

    class Env(drivers.Env):
        symbolic_maps = True

        def dyn_call(self, engine, st, trait, method, args, dest_ty):
            if trait == 'Random' and method == 'uniform_int':
                lo, hi = args[1], args[2]
                self.n_rand = getattr(self, 'n_rand', 0) + 1
                v = z3.Int(f'random_{self.n_rand}')
                st.assumed.append(z3.And(v >= lo.t, v <= hi.t))
                return IV(engine.choose(st, [(v == i, i) for i in range(0, total + 2)]), 'i32')
            return super().dyn_call(engine, st, trait, method, args, dest_ty)

    def build(env):
        actors, avail, gid_of, protos = [], [], [], []
        for g, size in enumerate(groups):
            for i in range(size):
                rc = TourSpec(env, 0, closed=(len(actors) % 2 == 0), prefix=f'p{g}_{i}_').build()
                route = env.field(rc, 'context::RouteContext', 'route')
                actor = env.field(route, 'route::Route', 'actor')
                if not isinstance(actor, ArcV):
                    raise Inconclusive('actor of the prototype route is not an Arc value')
                actors.append(actor)
                protos.append(ArcV(Cell(rc)))
                avail.append(z3.Bool(f'available_{g}_{i}'))
                gid_of.append(g)
        sets = []
        for g in range(n_groups):
            idx = [i for i in range(total) if gid_of[i] == g]
            sets.append(ASetV([actors[i] for i in idx], [avail[i] for i in idx]))
        registry = env.struct('registry::Registry', available=AMapV([(IV(g), sets[g]) for g in range(n_groups)]),
                              index=AMapV([(actors[i], IV(gid_of[i])) for i in range(total)]), all=VecV(list(actors)), random=ArcV(Cell(DynV('random'))))
        rctx = env.struct('context::RegistryContext', registry=registry, index=AMapV([(actors[i], protos[i]) for i in range(total)]))
        return rctx, actors, avail, gid_of, protos

    def membership(env, rctx):
        out = {}
        registry = env.field(rctx, 'context::RegistryContext', 'registry')
        for _, sv in env.field(registry, 'registry::Registry', 'available').entries:
            if isinstance(sv, ASetV):
                for k, p in zip(sv.keys, sv.present):
                    out[id(k.cell)] = p
            elif isinstance(sv, AMapV):
                for k, _ in sv.entries:
                    out[id(deref_all(k).cell)] = z3.BoolVal(True)
            else:
                raise Inconclusive(f'unexpected set value {sv!r}')
        return out

    def actor_cell_of(env, rc):
        route = env.field(deref_all(rc), 'context::RouteContext', 'route')
        a = env.field(route, 'route::Route', 'actor')
        return deref_all(a).cell if isinstance(deref_all(a), ArcV) else None

    for target in range(total):
        for op in ('get_route', 'get-twice', 'use_route', 'free_route', 'next_route', 'copy', 'slice'):
            if op in ('next_route', 'copy') and target != 0:
                continue
            env = Env(ctx.prog, ctx.layout, 8)
            eng = symex.Engine(ctx.prog, ctx.layout, env)

            def body(st, env=env, eng=eng, op=op, target=target):
                env.assumptions.clear()
                env.n_rand = 0
                rctx, actors, avail, gid_of, protos = build(env)
                cell = Cell(rctx)
                a = actors[target]
                extra = (actors, avail, gid_of, protos)
                if op == 'get_route':
                    r = eng.exec_fn(st, F['get_route'][0], [RefV(cell, 0, True), RefV(Cell(a), 0)])
                    return (op, r, cell.v, extra)
                if op == 'get-twice':
                    r1 = eng.exec_fn(st, F['get_route'][0], [RefV(cell, 0, True), RefV(Cell(a), 0)])
                    r2 = eng.exec_fn(st, F['get_route'][0], [RefV(cell, 0, True), RefV(Cell(a), 0)])
                    return (op, (r1, r2), cell.v, extra)
                if op == 'use_route':
                    r = eng.exec_fn(st, F['use_route'][0], [RefV(cell, 0, True), RefV(protos[target].cell, 0)])
                    return (op, r, cell.v, extra)
                if op == 'free_route':
                    # the route handed back is an own copy of the prototype (as get_route produced it earlier)
                    dc = ctx.prog.find_method('RouteContext', 'deep_copy')[0]
                    own = eng.exec_fn(st, dc, [RefV(protos[target].cell, 0)])
                    r = eng.exec_fn(st, F['free_route'][0], [RefV(cell, 0, True), own])
                    return (op, r, cell.v, extra)
                if op == 'next_route':
                    from models import as_iter
                    nx = eng.exec_fn(st, F['next_route'][0], [RefV(cell, 0)])
                    return (op, list(as_iter(nx).items), cell.v, extra)
                if op == 'slice':
                    keep = [z3.Bool(f'keep_{i}') for i in range(total)]
                    keep_set = ASetV(list(actors), keep)
                    flt = Agg('closure', [RefV(Cell(keep_set), 0)], slice_filter_text, fn_name=slice_filter_text)
                    sl = eng.exec_fn(st, F['deep_slice'][0], [RefV(cell, 0), flt])
                    slc = Cell(sl)
                    r = eng.exec_fn(st, F['get_route'][0], [RefV(slc, 0, True), RefV(Cell(a), 0)])
                    return (op, (r, slc.v, keep), cell.v, extra)
                cp = eng.exec_fn(st, F['deep_copy'][0], [RefV(cell, 0)])
                cpc = Cell(cp)
                r = eng.exec_fn(st, F['get_route'][0], [RefV(cpc, 0, True), RefV(Cell(a), 0)])
                return (op, (r, cpc.v), cell.v, extra)

            paths = eng.explore(body, max_paths=6000)
            res.paths += len(paths)
            res.functions |= eng.functions_used
            for st, out in paths:
                if out is None:
                    if not no_panic(ctx, res, env, st, what=name):
                        break
                    continue
                kind, r, reg, (actors, avail, gid_of, protos) = out
                post = membership(env, reg)
                after = [post[id(a.cell)] for a in actors]
                others = [after[i] == avail[i] for i in range(total) if i != target]
                same = [after[i] == avail[i] for i in range(total)]
                # the prototypes stay in the index of the original, untouched
                idx_now = env.field(reg, 'context::RegistryContext', 'index').entries
                structural = len(idx_now) == total and all(deref_all(v).cell is protos[i].cell for i, (_, v) in enumerate(idx_now))

                def handed_out(opt, i):
                    """conditions for `opt` = Some(route for actor i, an own deep copy of the prototype)."""
                    rc = opt.payload[1][0]
                    ok = actor_cell_of(env, rc) is actors[i].cell
                    proto_acts = env.tour_activities(protos[i].cell.v)
                    own_acts = env.tour_activities(deref_all(rc))
                    ok = ok and len(proto_acts) == len(own_acts) and not any(x is y for x, y in zip(proto_acts, own_acts))
                    return ok

                conds = []
                if kind == 'get_route':
                    conds = [(r.discr == 1) == avail[target], z3.Not(after[target])] + others
                    if 1 in r.payload:
                        conds.append(z3.Implies(r.discr == 1, z3.BoolVal(handed_out(r, target))))
                elif kind == 'get-twice':
                    conds = [(r[0].discr == 1) == avail[target], r[1].discr == 0, z3.Not(after[target])] + others
                elif kind == 'use_route':
                    conds = [r.t == avail[target], z3.Not(after[target])] + others
                elif kind == 'free_route':
                    conds = [r.t == z3.Not(avail[target]), after[target]] + others
                elif kind == 'next_route':
                    cells = [actor_cell_of(env, x) for x in r]
                    conds = list(same)
                    for g in range(n_groups):
                        members = [i for i in range(total) if gid_of[i] == g]
                        picked = [c for c in cells if any(c is actors[i].cell for i in members)]
                        conds.append(z3.If(z3.Or(*[avail[i] for i in members]), z3.BoolVal(len(picked) == 1), z3.BoolVal(len(picked) == 0)))
                        for c in picked:
                            conds.append(avail[next(i for i in members if actors[i].cell is c)])
                    # the yielded routes are the prototypes themselves
                    conds.append(z3.BoolVal(all(any(deref_all(x) is p.cell.v for p in protos) for x in r)))
                elif kind == 'slice':
                    got, sl, keep = r
                    slm = membership(env, sl)
                    conds = list(same)
                    conds.append((got.discr == 1) == z3.And(avail[target], keep[target]))
                    if 1 in got.payload:
                        conds.append(z3.Implies(got.discr == 1, z3.BoolVal(handed_out(got, target))))
                    for i, a in enumerate(actors):
                        inside = slm.get(id(a.cell), z3.BoolVal(False))
                        conds.append(inside == (z3.And(avail[i], keep[i]) if i != target else z3.BoolVal(False)))
                    idx_cells = [deref_all(k).cell for k, _ in env.field(sl, 'context::RegistryContext', 'index').entries]
                    for i, a in enumerate(actors):
                        n = sum(1 for c in idx_cells if c is a.cell)
                        conds.append(z3.If(keep[i], z3.BoolVal(n == 1), z3.BoolVal(n == 0)))
                else:
                    got, cp = r
                    cpm = membership(env, cp)
                    conds = [(got.discr == 1) == avail[target], z3.Not(cpm[id(actors[target].cell)])] + same
                    conds += [cpm[id(actors[i].cell)] == avail[i] for i in range(total) if i != target]
                claim = z3.And(z3.BoolVal(structural), *conds)
                if not decide_claim(ctx, res, env, st, claim, what=f'{name}: {kind} on actor {target}'):
                    if res.status == 'violated' and res.model is not None:
                        m = res.model
                        ids = [f'v{gid_of[i]}_{sum(1 for j in range(i) if gid_of[j] == gid_of[i])}' for i in range(total)]
                        res.case = {'kind': 'registry', 'level': 'context', 'groups': list(groups), 'op': kind, 'target': ids[target],
                                    'in_use': [ids[i] for i in range(total) if not z3.is_true(m.eval(avail[i], model_completion=True))]}
                        if kind == 'slice':
                            res.case['keep'] = [ids[i] for i in range(total) if z3.is_true(m.eval(r[2][i], model_completion=True))]
                    break
                if not no_panic(ctx, res, env, st, what=name):
                    break
                res.witnesses += 1
            if res.status != 'holds':
                break
        if res.status != 'holds':
            break
    if res.status == 'holds' and res.witnesses == 0:
        res.status, res.detail = 'inconclusive', 'vacuous'
    res.time = time.time() - t0
    return res


# ---------------------------------------------------------------------------------------------------------------------
# C14 (tour half): one operation on a tour from an arbitrary well-formed state

def seq_items(s):
    return s.items if isinstance(s, VecV) else s.fields


TOUR_SINGLES = ('sA', 'sB1', 'sB2', 'sC', 'sD')
TOUR_JOB_OF = {'sA': 'A', 'sB1': 'M', 'sB2': 'M', 'sC': 'C', 'sD': 'D'}


def tour_reference(labels, closed, op, arg):
    """Pure reference of one Tour operation on the label sequence [start, singles.., (end)] -> (labels', result)."""
    labels = list(labels)
    if op == 'insert_at':
        single, idx = arg
        return labels[:idx] + [single] + labels[idx:], None
    if op == 'insert_last':
        n_jobs = len(labels) - (2 if closed else 1)
        return labels[:n_jobs + 1] + [arg] + labels[n_jobs + 1:], None
    if op == 'remove':
        keep = [x for x in labels if TOUR_JOB_OF.get(x) != arg]
        return keep, len(keep) != len(labels)
    if op == 'remove_activity_at':
        job = TOUR_JOB_OF[labels[arg]]
        return [x for x in labels if TOUR_JOB_OF.get(x) != job], job
    raise ValueError(op)


def tour_observations(labels, closed):
    """What the accessors of a well-formed tour must answer for the label sequence."""
    jobs = []
    for x in labels:
        j = TOUR_JOB_OF.get(x)
        if j and j not in jobs:
            jobs.append(j)
    n = len(labels)
    legs = [[labels[i:i + 2], i] for i in range(n - 1)] if n != 1 else [[labels[0:1], 0]]
    if not closed and n > 1:
        legs.append([labels[n - 1:], n - 1])
    per_job = {}
    for j in ('A', 'M', 'C', 'D'):
        pos = [i for i, x in enumerate(labels) if TOUR_JOB_OF.get(x) == j]
        per_job[j] = {'contains': j in jobs, 'index': pos[0] if pos else None, 'index_last': pos[-1] if pos else None, 'activities': len(pos)}
    return {'labels': labels, 'total': n, 'job_activity_count': n - (2 if closed else 1), 'job_count': len(jobs), 'has_jobs': bool(jobs),
            'jobs': sorted(jobs), 'legs': legs, 'per_job': per_job, 'end_idx': n - 1}


def ob_tour_step(ctx, n_acts, closed):
    """C14 (tour): ONE operation of `Tour` (real MIR: insert_at, insert_last, remove, remove_activity_at, deep_copy, and every
    accessor: legs, jobs, index, index_last, contains, has_job, has_jobs, job_count, job_activity_count, total, start, end,
    end_idx, get, job_activities) from an ARBITRARY well-formed tour of `n_acts` job activities: which task each activity
    serves is a symbolic choice among the tasks of a single job A, a two-task multi job M and a single job C (each task at
    most once), the insertion index / removal index / removed job / inserted task are symbolic.  After the operation the tour
    is again well formed - depot ends in place, job set = jobs of the activities, counts, leg enumeration incl. the extra leg
    of an open tour - and it is exactly the reference result; a deep copy shares no activity with the original and changing it
    leaves the original as it was.  The post-state is a member of the same family with n_acts +- {0,1,2}, which is what makes
    the step an inductive one."""
    from symex import AMapV
    name = f'tour_step[k={n_acts},{"closed" if closed else "open"}]'
    res = Result(name)
    res.bounds = (f'{n_acts} job activities, tasks drawn from A (single), M (multi, 2 tasks), C (single), each at most once; new task / absent job D; '
                  'insertion index in 1..=job activities+1 (the documented use), removal index over the job activities; all symbolic')
    t0 = time.time()
    M = {m: ctx.prog.find_method('Tour', m) for m in (
        'insert_at', 'insert_last', 'remove', 'remove_activity_at', 'deep_copy', 'legs', 'jobs', 'index', 'index_last', 'contains', 'has_job',
        'has_jobs', 'job_count', 'job_activity_count', 'total', 'start', 'end', 'end_idx', 'get', 'job_activities')}
    # another `Tour` lives in algorithms/lkh
    M = {m: [f for f in v if 'models/solution/tour.rs' in str(f.impl_loc)] for m, v in M.items()}
    bad = [m for m, v in M.items() if len(v) != 1]
    # `index` is also the name of the Index impl
    if 'index' in bad:
        M['index'] = [f for f in M['index'] if (ctx.prog.impl_header(f) or (None,))[0] is None]
        bad = [m for m, v in M.items() if len(v) != 1]
    if bad:
        raise Inconclusive('Tour methods not found: ' + ', '.join(bad))

    class Env(drivers.Env):
        symbolic_maps = True

        def override(self, engine, st, callee, args, dest_ty):
            if callee.endswith('Multi::roots'):
                s = deref_all(args[0])
                cell = _identity_cell_of(args[0])
                if cell is self.single_cells['sB1'] or cell is self.single_cells['sB2']:
                    return mk_option(True, self.multi_arc, ty=dest_ty)
                return mk_option(False, ty=dest_ty)
            if callee.endswith('Activity::retrieve_job'):
                return NotImplemented          # the real body runs (its Multi::roots look-up is the environment answer above)
            return super().override(engine, st, callee, args, dest_ty)

    def _identity_cell_of(v):
        while isinstance(v, RefV):
            tgt = v.load()
            if isinstance(tgt, ArcV):
                return tgt.cell
            if not isinstance(tgt, RefV):
                # a reference to the payload of an Arc: the cell that holds it
                return v.container if isinstance(v.container, Cell) else None
            v = tgt
        return v.cell if isinstance(v, ArcV) else None

    ops = ('insert_at', 'insert_last', 'remove', 'remove_activity_at', 'copy')
    for op in ops:
        if op == 'remove_activity_at' and n_acts == 0:
            continue
        env = Env(ctx.prog, ctx.layout, 8)
        eng = symex.Engine(ctx.prog, ctx.layout, env)

        def job_value(env, j):
            if j == 'M':
                return EnumV('jobs::Job', 1, {1: [env.multi_arc]})
            s = {'A': 'sA', 'C': 'sC', 'D': 'sD'}[j]
            return EnumV('jobs::Job', 0, {0: [env.single_arcs[s]]})

        def body(st, env=env, eng=eng, op=op):
            env.assumptions.clear()
            env.single_arcs = {s: ArcV(Cell(Opaque(s))) for s in TOUR_SINGLES}
            env.single_cells = {s: a.cell for s, a in env.single_arcs.items()}
            env.multi_arc = ArcV(Cell(Opaque('multi_M')))
            # pre-state: which task each job activity serves (distinct)
            chosen = []
            for i in range(n_acts):
                v = z3.Int(f'task_of_activity_{i + 1}')
                opts = [(v == k, TOUR_SINGLES[k]) for k in range(4) if TOUR_SINGLES[k] not in chosen]
                chosen.append(eng.choose(st, opts))
            labels = ['start'] + chosen + (['end'] if closed else [])
            z = FV.const(0)
            acts = []
            for lab in labels:
                acts.append(env.activity(IV(0), z, z, FV.max_value(), z, z, has_job=lab in TOUR_SINGLES, job=env.single_arcs.get(lab)))
            pre_objs = list(acts)
            jobs_pre = []
            for lab in chosen:
                j = TOUR_JOB_OF[lab]
                if j not in jobs_pre:
                    jobs_pre.append(j)
            tour = env.struct('solution::tour::Tour', activities=VecV(acts), jobs=AMapV([(job_value(env, j), UnitV()) for j in jobs_pre], True), is_closed=BV(closed))
            cell = Cell(tour)
            free = [s for s in TOUR_SINGLES if s not in chosen]
            arg = None
            result = None
            subject = cell          # the tour that is observed afterwards
            if op in ('insert_at', 'insert_last', 'copy'):
                v = z3.Int('new_task')
                new = eng.choose(st, [(v == TOUR_SINGLES.index(s), s) for s in free])
                new_act = env.activity(IV(0), z, z, FV.max_value(), z, z, has_job=True, job=env.single_arcs[new])
            if op == 'copy':
                cp = eng.exec_fn(st, M['deep_copy'][0], [RefV(cell, 0)])
                subject = Cell(cp)
                copy_objs = list(env.field(cp, 'solution::tour::Tour', 'activities').items)
            if op in ('insert_at', 'copy'):
                idx = z3.Int('insert_index')
                st.assumed.append(z3.And(idx >= 1, idx <= n_acts + 1))
                eng.exec_fn(st, M['insert_at'][0], [RefV(subject, 0, True), new_act, IV(idx)])
                # the index is concrete on this path now (Vec::insert split on it)
                def _lab(a):
                    jb = env.field(deref_all(a), 'route::Activity', 'job')
                    return jb.payload[1][0].cell if jb.variant() == 1 else None
                where = [i for i, a in enumerate(env.field(subject.v, 'solution::tour::Tour', 'activities').items) if _lab(a) is env.single_cells[new]]
                arg = (new, where[0] if where else -1)
                exp_labels, _ = tour_reference(labels, closed, 'insert_at', arg) if where else (None, None)
                ref_op = 'insert_at'
            elif op == 'insert_last':
                eng.exec_fn(st, M['insert_last'][0], [RefV(subject, 0, True), new_act])
                arg = new
                exp_labels, _ = tour_reference(labels, closed, 'insert_last', new)
                ref_op = op
            elif op == 'remove':
                v = z3.Int('removed_job')
                j = eng.choose(st, [(v == i, x) for i, x in enumerate(('A', 'M', 'C', 'D'))])
                r = eng.exec_fn(st, M['remove'][0], [RefV(subject, 0, True), RefV(Cell(job_value(env, j)), 0)])
                arg = j
                exp_labels, exp_r = tour_reference(labels, closed, 'remove', j)
                result = ('bool', r, exp_r)
                ref_op = op
            elif op == 'remove_activity_at':
                idx = z3.Int('remove_index')
                i = eng.choose(st, [(idx == i, i) for i in range(1, n_acts + 1)])
                r = eng.exec_fn(st, M['remove_activity_at'][0], [RefV(subject, 0, True), IV(i)])
                arg = i
                exp_labels, exp_job = tour_reference(labels, closed, 'remove_activity_at', i)
                result = ('job', r, exp_job)
                ref_op = op
            if op == 'copy':
                # a second change on the copy
                v = z3.Int('removed_job')
                j = eng.choose(st, [(v == i, x) for i, x in enumerate(('A', 'M', 'C'))])
                eng.exec_fn(st, M['remove'][0], [RefV(subject, 0, True), RefV(Cell(job_value(env, j)), 0)])
                exp_labels, _ = tour_reference(exp_labels, closed, 'remove', j) if exp_labels is not None else (None, None)
                arg = (arg, j)

            # ---- observe the resulting tour through the real accessors
            def label_of(a):
                a = deref_all(a)
                job = env.field(a, 'route::Activity', 'job')
                if job.variant() != 1:
                    return None
                c = job.payload[1][0].cell
                return next(s for s, cc in env.single_cells.items() if cc is c)

            def job_label(jv):
                jv = deref_all(jv)
                c = jv.payload[jv.variant()][0].cell
                if c is env.multi_arc.cell:
                    return 'M'
                return TOUR_JOB_OF[next(s for s, cc in env.single_cells.items() if cc is c)]

            from models import as_iter
            tv = subject.v
            now = env.field(tv, 'solution::tour::Tour', 'activities').items
            obs = {}
            seq = []
            for pos, a in enumerate(now):
                lab = label_of(a)
                if lab is None:
                    lab = 'start' if a is (copy_objs[0] if op == 'copy' else pre_objs[0]) else ('end' if closed and a is (copy_objs[-1] if op == 'copy' else pre_objs[-1]) else '?')
                seq.append(lab)
            obs['labels'] = seq
            call = lambda m, *a: eng.exec_fn(st, M[m][0], [RefV(subject, 0)] + list(a))
            conc = lambda v: v.concrete() if isinstance(v, IV) else (True if z3.is_true(zs(v.t)) else False if z3.is_false(zs(v.t)) else None)
            obs['total'] = conc(call('total'))
            obs['job_activity_count'] = conc(call('job_activity_count'))
            obs['job_count'] = conc(call('job_count'))
            obs['has_jobs'] = conc(call('has_jobs'))
            obs['jobs'] = sorted(job_label(x) for x in as_iter(call('jobs')).items)
            e = call('end_idx')
            obs['end_idx'] = conc(e.payload[1][0]) if e.variant() == 1 else None
            s0, s1 = call('start'), call('end')
            obs['start_is_first'] = s0.variant() == 1 and deref_all(s0.payload[1][0]) is now[0]
            obs['end_is_last'] = s1.variant() == 1 and deref_all(s1.payload[1][0]) is now[-1]
            legs = []
            for leg in as_iter(call('legs')).items:
                sl, i = leg.fields
                items = seq_items(deref_all(sl))
                legs.append([[seq[now.index(deref_all(x))] if any(deref_all(x) is y for y in now) else '?' for x in items], conc(i)])
            obs['legs'] = legs
            obs['per_job'] = {}
            for j in ('A', 'M', 'C', 'D'):
                jr = lambda: RefV(Cell(job_value(env, j)), 0)
                ix, ixl = call('index', jr()), call('index_last', jr())
                obs['per_job'][j] = {
                    'contains': conc(call('contains', jr())) and conc(call('has_job', jr())),
                    'index': conc(ix.payload[1][0]) if ix.variant() == 1 else None,
                    'index_last': conc(ixl.payload[1][0]) if ixl.variant() == 1 else None,
                    'activities': len(as_iter(call('job_activities', jr())).items)}
                if conc(call('contains', jr())) != conc(call('has_job', jr())):
                    obs['per_job'][j]['contains'] = 'contains/has_job disagree'
            extra = {}
            if result is not None and result[0] == 'bool':
                extra['result'] = (conc(result[1]), result[2])
            if result is not None and result[0] == 'job':
                extra['result'] = (job_label(result[1]), result[2])
            if op == 'copy':
                orig_now = env.field(cell.v, 'solution::tour::Tour', 'activities').items
                extra['original_untouched'] = len(orig_now) == len(pre_objs) and all(x is y for x, y in zip(orig_now, pre_objs))
                extra['no_sharing'] = not any(x is y for x in copy_objs for y in pre_objs) and len(copy_objs) == len(pre_objs)
                oj = sorted(job_label(x) for x in as_iter(eng.exec_fn(st, M['jobs'][0], [RefV(cell, 0)])).items)
                extra['original_jobs'] = (oj, sorted(set(jobs_pre)))
            return (op, labels, arg, exp_labels, obs, extra)

        paths = eng.explore(body, max_paths=20000)
        res.paths += len(paths)
        res.functions |= eng.functions_used
        for st, out in paths:
            if out is None:
                if not no_panic(ctx, res, env, st, what=name):
                    break
                continue
            kind, labels, arg, exp_labels, obs, extra = out
            problems = []
            if exp_labels is None:
                problems.append('the inserted activity is not in the tour')
            else:
                want = tour_observations(exp_labels, closed)
                for key in ('labels', 'total', 'job_activity_count', 'job_count', 'has_jobs', 'jobs', 'legs', 'end_idx', 'per_job'):
                    if obs[key] != want[key]:
                        problems.append(f'{key}: {obs[key]} expected {want[key]}')
                if not obs['start_is_first'] or not obs['end_is_last']:
                    problems.append('start()/end() are not the first/last activity')
            if 'result' in extra and extra['result'][0] != extra['result'][1]:
                problems.append(f'returned {extra["result"][0]}, expected {extra["result"][1]}')
            if kind == 'copy':
                if not extra['original_untouched']:
                    problems.append('the original tour changed when its deep copy was modified')
                if not extra['no_sharing']:
                    problems.append('the deep copy shares activities with the original')
                if extra['original_jobs'][0] != extra['original_jobs'][1]:
                    problems.append(f'job set of the original after modifying the copy: {extra["original_jobs"][0]}')
            claim = z3.BoolVal(not problems)
            if not decide_claim(ctx, res, env, st, claim, what=f'{name}: {kind} {arg} on {labels}: ' + '; '.join(problems)[:300]):
                if res.status == 'violated':
                    res.case = {'kind': 'tour', 'closed': closed, 'pre': labels, 'op': kind, 'arg': arg, 'problems': problems[:5]}
                break
            if not no_panic(ctx, res, env, st, what=name):
                break
            res.witnesses += 1
        if res.status != 'holds':
            break
    if res.status == 'holds' and res.witnesses == 0:
        res.status, res.detail = 'inconclusive', 'vacuous'
    res.time = time.time() - t0
    return res


# ---------------------------------------------------------------------------------------------------------------------
# C05 / C01 (group feature): the per-route group tags after the solution-level refresh, and the rule evaluated on them

def ob_group_state(ctx, jobs_per_route, refresh='solution'):
    """C05 (group tags) + C01 (group rule): `GroupState::accept_solution_state` (real MIR) on a solution whose routes carry
    jobs with a symbolic group each (none / g1 / g2), ARBITRARY previous tags (absent, empty or an outdated set) and an
    arbitrary stale flag per route: afterwards every route's tag set equals the groups of the jobs in its tour - whatever
    the flag and the previous tag were (history independence).  `GroupConstraint::evaluate` (real MIR) for a job of a
    symbolic group on route 0 then rejects exactly when another route serves a job of that group."""
    from symex import AMapV
    name = f'group_state[jobs per route={"+".join(map(str, jobs_per_route))}{",after insertion" if refresh == "insertion" else ""}]'
    res = Result(name)
    res.bounds = (f'{len(jobs_per_route)} routes with {jobs_per_route} single jobs; group of every job and of the evaluated job symbolic in {{none, g1, g2}}; previous tag of a route: '
                  'absent / empty / {g-old} / {g1}; stale flag symbolic; complete problem (total job count matches)')
    t0 = time.time()
    # refresh = 'solution': the solution-level refresh of all routes; 'insertion': `accept_insertion` for the last job of route 0 (it is
    # already in the tour, as after apply_insertion_success) while the other routes carry correct tags - the tag of route 0 must again
    # be the groups of ALL its jobs, whatever it held before; the actors are the shifts of ONE vehicle or different vehicles (symbolic)
    st_fns = ctx.prog.find_method('GroupState', 'accept_solution_state' if refresh == 'solution' else 'accept_insertion')
    ev_fns = ctx.prog.find_method('GroupConstraint', 'evaluate')
    if len(st_fns) != 1 or len(ev_fns) != 1:
        raise Inconclusive('GroupState::accept_solution_state / GroupConstraint::evaluate not found')
    GROUPS = (None, 'g1', 'g2')

    class Env(drivers.Env):
        symbolic_maps = True

        def override(self, engine, st, callee, args, dest_ty):
            if callee.endswith('Activity::retrieve_job'):
                return NotImplemented
            if callee.endswith('Multi::roots'):
                return mk_option(False, ty=dest_ty)
            return super().override(engine, st, callee, args, dest_ty)

    env = Env(ctx.prog, ctx.layout, 8)
    eng = symex.Engine(ctx.prog, ctx.layout, env)
    total_jobs = sum(jobs_per_route) + 1

    def body(st):
        env.assumptions.clear()
        z = FV.const(0)

        def single(name_, group):
            dim = {'job_id': Opaque(f'"{name_}"')}
            if group is not None:
                dim['job_group'] = Opaque(f'"{group}"')
            return ArcV(Cell(env.struct('jobs::Single', places=VecV([]), dimens=StateV(dim))))
        routes, truth, flags = [], [], []
        prevs = []
        last_job_of_route0, last_group_of_route0 = [], []
        for r, n in enumerate(jobs_per_route):
            acts = [env.activity(IV(0), z, z, FV.max_value(), z, z, has_job=False)]
            jobs, groups = [], []
            for j in range(n):
                g = z3.Int(f'group_r{r}_j{j}')
                # in the insertion variant the job that was just inserted (last job of route 0) has a group (otherwise nothing is refreshed)
                grp = eng.choose(st, [(g == i, x) for i, x in enumerate(GROUPS) if not (refresh == 'insertion' and r == 0 and j == n - 1 and x is None)])
                s_ = single(f'job_r{r}_{j}', grp)
                acts.append(env.activity(IV(0), z, z, FV.max_value(), z, z, job=s_))
                jobs.append(EnumV('jobs::Job', 0, {0: [s_]}))
                if r == 0:
                    last_job_of_route0[:] = [jobs[-1]]
                    last_group_of_route0[:] = [grp]
                if grp is not None and grp not in groups:
                    groups.append(grp)
            acts.append(env.activity(IV(0), z, z, FV.max_value(), z, z, has_job=False))
            if r == 0:
                sv = z3.Bool('all_routes_are_shifts_of_one_vehicle')
                env.same_vehicle = eng.split_bool(st, sv)
            actor = env.actor(IV(0), z, IV(0), FV.const(1000), dimens=StateV({'vehicle_id': Opaque('"v"' if env.same_vehicle else f'"v{r}"')}))
            tour = env.struct('solution::tour::Tour', activities=VecV(acts), jobs=AMapV([(jv, UnitV()) for jv in jobs], True), is_closed=BV(True))
            route = env.struct('route::Route', actor=actor, tour=tour)
            p = z3.Int(f'previous_tag_r{r}')
            if refresh == 'insertion' and r > 0:
                prev = 'correct'           # the other routes were refreshed before
                state = StateV({'current_groups': AMapV([(Opaque(f'"{g_}"'), UnitV()) for g_ in groups], True)})
            else:
                prev = eng.choose(st, [(p == 0, 'absent'), (p == 1, 'empty'), (p == 2, 'old'), (p == 3, 'g1')])
                state = StateV({} if prev == 'absent' else {'current_groups': AMapV([] if prev == 'empty' else [(Opaque('"g-old"' if prev == 'old' else '"g1"'), UnitV())], True)})
            prevs.append(prev)
            stale = z3.Bool(f'stale_r{r}')
            cache = env.struct('context::RouteCache', is_stale=BV(stale))
            routes.append(env.struct('context::RouteContext', route=route, state=state, cache=cache))
            truth.append(groups)
            flags.append(stale)
        sol = env.struct('context::SolutionContext', required=VecV([]), ignored=VecV([]), unassigned=AMapV(), locked=AMapV(is_set=True), routes=VecV(routes),
                         registry=Opaque('registry'), state=StateV())
        cell = Cell(sol)
        feature_state = Agg('struct', [], 'groups::GroupState')
        if refresh == 'solution':
            eng.exec_fn(st, st_fns[0], [RefV(Cell(feature_state), 0), RefV(cell, 0, True)])
        else:
            if not jobs_per_route[0]:
                raise Inconclusive('the insertion variant needs a job in route 0')
            eng.exec_fn(st, st_fns[0], [RefV(Cell(feature_state), 0), RefV(cell, 0, True), IV(0), RefV(Cell(last_job_of_route0[0]), 0)])
        # the job under evaluation (it is the one job of the plan that is not in a tour: required)
        g = z3.Int('group_of_evaluated_job')
        grp = eng.choose(st, [(g == i, x) for i, x in enumerate(GROUPS)])
        job = EnumV('jobs::Job', 0, {0: [single('evaluated', grp)]})
        env.field(cell.v, 'context::SolutionContext', 'required').items.append(job)
        now = env.field(cell.v, 'context::SolutionContext', 'routes').items
        target_route = 0 if refresh == 'solution' else len(now) - 1
        move = EnumV('context::MoveContext', 0, {0: [RefV(cell, 0), RefV(Cell(now[target_route]), 0), RefV(Cell(job), 0)]})
        constraint = env.struct('groups::GroupConstraint', total_jobs=IV(total_jobs), code=Agg('struct', [IV(7, 'i32')], 'ViolationCode'))
        verdict = eng.exec_fn(st, ev_fns[0], [RefV(Cell(constraint), 0), RefV(Cell(move), 0)])
        truth.append(prevs)          # carried along for the ordering below (removed again before use)
        env.last_inserted_has_group = bool(last_group_of_route0 and last_group_of_route0[0] is not None)
        return (truth, grp, now, verdict)

    paths = eng.explore(body, max_paths=40000)
    res.paths = len(paths)
    res.functions |= eng.functions_used
    saw_ok = saw_rej = False

    others = (lambda truth: truth[1:]) if refresh == 'solution' else (lambda truth: truth[:-1])

    def observable_first(item):
        # paths whose VERDICT is wrong first: they are the ones a native run can show (the tags themselves are crate-private)
        _, out = item
        if out is None:
            return 1
        truth, grp, _, verdict = out
        prevs_, truth = truth[-1], truth[:-1]
        rej = verdict.variant()
        must = grp is not None and any(grp in t for t in others(truth))
        wrong = rej is not None and bool(rej) != must
        # a previous tag other than 'absent' cannot be produced through the public API
        return 0 if (wrong and all(p in ('absent', 'correct') for p in prevs_)) else 1 if wrong else 2
    paths = sorted(paths, key=observable_first)
    for _, out_ in paths:
        if out_ is not None and isinstance(out_[0][-1], list) and out_[0] and all(isinstance(x, str) for x in out_[0][-1]) and len(out_[0]) == len(jobs_per_route) + 1:
            out_[0].pop()
    for st, out in paths:
        if out is None:
            if not no_panic(ctx, res, env, st, what=name):
                break
            continue
        truth, grp, now, verdict = out
        problems = []
        for r, rc in enumerate(now):
            tag = env.field(rc, 'context::RouteContext', 'state').table.get('current_groups')
            got = sorted(deref_all(k).name.strip('"') for k, _ in tag.entries) if tag is not None else None
            if got != sorted(truth[r]):
                problems.append(f'route {r}: cached groups {got}, groups of the jobs in the tour {sorted(truth[r])}')
        must_reject = grp is not None and any(grp in t for t in others(truth))
        rejected = verdict.variant()
        if rejected is None:
            res.status, res.detail = 'inconclusive', 'symbolic verdict'
            break
        if bool(rejected) != must_reject:
            problems.append(f'a job of group {grp} offered to route {0 if refresh == "solution" else len(truth) - 1} is {"rejected" if rejected else "accepted"} while the other routes serve groups {others(truth)}')
        if not decide_claim(ctx, res, env, st, z3.BoolVal(not problems), what=f'{name}: ' + '; '.join(problems)[:400]):
            if res.status == 'violated' and res.model is not None:
                m = res.model
                GR = (None, 'g1', 'g2')
                evi = lambda nme: m.eval(z3.Int(nme), model_completion=True).as_long()
                res.case = {'kind': 'group_state', 'group': grp, 'refresh': refresh,
                            'same_vehicle': bool(z3.is_true(m.eval(z3.Bool('all_routes_are_shifts_of_one_vehicle'), model_completion=True))),
                            'routes': [{'groups': [GR[evi(f'group_r{r}_j{j}')] for j in range(n)],
                                        'stale': bool(z3.is_true(m.eval(z3.Bool(f'stale_r{r}'), model_completion=True))),
                                        'previous_tag': ('absent', 'empty', 'old', 'g1')[evi(f'previous_tag_r{r}')]} for r, n in enumerate(jobs_per_route)]}
            break
        if not no_panic(ctx, res, env, st, what=name):
            break
        saw_ok = saw_ok or not must_reject
        saw_rej = saw_rej or must_reject
    if res.status == 'holds':
        res.witnesses = int(saw_ok) + int(saw_rej)
        if len(jobs_per_route) > 1 and not (saw_ok and saw_rej):
            res.status, res.detail = 'inconclusive', f'vacuous: accepted={saw_ok} rejected={saw_rej}'
    res.time = time.time() - t0
    return res


# ---------------------------------------------------------------------------------------------------------------------
# C14 (registry as the heuristics use it): an insertion context made from a solution

def ob_ctx_from_solution(ctx, n_actors):
    """C14 (vehicle bookkeeping matches the tours): `create_insertion_context_from_solution` (real MIR, with the real
    `Registry::{deep_copy,use_actor,free_actor}`, `RegistryContext::new`, `Route::deep_copy`) on a solution in which every
    actor symbolically has no tour, a tour WITHOUT jobs, or a tour with one job, and the solution's registry marks exactly the
    actors with a listed tour as used (what the initial-solution readers produce).  The resulting context keeps exactly the
    job-carrying tours (own copies, in order) and its registry offers a vehicle exactly when no kept tour uses it - in
    particular the vehicle of a listed tour without jobs is available again."""
    from symex import AMapV, ASetV, DynV
    name = f'ctx_from_solution[actors={n_actors}]'
    res = Result(name)
    res.bounds = f'{n_actors} actors in one group; per actor: no tour / tour without jobs / tour with one job (symbolic); goal and solution-level refresh are environment no-ops'
    t0 = time.time()
    fn = ctx.prog.find_free('create_insertion_context_from_solution')

    class Env(drivers.Env):
        symbolic_maps = True

        def override(self, engine, st, callee, args, dest_ty):
            if callee.endswith('update_insertion_context'):
                return UnitV()
            if callee.endswith('GoalContext::accept_route_state') or callee.endswith('GoalContext::accept_solution_state'):
                return UnitV()
            if callee.endswith('Multi::roots'):
                return mk_option(False, ty=dest_ty)
            if callee.endswith('Activity::retrieve_job'):
                return NotImplemented
            return super().override(engine, st, callee, args, dest_ty)

    env = Env(ctx.prog, ctx.layout, 8)
    eng = symex.Engine(ctx.prog, ctx.layout, env)
    z = FV.const(0)

    def body(st):
        env.assumptions.clear()
        actors, kinds, routes = [], [], []
        for i in range(n_actors):
            actor = env.actor(IV(0), z, IV(0), FV.const(1000))
            actors.append(actor)
            c = z3.Int(f'actor{i}_tour')
            kind = eng.choose(st, [(c == 0, 'none'), (c == 1, 'empty'), (c == 2, 'job')])
            kinds.append(kind)
            if kind == 'none':
                continue
            acts = [env.activity(IV(0), z, z, FV.max_value(), z, z, has_job=False)]
            jobs = []
            if kind == 'job':
                s_ = ArcV(Cell(env.struct('jobs::Single', places=VecV([]), dimens=StateV({'job_id': Opaque(f'"job{i}"')}))))
                acts.append(env.activity(IV(0), z, z, FV.max_value(), z, z, job=s_))
                jobs.append(EnumV('jobs::Job', 0, {0: [s_]}))
            acts.append(env.activity(IV(0), z, z, FV.max_value(), z, z, has_job=False))
            tour = env.struct('solution::tour::Tour', activities=VecV(acts), jobs=AMapV([(jv, UnitV()) for jv in jobs], True), is_closed=BV(True))
            routes.append((i, env.struct('route::Route', actor=actor, tour=tour)))
        # the solution's registry: exactly the actors with a listed tour are in use
        avail = [z3.BoolVal(k == 'none') for k in kinds]
        registry = env.struct('registry::Registry', available=AMapV([(IV(0), ASetV(list(actors), avail))]), index=AMapV([(a, IV(0)) for a in actors]),
                              all=VecV(list(actors)), random=ArcV(Cell(DynV('random'))))
        solution = env.struct('domain::Solution', cost=z, registry=registry, routes=VecV([r for _, r in routes]), unassigned=VecV([]), telemetry=mk_option(False, ty='Option<TelemetryMetrics>'))
        po = ctx.layout.fields('domain::Problem')
        problem = ArcV(Cell(Agg('struct', [VecV([]) if f == 'locks' else ArcV(Cell(Opaque(f))) for f in po], 'domain::Problem')))
        out = eng.exec_fn(st, fn, [problem, Agg('tuple', [solution, mk_option(False, ty='Option<f64>')], ''), ArcV(Cell(Opaque('environment')))])
        return (kinds, actors, routes, out)

    paths = eng.explore(body, max_paths=4000)
    res.paths = len(paths)
    res.functions |= eng.functions_used
    for st, out in paths:
        if out is None:
            if not no_panic(ctx, res, env, st, what=name):
                break
            continue
        kinds, actors, routes, ictx = out
        sol = env.field(ictx, 'context::InsertionContext', 'solution')
        kept = env.field(sol, 'context::SolutionContext', 'routes').items
        rctx = env.field(sol, 'context::SolutionContext', 'registry')
        reg = env.field(rctx, 'context::RegistryContext', 'registry')
        problems = []
        want = [i for i, k in enumerate(kinds) if k == 'job']

        def actor_index(rc):
            a = env.field(env.field(deref_all(rc), 'context::RouteContext', 'route'), 'route::Route', 'actor')
            return next((i for i, x in enumerate(actors) if deref_all(a).cell is x.cell), None)
        got = [actor_index(rc) for rc in kept]
        if got != want:
            problems.append(f'kept tours are those of actors {got}, the job-carrying tours are those of {want}')
        # own copies: no activity object shared with the solution
        src_acts = [a for _, r in routes for a in env.field(env.field(r, 'route::Route', 'tour'), 'solution::tour::Tour', 'activities').items]
        if any(a is b for rc in kept for a in env.tour_activities(deref_all(rc)) for b in src_acts):
            problems.append('a kept tour shares activities with the solution it was made from')
        conds = []
        for _, sv in env.field(reg, 'registry::Registry', 'available').entries:
            members = {id(k.cell): p for k, p in zip(sv.keys, sv.present)} if isinstance(sv, ASetV) else {id(deref_all(k).cell): z3.BoolVal(True) for k, _ in sv.entries}
            for i, a in enumerate(actors):
                conds.append(members.get(id(a.cell), z3.BoolVal(False)) == z3.BoolVal(kinds[i] != 'job'))
        claim = z3.And(z3.BoolVal(not problems), *conds)
        if not decide_claim(ctx, res, env, st, claim, what=f'{name}: tours per actor {kinds}: ' + ('; '.join(problems) or 'vehicle availability != "no kept tour uses it"')):
            if res.status == 'violated':
                res.case = {'kind': 'ctx_from_solution', 'tours': kinds}
            break
        if not no_panic(ctx, res, env, st, what=name):
            break
        res.witnesses += 1
    if res.status == 'holds' and res.witnesses == 0:
        res.status, res.detail = 'inconclusive', 'vacuous'
    res.time = time.time() - t0
    return res


# ---------------------------------------------------------------------------------------------------------------------
# C05 / C01 (shared reload resource): the amount left per resource after the solution-level refresh, and the rule on it

def ob_shared_resource_state(ctx, jobs_per_route):
    """C05 (per-solution aggregate) + C01 (reload resource rule): `SharedResourceState::accept_solution_state` (real MIR:
    `update_resource_consumption`, `get_total_demand`, T = SingleDimLoad) on a solution whose routes each start a reload
    interval at a resource activity (capacity and resource id from the environment functions; all routes draw on ONE
    resource) followed by jobs with symbolic resource demand; the previous per-activity values and the stale flags are
    ARBITRARY.  Afterwards the value stored at every resource activity is capacity minus the demand of ALL routes on that
    resource - whatever the flags and previous values were; `SharedResourceConstraint::evaluate` (real MIR) then accepts
    a job activity in that interval exactly when its demand does not exceed that amount."""
    from symex import AMapV, DynV
    name = f'shared_resource_state[jobs per route={"+".join(map(str, jobs_per_route))}]'
    res = Result(name)
    res.bounds = (f'{len(jobs_per_route)} routes = start, resource activity, {jobs_per_route} jobs, end; one shared resource; capacity, demands, previous cached amounts '
                  'symbolic in [0,2^14]; previous amount present/absent and stale flag per route symbolic')
    t0 = time.time()
    st_fns = ctx.prog.find_method('SharedResourceState', 'accept_solution_state')
    ev_fns = ctx.prog.find_method('SharedResourceConstraint', 'evaluate')
    if len(st_fns) != 1 or len(ev_fns) != 1:
        raise Inconclusive('SharedResourceState::accept_solution_state / SharedResourceConstraint::evaluate not found')

    class Env(drivers.Env):
        symbolic_maps = True

        def dyn_closure(self, engine, st, tag, args):
            if tag == 'is_partial':
                return BV(False)
            if tag == 'capacity_fn':
                act = deref_all(args[0])
                job = self.field(act, 'route::Activity', 'job')
                if job.variant() == 1 and any(job.payload[1][0].cell is c for c in self.marker_cells):
                    return mk_option(True, Agg('tuple', [self.struct('load::SingleDimLoad', value=self.capacity), IV(0)], ''), ty='Option<(T, usize)>')
                return mk_option(False, ty='Option<(T, usize)>')
            if tag == 'demand_fn':
                cell = deref_all(args[0])
                single = args[0]
                while isinstance(single, RefV) and not isinstance(single.load(), Agg):
                    single = single.load()
                holder_cell = single.container if isinstance(single, RefV) else None
                for c, d in self.demand_of:
                    if holder_cell is c:
                        return mk_option(True, self.struct('load::SingleDimLoad', value=d), ty='Option<T>')
                return mk_option(False, ty='Option<T>')
            return super().dyn_closure(engine, st, tag, args)

    env = Env(ctx.prog, ctx.layout, 14)
    env.type_subst = {'T': 'load::SingleDimLoad'}
    eng = symex.Engine(ctx.prog, ctx.layout, env)
    z = FV.const(0)
    holder = {}

    def body(st):
        env.assumptions.clear()
        env.capacity = env.sym_i('resource_capacity', 0, 2 ** 14, 'i32')
        env.marker_cells, env.demand_of = [], []
        routes, demands, prevs, flags = [], [], [], []
        for r, n in enumerate(jobs_per_route):
            marker = ArcV(Cell(env.struct('jobs::Single', places=VecV([]), dimens=StateV({'job_id': Opaque(f'"resource{r}"')}))))
            env.marker_cells.append(marker.cell)
            acts = [env.activity(IV(0), z, z, FV.max_value(), z, z, has_job=False), env.activity(IV(0), z, z, FV.max_value(), z, z, job=marker)]
            ds = []
            for j in range(n):
                s_ = ArcV(Cell(env.struct('jobs::Single', places=VecV([]), dimens=StateV({'job_id': Opaque(f'"job_r{r}_{j}"')}))))
                d = env.sym_i(f'demand_r{r}_j{j}', 0, 2 ** 12, 'i32')
                env.demand_of.append((s_.cell, d))
                ds.append(d)
                acts.append(env.activity(IV(0), z, z, FV.max_value(), z, z, job=s_))
            acts.append(env.activity(IV(0), z, z, FV.max_value(), z, z, has_job=False))
            total = len(acts)
            actor = env.actor(IV(0), z, IV(0), FV.const(1000))
            tour = env.struct('solution::tour::Tour', activities=VecV(acts), jobs=symex.SetV(n + 1), is_closed=BV(True))
            route = env.struct('route::Route', actor=actor, tour=tour)
            # previous cache: arbitrary amount (present or absent) at the resource activity
            has_prev, prev = z3.Bool(f'previous_present_r{r}'), env.sym_i(f'previous_amount_r{r}', 0, 2 ** 14, 'i32')
            prev_vec = VecV([mk_option(False, ty='Option<T>') if i != 1 else mk_option(has_prev, env.struct('load::SingleDimLoad', value=prev), ty='Option<T>') for i in range(total)])
            intervals = VecV([Agg('tuple', [IV(0), IV(0)], ''), Agg('tuple', [IV(1), IV(total - 1)], '')])
            state = StateV({'reload_intervals': intervals, 'generic_activity_states': prev_vec})
            stale = z3.Bool(f'stale_r{r}')
            routes.append(env.struct('context::RouteContext', route=route, state=state, cache=env.struct('context::RouteCache', is_stale=BV(stale))))
            demands.append(ds)
        sol = env.struct('context::SolutionContext', required=VecV([]), ignored=VecV([]), unassigned=AMapV(), locked=AMapV(is_set=True), routes=VecV(routes),
                         registry=Opaque('registry'), state=StateV())
        cell = Cell(sol)
        fstate = env.struct('reloads::SharedResourceState', resource_capacity_fn=ArcV(Cell(DynV('capacity_fn'))), resource_demand_fn=ArcV(Cell(DynV('demand_fn'))),
                            is_partial_solution_fn=ArcV(Cell(DynV('is_partial'))))
        eng.exec_fn(st, st_fns[0], [RefV(Cell(fstate), 0), RefV(cell, 0, True)])
        now = env.field(cell.v, 'context::SolutionContext', 'routes').items
        # the rule, asked for the last route: a new job activity with symbolic demand right after the resource activity
        target_single = ArcV(Cell(env.struct('jobs::Single', places=VecV([]), dimens=StateV({'job_id': Opaque('"target"')}))))
        td = env.sym_i('target_demand', 0, 2 ** 14, 'i32')
        env.demand_of.append((target_single.cell, td))
        rc = now[-1]
        acts = env.tour_activities(rc)
        target = env.activity(IV(0), z, z, FV.max_value(), z, z, job=target_single)
        actx = env.struct('context::ActivityContext', index=IV(1), prev=RefV(Cell(acts[1]), 0), target=RefV(Cell(target), 0), next=mk_option(True, RefV(Cell(acts[2]), 0), ty='Option<&Activity>'))
        move = EnumV('context::MoveContext', 1, {1: [RefV(cell, 0), RefV(Cell(rc), 0), RefV(Cell(actx), 0)]})
        constraint = env.struct('reloads::SharedResourceConstraint', violation_code=Agg('struct', [IV(9, 'i32')], 'ViolationCode'),
                                resource_demand_fn=ArcV(Cell(DynV('demand_fn'))), is_partial_solution_fn=ArcV(Cell(DynV('is_partial'))))
        verdict = eng.exec_fn(st, ev_fns[0], [RefV(Cell(constraint), 0), RefV(Cell(move), 0)])
        holder.update(demands=demands, td=td)
        return (now, verdict)

    paths = eng.explore(body, max_paths=20000)
    res.paths = len(paths)
    res.functions |= eng.functions_used
    saw_acc = saw_rej = False
    for st, out in paths:
        if out is None:
            if not no_panic(ctx, res, env, st, what=name):
                break
            continue
        now, verdict = out
        demands, td = holder['demands'], holder['td']
        total_demand = sum([d.t for ds in demands for d in ds], z3.IntVal(0))
        left = env.capacity.t - total_demand
        conds = []
        for rc in now:
            vec = env.field(rc, 'context::RouteContext', 'state').table.get('generic_activity_states')
            if vec is None:
                conds.append(z3.BoolVal(False))
                continue
            for i, slot in enumerate(vec.items):
                slot = deref_all(slot)
                if i == 1:
                    conds.append(z3.And(slot.discr == 1, env.field(slot.payload[1][0], 'load::SingleDimLoad', 'value').t == left) if 1 in slot.payload else z3.BoolVal(False))
                else:
                    conds.append(slot.discr == 0)
        rejected = verdict.discr == 1 if hasattr(verdict, 'discr') else None
        conds.append(rejected == (td.t > left))
        # the total may exceed the capacity in an arbitrary solution: keep to solutions that respect the resource (the rule maintains that)
        pre = [left >= 0]
        if not decide_claim(ctx, res, env, st, z3.And(*conds), pre, what=f'{name}: stored amount == capacity - demand of all routes; rule accepts iff demand <= amount'):
            if res.status == 'violated' and res.model is not None:
                m = res.model
                ev = lambda t: m.eval(t, model_completion=True).as_long()
                res.case = {'kind': 'shared_resource', 'capacity': ev(env.capacity.t), 'demands': [[ev(d.t) for d in ds] for ds in demands], 'target_demand': ev(td.t),
                            'stale': [bool(z3.is_true(m.eval(z3.Bool(f'stale_r{r}'), model_completion=True))) for r in range(len(jobs_per_route))]}
            break
        if not no_panic(ctx, res, env, st, pre, what=name):
            break
        saw_acc = saw_acc or witness(ctx, res, env, st, z3.And(td.t <= left, td.t > 0), pre)
        saw_rej = saw_rej or witness(ctx, res, env, st, td.t > left, pre)
    if res.status == 'holds':
        res.witnesses = int(saw_acc) + int(saw_rej)
        if not (saw_acc and saw_rej):
            res.status, res.detail = 'inconclusive', f'vacuous: accept={saw_acc} reject={saw_rej}'
    res.time = time.time() - t0
    return res


# ---------------------------------------------------------------------------------------------------------------------
# C01: skills and compatibility rules

def ob_skills_gate(ctx, n_skills):
    """C01 (required skills): `SkillsConstraint::evaluate` (real MIR incl. `check_all_of / check_one_of / check_none_of`) for a
    job whose three skill lists (each present or absent, membership of every skill symbolic) meet a vehicle whose skill set is
    present or absent with symbolic membership: the job is admitted to the vehicle exactly when every all-of skill is a
    vehicle skill, at least one one-of skill is (if the list is given) and no none-of skill is."""
    from symex import ASetV
    name = f'skills_gate[skills={n_skills}]'
    res = Result(name)
    res.bounds = f'universe of {n_skills} skills; job lists allOf / oneOf / noneOf each present or absent, membership symbolic (a present list is non-empty, as JobSkills::new guarantees); vehicle set present or absent'
    t0 = time.time()
    fns = ctx.prog.find_method('SkillsConstraint', 'evaluate')
    if len(fns) != 1:
        raise Inconclusive('SkillsConstraint::evaluate not found')

    class Env(drivers.Env):
        symbolic_maps = True

    env = Env(ctx.prog, ctx.layout, 8)
    eng = symex.Engine(ctx.prog, ctx.layout, env)
    U = [Opaque(f'"skill{i}"') for i in range(n_skills)]
    z = FV.const(0)
    holder = {}

    def body(st):
        env.assumptions.clear()

        def sym_set(tag):
            mem = [z3.Bool(f'{tag}_{i}') for i in range(n_skills)]
            return ASetV(list(U), mem), mem
        lists, present = {}, {}
        for key in ('all_of', 'one_of', 'none_of'):
            sv, mem = sym_set(key)
            has = z3.Bool(f'{key}_given')
            env.assumptions.append(z3.Implies(has, z3.Or(*mem)))        # JobSkills::new turns an empty list into None
            lists[key], present[key] = (sv, mem), has
        opt = lambda key: mk_option(present[key], lists[key][0], ty='Option<HashSet<String>>')
        skills = env.struct('skills::JobSkills', all_of=opt('all_of'), one_of=opt('one_of'), none_of=opt('none_of'))
        job_has = z3.Bool('job_has_skills')
        job_dimens = StateV({'job_skills': mk_option(job_has, RefV(Cell(skills), 0), ty='Option<&JobSkills>')})
        single = ArcV(Cell(env.struct('jobs::Single', places=VecV([]), dimens=job_dimens)))
        job = EnumV('jobs::Job', 0, {0: [single]})
        vs, vmem = sym_set('vehicle')
        v_has = z3.Bool('vehicle_has_skills')
        vdim = StateV({'vehicle_skills': mk_option(v_has, RefV(Cell(vs), 0), ty='Option<&HashSet<String>>')})
        actor = env.actor(IV(0), z, IV(0), FV.const(1000), dimens=vdim)
        acts = [env.activity(IV(0), z, z, FV.max_value(), z, z, has_job=False), env.activity(IV(0), z, z, FV.max_value(), z, z, has_job=False)]
        rc = env.route_ctx(actor, acts, True)
        move = EnumV('context::MoveContext', 0, {0: [RefV(Cell(Opaque('solution_ctx')), 0), RefV(Cell(rc), 0), RefV(Cell(job), 0)]})
        constraint = env.struct('skills::SkillsConstraint', code=Agg('struct', [IV(11, 'i32')], 'ViolationCode'))
        holder.update(lists=lists, present=present, job_has=job_has, v_has=v_has, vmem=vmem)
        return eng.exec_fn(st, fns[0], [RefV(Cell(constraint), 0), RefV(Cell(move), 0)])

    paths = eng.explore(body, max_paths=20000)
    res.paths = len(paths)
    res.functions |= eng.functions_used
    saw_a = saw_r = False
    for st, out in paths:
        if out is None:
            if not no_panic(ctx, res, env, st, what=name):
                break
            continue
        lists, present, job_has, v_has, vmem = (holder[k] for k in ('lists', 'present', 'job_has', 'v_has', 'vmem'))
        inv = lambda i: z3.And(v_has, vmem[i])            # skill i is a skill of the vehicle
        all_ok = z3.Or(z3.Not(present['all_of']), z3.And(*[z3.Implies(lists['all_of'][1][i], inv(i)) for i in range(n_skills)]))
        one_ok = z3.Or(z3.Not(present['one_of']), z3.Or(*[z3.And(lists['one_of'][1][i], inv(i)) for i in range(n_skills)]))
        none_ok = z3.Or(z3.Not(present['none_of']), z3.And(*[z3.Not(z3.And(lists['none_of'][1][i], inv(i))) for i in range(n_skills)]))
        admitted = z3.Or(z3.Not(job_has), z3.And(all_ok, one_ok, none_ok))
        accepted = out.discr == 0
        if not decide_claim(ctx, res, env, st, accepted == admitted, what=f'{name}: admitted <=> allOf subset, oneOf meets, noneOf disjoint'):
            if res.status == 'violated' and res.model is not None:
                m = res.model
                tv = lambda b: bool(z3.is_true(m.eval(b, model_completion=True)))
                pick = lambda key: [f'skill{i}' for i in range(n_skills) if tv(lists[key][1][i])] if tv(present[key]) else None
                res.case = {'kind': 'skills', 'job': ({'all_of': pick('all_of'), 'one_of': pick('one_of'), 'none_of': pick('none_of')} if tv(job_has) else None),
                            'vehicle': ([f'skill{i}' for i in range(n_skills) if tv(vmem[i])] if tv(v_has) else None)}
            break
        if not no_panic(ctx, res, env, st, what=name):
            break
        saw_a = saw_a or witness(ctx, res, env, st, z3.And(accepted, job_has, present['all_of']))
        saw_r = saw_r or witness(ctx, res, env, st, z3.Not(accepted))
    if res.status == 'holds':
        res.witnesses = int(saw_a) + int(saw_r)
        if not (saw_a and saw_r):
            res.status, res.detail = 'inconclusive', f'vacuous: accept={saw_a} reject={saw_r}'
    res.time = time.time() - t0
    return res


def ob_compatibility_state(ctx, n_jobs):
    """C05 (compatibility tag) + C01 (compatibility rule): `CompatibilityState::accept_route_state` (real MIR) on a route whose
    jobs carry a symbolic compatibility class (none / c1 / c2; classes within one tour agree - the invariant the rule maintains)
    and an ARBITRARY previous tag: afterwards the tag is the class of the tour's jobs, absent if no job has one.
    `CompatibilityConstraint::evaluate` (real MIR) then rejects a job exactly when it has a class, the tour has one, and they
    differ."""
    from symex import AMapV
    name = f'compatibility_state[jobs={n_jobs}]'
    res = Result(name)
    res.bounds = f'one route with {n_jobs} single jobs, class per job symbolic in {{none, c1, c2}} (no two different classes in one tour); previous tag absent / c-old / c1; evaluated job class symbolic'
    t0 = time.time()
    st_fns = ctx.prog.find_method('CompatibilityState', 'accept_route_state')
    ev_fns = ctx.prog.find_method('CompatibilityConstraint', 'evaluate')
    if len(st_fns) != 1 or len(ev_fns) != 1:
        raise Inconclusive('CompatibilityState::accept_route_state / CompatibilityConstraint::evaluate not found')
    CLASSES = (None, 'c1', 'c2')

    class Env(drivers.Env):
        symbolic_maps = True

        def override(self, engine, st, callee, args, dest_ty):
            if callee.endswith('Activity::retrieve_job'):
                return NotImplemented
            if callee.endswith('Multi::roots'):
                return mk_option(False, ty=dest_ty)
            return super().override(engine, st, callee, args, dest_ty)

    env = Env(ctx.prog, ctx.layout, 8)
    eng = symex.Engine(ctx.prog, ctx.layout, env)
    z = FV.const(0)

    def body(st):
        env.assumptions.clear()

        def single(nm, cls):
            dim = {'job_id': Opaque(f'"{nm}"')}
            if cls is not None:
                dim['job_compatibility'] = Opaque(f'"{cls}"')
            return ArcV(Cell(env.struct('jobs::Single', places=VecV([]), dimens=StateV(dim))))
        acts = [env.activity(IV(0), z, z, FV.max_value(), z, z, has_job=False)]
        jobs, classes = [], []
        for j in range(n_jobs):
            c = z3.Int(f'class_j{j}')
            cls = eng.choose(st, [(c == i, x) for i, x in enumerate(CLASSES) if x is None or not classes or all(y in (None, x) for y in classes)])
            s_ = single(f'job{j}', cls)
            acts.append(env.activity(IV(0), z, z, FV.max_value(), z, z, job=s_))
            jobs.append(EnumV('jobs::Job', 0, {0: [s_]}))
            classes.append(cls)
        acts.append(env.activity(IV(0), z, z, FV.max_value(), z, z, has_job=False))
        actor = env.actor(IV(0), z, IV(0), FV.const(1000))
        tour = env.struct('solution::tour::Tour', activities=VecV(acts), jobs=AMapV([(jv, UnitV()) for jv in jobs], True), is_closed=BV(True))
        p = z3.Int('previous_tag')
        prev = eng.choose(st, [(p == 0, None), (p == 1, 'c-old'), (p == 2, 'c1')])
        state = StateV({} if prev is None else {'current_compatibility': Opaque(f'"{prev}"')})
        rc = env.struct('context::RouteContext', route=env.struct('route::Route', actor=actor, tour=tour), state=state,
                        cache=env.struct('context::RouteCache', is_stale=BV(z3.Bool('stale'))))
        cell = Cell(rc)
        eng.exec_fn(st, st_fns[0], [RefV(Cell(Agg('struct', [], 'compatibility::CompatibilityState')), 0), RefV(cell, 0, True)])
        c = z3.Int('class_of_evaluated_job')
        cls = eng.choose(st, [(c == i, x) for i, x in enumerate(CLASSES)])
        job = EnumV('jobs::Job', 0, {0: [single('evaluated', cls)]})
        move = EnumV('context::MoveContext', 0, {0: [RefV(Cell(Opaque('solution_ctx')), 0), RefV(cell, 0), RefV(Cell(job), 0)]})
        constraint = env.struct('compatibility::CompatibilityConstraint', code=Agg('struct', [IV(12, 'i32')], 'ViolationCode'))
        verdict = eng.exec_fn(st, ev_fns[0], [RefV(Cell(constraint), 0), RefV(Cell(move), 0)])
        return (classes, prev, cls, cell.v, verdict)

    paths = eng.explore(body, max_paths=20000)
    res.paths = len(paths)
    res.functions |= eng.functions_used
    saw_a = saw_r = False

    def order(item):
        _, out = item
        if out is None:
            return 2
        classes, prev, cls, _, verdict = out
        tc = next((x for x in classes if x is not None), None)
        must = cls is not None and tc is not None and cls != tc
        rej = verdict.variant()
        wrong = rej is not None and bool(rej) != must
        return 0 if (wrong and prev is None) else 1 if wrong else 2
    for st, out in sorted(paths, key=order):
        if out is None:
            if not no_panic(ctx, res, env, st, what=name):
                break
            continue
        classes, prev, cls, rc, verdict = out
        tour_class = next((x for x in classes if x is not None), None)
        tag = env.field(rc, 'context::RouteContext', 'state').table.get('current_compatibility')
        got = deref_all(tag).name.strip('"') if tag is not None else None
        problems = []
        if got != tour_class:
            problems.append(f'cached class {got}, class of the jobs in the tour {tour_class}')
        must_reject = cls is not None and tour_class is not None and cls != tour_class
        rejected = verdict.variant()
        if rejected is None:
            res.status, res.detail = 'inconclusive', 'symbolic verdict'
            break
        if bool(rejected) != must_reject:
            problems.append(f'a job of class {cls} is {"rejected" if rejected else "accepted"} by a tour of class {tour_class}')
        if not decide_claim(ctx, res, env, st, z3.BoolVal(not problems), what=f'{name}: ' + '; '.join(problems)):
            if res.status == 'violated':
                res.case = {'kind': 'compatibility', 'classes': classes, 'previous_tag': prev, 'class': cls}
            break
        if not no_panic(ctx, res, env, st, what=name):
            break
        saw_a = saw_a or not must_reject
        saw_r = saw_r or must_reject
    if res.status == 'holds':
        res.witnesses = int(saw_a) + int(saw_r)
        if n_jobs > 0 and not (saw_a and saw_r):
            res.status, res.detail = 'inconclusive', f'vacuous: accept={saw_a} reject={saw_r}'
    res.time = time.time() - t0
    return res


# ---------------------------------------------------------------------------------------------------------------------
# C01: relation pinning (strict lock: contiguity, departure / arrival anchoring, vehicle)

def ob_lock_rule(ctx, m, position):
    """C01 (relation pinning): `LockingConstraint::evaluate` (real MIR incl. `Rule::can_insert / can_insert_after /
    can_insert_before`) for a strict lock of `m` jobs with the given position on a tour that satisfies the lock - the locked
    jobs contiguous and in order, directly after the departure (position Departure / Fixed) and / or directly before the
    arrival (Arrival / Fixed), a symbolic number (0..2) of other jobs before and after where the position allows them.  A job
    that is NOT part of the lock, offered at a symbolic leg, is admitted exactly when the tour with the job inserted still
    satisfies the lock.  Route level: a locked job is admitted to a vehicle exactly when the lock's condition holds for it."""
    from symex import AMapV, DynV
    POS = {'any': 0, 'departure': 1, 'arrival': 2, 'fixed': 3}
    name = f'lock_rule[jobs={m},{position}]'
    res = Result(name)
    res.bounds = f'strict lock of {m} jobs, position {position}; closed tour = start, 0..2 other jobs (where allowed), the locked jobs in order, 0..2 other jobs (where allowed), end; insertion leg symbolic'
    t0 = time.time()
    ev = ctx.prog.find_method('LockingConstraint', 'evaluate')
    if len(ev) != 1:
        raise Inconclusive('LockingConstraint::evaluate not found')

    class Env(drivers.Env):
        symbolic_maps = True

        def override(self, engine, st, callee, args, dest_ty):
            if callee.endswith('Activity::retrieve_job'):
                return NotImplemented
            if callee.endswith('Multi::roots'):
                return mk_option(False, ty=dest_ty)
            return super().override(engine, st, callee, args, dest_ty)

        def dyn_closure(self, engine, st, tag, args):
            if tag == 'lock_condition':
                return BV(self.condition_holds)
            return super().dyn_closure(engine, st, tag, args)

    env = Env(ctx.prog, ctx.layout, 8)
    eng = symex.Engine(ctx.prog, ctx.layout, env)
    z = FV.const(0)

    def body(st):
        env.assumptions.clear()
        env.condition_holds = z3.Bool('lock_condition_holds_for_the_vehicle')
        mk_single = lambda nm: ArcV(Cell(env.struct('jobs::Single', places=VecV([]), dimens=StateV({'job_id': Opaque(f'"{nm}"')}))))
        jobv = lambda s_: EnumV('jobs::Job', 0, {0: [s_]})
        locked = [mk_single(f'locked{i}') for i in range(m)]
        nb, na = z3.Int('others_before'), z3.Int('others_after')
        before = eng.choose(st, [(nb == i, i) for i in range(0, 3)]) if position in ('any', 'arrival') else 0
        after = eng.choose(st, [(na == i, i) for i in range(0, 3)]) if position in ('any', 'departure') else 0
        seq = ['start'] + [f'o{i}' for i in range(before)] + [f'L{i}' for i in range(m)] + [f'p{i}' for i in range(after)] + ['end']
        singles = {f'L{i}': locked[i] for i in range(m)}
        for lab in seq:
            if lab[0] in 'op':
                singles[lab] = mk_single(lab)
        acts = [env.activity(IV(0), z, z, FV.max_value(), z, z, has_job=lab in singles, job=singles.get(lab)) for lab in seq]
        actor = env.actor(IV(0), z, IV(0), FV.const(1000))
        rc = env.route_ctx(actor, acts, True)
        cond = ArcV(Cell(DynV('lock_condition')))
        index = env.struct('locked_jobs::JobIndex', first=jobv(locked[0]), last=jobv(locked[-1]), jobs=AMapV([(jobv(s_), UnitV()) for s_ in locked], True))
        rule = ArcV(Cell(env.struct('locked_jobs::Rule', condition=cond, position=EnumV('domain::LockPosition', POS[position], {}), index=index)))
        constraint = env.struct('locked_jobs::LockingConstraint', code=Agg('struct', [IV(13, 'i32')], 'ViolationCode'),
                                conditions=AMapV([(jobv(s_), cond) for s_ in locked]), rules=AMapV([(actor, VecV([rule]))]))
        leg = z3.Int('insertion_leg')
        p = eng.choose(st, [(leg == i, i) for i in range(len(seq) - 1)])
        target = env.activity(IV(0), z, z, FV.max_value(), z, z, job=mk_single('new'))
        actx = env.struct('context::ActivityContext', index=IV(p), prev=RefV(Cell(acts[p]), 0), target=RefV(Cell(target), 0),
                          next=mk_option(True, RefV(Cell(acts[p + 1]), 0), ty='Option<&Activity>'))
        sol = RefV(Cell(Opaque('solution_ctx')), 0)
        move = EnumV('context::MoveContext', 1, {1: [sol, RefV(Cell(rc), 0), RefV(Cell(actx), 0)]})
        v_act = eng.exec_fn(st, ev[0], [RefV(Cell(constraint), 0), RefV(Cell(move), 0)])
        # route level: a locked job / an unrelated job offered to this vehicle
        mv_locked = EnumV('context::MoveContext', 0, {0: [sol, RefV(Cell(rc), 0), RefV(Cell(jobv(locked[0])), 0)]})
        mv_free = EnumV('context::MoveContext', 0, {0: [sol, RefV(Cell(rc), 0), RefV(Cell(jobv(mk_single('free'))), 0)]})
        v_locked = eng.exec_fn(st, ev[0], [RefV(Cell(constraint), 0), RefV(Cell(mv_locked), 0)])
        v_free = eng.exec_fn(st, ev[0], [RefV(Cell(constraint), 0), RefV(Cell(mv_free), 0)])
        return (seq, p, v_act, v_locked, v_free)

    def satisfies(seq):
        idx = [i for i, lab in enumerate(seq) if lab.startswith('L')]
        if idx != list(range(idx[0], idx[0] + m)) or [seq[i] for i in idx] != [f'L{i}' for i in range(m)]:
            return False
        if position in ('departure', 'fixed') and idx[0] != 1:
            return False
        if position in ('arrival', 'fixed') and idx[-1] != len(seq) - 2:
            return False
        return True

    paths = eng.explore(body, max_paths=20000)
    res.paths = len(paths)
    res.functions |= eng.functions_used
    saw_a = saw_r = False
    for st, out in paths:
        if out is None:
            if not no_panic(ctx, res, env, st, what=name):
                break
            continue
        seq, p, v_act, v_locked, v_free = out
        new_seq = seq[:p + 1] + ['new'] + seq[p + 1:]
        ok = satisfies(new_seq)
        rej = v_act.variant()
        problems = []
        if rej is None or bool(rej) == ok:
            problems.append(f'job offered at leg {p} of {seq} is {"rejected" if rej else "admitted"}; the lock ({position}) is {"kept" if ok else "broken"} by that insertion')
        claim = z3.And(z3.BoolVal(not problems), (v_locked.discr == 0) == env.condition_holds, v_free.discr == 0)
        if not decide_claim(ctx, res, env, st, claim, what=f'{name}: ' + ('; '.join(problems) or 'route level: locked job admitted <=> the lock condition holds for the vehicle')):
            if res.status == 'violated' and res.model is not None:
                res.case = {'kind': 'lock_rule', 'position': position, 'locked': m, 'tour': seq, 'leg': p,
                            'condition_holds': bool(z3.is_true(res.model.eval(env.condition_holds, model_completion=True)))}
            break
        if not no_panic(ctx, res, env, st, what=name):
            break
        saw_a = saw_a or ok
        saw_r = saw_r or not ok
    if res.status == 'holds':
        res.witnesses = int(saw_a) + int(saw_r)
        if not (saw_r and (saw_a or position == 'fixed')):
            res.status, res.detail = 'inconclusive', f'vacuous: admit={saw_a} reject={saw_r}'
    res.time = time.time() - t0
    return res


# ---------------------------------------------------------------------------------------------------------------------
# C15: the fold step for a multi-task job, route-level estimates of any sign

def ob_fold_step_multi(ctx):
    """C15 (per-leaf fold step, multi-task job): `eval_job_insertion_in_route(.., alternative)` -> `eval_multi` (real MIR incl.
    the shadow tour and `analyze_insertion_in_route`) for a two-task job on an empty closed tour, every candidate feasible,
    a symbolic route-level estimate of ANY sign (the shipped minimize-unassigned objective quotes -1 per job), non-negative
    activity-level estimates per (task, leg) and a symbolic alternative (success with a cost of any sign): the step is `min` -
    cost(result) == min(cost(alternative), route estimate + estimate of task 1 + estimate of task 2) - which is what makes
    the outcome of `evaluate_all` independent of how rayon groups the (route, job) pairs."""
    from symex import DynV
    name = 'fold_step_multi[k=0,tasks=2]'
    res = Result(name)
    res.bounds = ('empty closed tour, job with 2 tasks in fixed order, all candidates feasible; route-level estimate and alternative cost symbolic in [-2^20, 2^20], '
                  'activity-level estimates symbolic in [0, 2^20]; BestResultSelector')
    t0 = time.time()
    fn = ctx.prog.find_free('eval_job_insertion_in_route')
    B = 2 ** 20

    class Env(drivers.Env):
        def override(self, engine, st, callee, args, dest_ty):
            if callee.endswith('GoalContext::evaluate') or callee.endswith('GoalContext::estimate'):
                mc = deref_all(args[1])
                if mc.variant() == 0:     # route level
                    if callee.endswith('evaluate'):
                        return mk_option(False, ty='Option<ConstraintViolation>')
                    return self.struct('insertions::InsertionCost', data=VecV([self.sym_f_path(st, 'route_estimate', -B, B)]))
                if callee.endswith('evaluate'):
                    return mk_option(False, ty='Option<ConstraintViolation>')
                actx = deref_all(mc.payload[1][2])
                idx = self.field(actx, 'context::ActivityContext', 'index').concrete()
                target = deref_all(self.field(actx, 'context::ActivityContext', 'target'))
                jb = self.field(target, 'route::Activity', 'job')
                task = next(i for i, c in enumerate(self.services) if jb.payload[1][0].cell is c)
                return self.struct('insertions::InsertionCost', data=VecV([self.sym_f_path(st, f'act_estimate_task{task}_leg{idx}', 0, B)]))
            if callee.endswith('GoalContext::accept_route_state'):
                return UnitV()
            if callee.endswith('Multi::permutations'):
                return VecV([VecV([ArcV(c) for c in self.services])])
            if callee.endswith('InsertionCost::max_value'):
                return RefV(Cell(self.struct('insertions::InsertionCost', data=VecV([FV.max_value()]))), 0)
            if 'HashMap' in callee and callee.split('::<')[0].endswith('get') or ('HashMap' in callee and '>::get' in callee):
                return mk_option(False, ty=dest_ty)
            if callee.endswith('UnwrapValue>::unwrap_value'):
                cf = args[0]
                v = cf.variant()
                if v is None:
                    v = 0 if engine.split_bool(st, cf.discr == 0) else 1
                return cf.payload[v][0]
            return super().override(engine, st, callee, args, dest_ty)

        def dyn_call(self, engine, st, trait, method, args, dest_ty):
            if trait == 'ResultSelector':
                fns = engine.prog.find_method('BestResultSelector', method, trait='ResultSelector')
                if len(fns) == 1:
                    return engine.exec_fn(st, fns[0], args)
                return engine.exec_fn(st, self._trait_default('ResultSelector', method), args)
            return super().dyn_call(engine, st, trait, method, args, dest_ty)

    env = Env(ctx.prog, ctx.layout, 16)
    eng = symex.Engine(ctx.prog, ctx.layout, env)

    def body(st):
        env.assumptions.clear()
        spec = TourSpec(env, 0, True)
        rc = spec.build()
        singles = []
        for i in range(2):
            place = env.struct('jobs::Place', location=mk_option(True, IV(70 + i), ty='Option<usize>'), duration=FV.const(0),
                               times=VecV([EnumV('domain::TimeSpan', 0, {0: [env.time_window(FV.const(0), FV.max_value())]})]))
            singles.append(ArcV(Cell(env.struct('jobs::Single', places=VecV([place]), dimens=StateV()))))
        env.services = [s_.cell for s_ in singles]
        mo = ctx.layout.fields('jobs::Multi')
        multi = Agg('struct', [Opaque(f) for f in mo], 'jobs::Multi')
        multi.fields[mo.index('jobs')] = VecV(singles)
        job = EnumV('jobs::Job', 1, {1: [ArcV(Cell(multi))]})
        goal = ArcV(Cell(Opaque('goal')))
        order = ctx.layout.fields('domain::Problem')
        problem = Agg('struct', [Opaque(f) for f in order], 'domain::Problem')
        problem.fields[order.index('goal')] = goal
        so = ctx.layout.fields('context::SolutionContext')
        solution = Agg('struct', [Opaque(f) for f in so], 'context::SolutionContext')
        ictx = env.struct('context::InsertionContext', problem=ArcV(Cell(problem)), solution=solution, environment=Opaque('environment'))
        eval_ctx = env.struct('evaluators::EvaluationContext', goal=RefV(goal.cell, 0), job=RefV(Cell(job), 0),
                              leg_selection=RefV(Cell(EnumV('selectors::LegSelection', 1, {})), 0), result_selector=RefV(Cell(DynV('selector')), 0))
        alt_cost = env.struct('insertions::InsertionCost', data=VecV([env.sym_f('alternative_cost', -B, B)]))
        alt = EnumV('insertions::InsertionResult', 0, {0: [env.struct('insertions::InsertionSuccess', cost=alt_cost, job=Opaque('other_job'),
                                                                      activities=VecV([]), actor=Opaque('other_actor'))]})
        return eng.exec_fn(st, fn, [RefV(Cell(ictx), 0), RefV(Cell(eval_ctx), 0), RefV(Cell(rc), 0), EnumV('evaluators::InsertionPosition', 0, {}), alt])

    paths = eng.explore(body, max_paths=4000)
    res.paths = len(paths)
    res.functions |= eng.functions_used
    r, a0 = z3.Int('route_estimate'), z3.Int('alternative_cost')
    c1, c2 = z3.Int('act_estimate_task0_leg0'), z3.Int('act_estimate_task1_leg1')
    domain = [z3.And(r >= -B, r <= B), z3.And(a0 >= -B, a0 <= B), z3.And(c1 >= 0, c1 <= B), z3.And(c2 >= 0, c2 <= B)]
    saw_alt = saw_own = False
    for st, out in paths:
        if out is None:
            if not no_panic(ctx, res, env, st, domain, what=name):
                break
            continue
        if out.variant() != 0:
            claim = z3.BoolVal(False)          # an alternative exists: the step can never answer with a failure
            rcost = None
        else:
            s_ = out.payload[0][0]
            rcost = s_.fields[ctx.layout.fields('insertions::InsertionSuccess').index('cost')].fields[0].items[0]
            total = r + c1 + c2
            claim = z3.And(z3.Not(rcost.m), rcost.v == z3.If(a0 <= total, a0, total))
        if not decide_claim(ctx, res, env, st, claim, domain, what=f'{name}: cost(result) == min(alternative, route estimate + both activity estimates)'):
            if res.status == 'violated' and res.model is not None:
                m = res.model
                ev = lambda t: m.eval(t, model_completion=True).as_long()
                # the same situation through the public API: job0 (single) sets the alternative, job1 is the two-task job (its activity-level
                # estimate applies per task: the mean of the two keeps the total), fillers keep a single-threaded run sequential
                res.case = {'kind': 'fold_order', 'routes': 1, 'multi_jobs': [1],
                            'route_estimates': [ev(a0), ev(r), 10 ** 6, 10 ** 6], 'activity_estimates': [0, (ev(c1) + ev(c2)) / 2, 0, 0]}
            break
        if not no_panic(ctx, res, env, st, domain, what=name):
            break
        if rcost is not None:
            saw_alt = saw_alt or witness(ctx, res, env, st, z3.And(rcost.v == a0, a0 < r + c1 + c2), domain)
            saw_own = saw_own or witness(ctx, res, env, st, z3.And(rcost.v == r + c1 + c2, a0 > r + c1 + c2), domain)
    if res.status == 'holds':
        res.witnesses = int(saw_alt) + int(saw_own)
        if not (saw_alt and saw_own):
            res.status, res.detail = 'inconclusive', f'vacuous: alternative kept={saw_alt} own insertion chosen={saw_own}'
    res.time = time.time() - t0
    return res


# ---------------------------------------------------------------------------------------------------------------------
# C17 (density clustering only)

def ob_dbscan(ctx, n, min_points):
    """C17 (DBSCAN): `create_clusters` (real MIR; its hash map / hash set as association lists keyed by point identity) on `n`
    points with an ARBITRARY neighbourhood relation - one symbolic Bool per ordered pair, a point may or may not be its own
    neighbour - and the given `min_points`: the returned clusters are pairwise disjoint and without duplicates; the first
    point of every cluster is a core point (at least `min_points` neighbours); every member is density-reachable from it
    (a chain of neighbours whose inner links are core points); no core point stays unclustered."""
    from symex import DynV
    name = f'dbscan[points={n},min_points={min_points}]'
    res = Result(name)
    res.bounds = f'{n} points, neighbourhood relation fully symbolic ({n * n} Booleans, not necessarily symmetric), min_points = {min_points}'
    t0 = time.time()
    fn = ctx.prog.find_free('dbscan::create_clusters')
    N = [[z3.Bool(f'neighbour_{i}_{j}') for j in range(n)] for i in range(n)]

    class Env(drivers.Env):
        symbolic_maps = True

        def dyn_closure(self, engine, st, tag, args):
            if tag == 'neighbourhood':
                from models import IterV
                p = args[0]
                i = next(k for k, c in enumerate(self.point_cells) if _cell_of(p) is c)
                out = []
                for j in range(n):
                    if engine.split_bool(st, N[i][j]):
                        out.append(RefV(self.point_cells[j], 0))
                return IterV(out)
            return super().dyn_closure(engine, st, tag, args)

    def _cell_of(v):
        # points are told apart by their (unique) names: references to them get copied around
        d = deref_all(v)
        if isinstance(d, Opaque):
            return next((c for c in env.point_cells if c.v.name == d.name), None)
        return None

    env = Env(ctx.prog, ctx.layout, 8)
    eng = symex.Engine(ctx.prog, ctx.layout, env)

    def body(st):
        env.assumptions.clear()
        env.point_cells = [Cell(Opaque(f'point{i}')) for i in range(n)]
        points = VecV([RefV(c, 0) for c in env.point_cells])
        out = eng.exec_fn(st, fn, [points, IV(min_points), DynV('neighbourhood')])
        clusters = []
        for cl in out.items:
            clusters.append([next(k for k, c in enumerate(env.point_cells) if _cell_of(x) is c) for x in deref_all(cl).items])
        return clusters

    paths = eng.explore(body, max_paths=200000)
    res.paths = len(paths)
    res.functions |= eng.functions_used
    for st, out in paths:
        if out is None:
            if not no_panic(ctx, res, env, st, what=name):
                break
            continue
        clusters = out
        core = [z3.Sum([z3.If(N[i][j], 1, 0) for j in range(n)]) >= min_points for i in range(n)]
        flat = [p for c in clusters for p in c]
        structural = len(flat) == len(set(flat)) and all(len(c) > 0 for c in clusters)
        conds = [z3.BoolVal(structural)]
        for c in clusters:
            root = c[0]
            conds.append(core[root])
            # density reachability from the root within n steps: reach_k[p]
            reach = [z3.BoolVal(p == root) for p in range(n)]
            for _ in range(n):
                reach = [z3.Or(reach[p], *[z3.And(reach[q], core[q], N[q][p]) for q in range(n)]) for p in range(n)]
            for p in c:
                conds.append(reach[p])
        for i in range(n):
            if i not in flat:
                conds.append(z3.Not(core[i]))
        if not decide_claim(ctx, res, env, st, z3.And(*conds), what=f'{name}: clusters {clusters}: disjoint, grown from a core point, members density-reachable, no core point left out'):
            if res.status == 'violated' and res.model is not None:
                m = res.model
                res.case = {'kind': 'dbscan', 'points': n, 'min_points': min_points,
                            'neighbours': [[j for j in range(n) if z3.is_true(m.eval(N[i][j], model_completion=True))] for i in range(n)]}
            break
        if not no_panic(ctx, res, env, st, what=name):
            break
        res.witnesses += 1 if clusters else 0
    if res.status == 'holds' and res.witnesses == 0:
        res.status, res.detail = 'inconclusive', 'vacuous: no path with a cluster'
    res.time = time.time() - t0
    return res


# ---------------------------------------------------------------------------------------------------------------------
# C02 (job accounting kernels): the insertion step, the finalisation and the hand-over of an insertion context

def ob_insertion_step(ctx, n_tasks):
    """C02 / C04 kernel (every job is accounted for exactly once, after every single insertion): `apply_insertion_success` (real
    MIR, with the real `RegistryContext::get_route`, `Registry::use_actor`, `Tour::insert_at`, `Vec::retain`, map removal) from a
    consistent insertion context - route 0 of actor a0 serves job X, actor a1 is unused, job Y is required, job Z is unassigned
    with a code, the job J to insert (1 or 2 tasks) is required and symbolically ALSO still listed as unassigned - for a success
    on a symbolic actor (the used one or the fresh one) at symbolic legal legs: afterwards J lives in exactly one tour with all its
    tasks in order and nowhere else, X / Y / Z are where they were, a fresh tour is appended exactly when the fresh actor was
    chosen, and a vehicle is available exactly when no tour uses it.  Then `finalize_insertion_ctx` (required jobs become
    unassigned, once) and the conversion into a `Solution` (unassigned = every job that is in no tour, once; tours copied)."""
    from symex import AMapV, ASetV, DynV
    name = f'insertion_step[tasks={n_tasks}]'
    res = Result(name)
    res.bounds = (f'2 actors (one tour with job X; one unused), jobs Y (required), Z (unassigned with a code), job J with {n_tasks} task(s) required and symbolically also unassigned; '
                  'success actor and insertion legs symbolic; goal callbacks are environment no-ops')
    t0 = time.time()
    apply_fn = ctx.prog.find_free('apply_insertion_success')
    finalize_fn = ctx.prog.find_free('finalize_insertion_ctx')
    into = [f for nme, f in ctx.prog.functions.items() if nme.endswith('::from') and 'InsertionContext, Option<' in f.header and 'Solution' in f.header]
    if len(into) != 1:
        raise Inconclusive(f'From<(InsertionContext, Option<TelemetryMetrics>)> for Solution not found ({len(into)})')

    class Env(drivers.Env):
        symbolic_maps = True

        def override(self, engine, st, callee, args, dest_ty):
            base = callee.split('::<')[0]
            if base.endswith('GoalContext::accept_insertion') or base.endswith('GoalContext::accept_solution_state') or base.endswith('GoalContext::accept_route_state'):
                return UnitV()
            if base.endswith('InsertionContext::get_total_cost'):
                return mk_option(False, ty=dest_ty)
            if callee.endswith('Multi::roots'):
                cell = deref_all(args[0])
                for s_cell in getattr(self, 'multi_task_cells', []):
                    if args[0].container is s_cell if isinstance(args[0], RefV) else False:
                        return mk_option(True, self.multi_arc, ty=dest_ty)
                # fall back: identify by the job id carried in the dimens
                try:
                    jid = self.field(cell, 'jobs::Single', 'dimens').table.get('job_id')
                except Exception:
                    jid = None
                if jid is not None and jid.name.startswith('"J#') and getattr(self, 'multi_arc', None) is not None:
                    return mk_option(True, self.multi_arc, ty=dest_ty)
                return mk_option(False, ty=dest_ty)
            if callee.endswith('Activity::retrieve_job'):
                return NotImplemented
            return super().override(engine, st, callee, args, dest_ty)

    env = Env(ctx.prog, ctx.layout, 8)
    eng = symex.Engine(ctx.prog, ctx.layout, env)
    z = FV.const(0)

    def body(st):
        env.assumptions.clear()
        env.multi_arc = None
        mk_single = lambda nm: ArcV(Cell(env.struct('jobs::Single', places=VecV([]), dimens=StateV({'job_id': Opaque(f'"{nm}"')}))))
        jobv = lambda s_: EnumV('jobs::Job', 0, {0: [s_]})
        sX, sY, sZ = mk_single('X'), mk_single('Y'), mk_single('Z')
        if n_tasks == 1:
            tasks = [mk_single('J')]
            J = jobv(tasks[0])
        else:
            tasks = [mk_single(f'J#{i}') for i in range(n_tasks)]
            mo = ctx.layout.fields('jobs::Multi')
            multi = Agg('struct', [Opaque(f) for f in mo], 'jobs::Multi')
            multi.fields[mo.index('jobs')] = VecV(list(tasks))
            env.multi_arc = ArcV(Cell(multi))
            J = EnumV('jobs::Job', 1, {1: [env.multi_arc]})
        # two actors with prototype routes; actor 0 drives a tour with X
        protos, actors = [], []
        for i in range(2):
            rc = TourSpec(env, 0, closed=True, prefix=f'p{i}_').build()
            route = env.field(rc, 'context::RouteContext', 'route')
            tour_p = env.field(route, 'route::Route', 'tour')
            tour_p.fields[ctx.layout.fields('solution::tour::Tour').index('jobs')] = AMapV(is_set=True)      # job set with identities (empty prototype)
            actors.append(env.field(route, 'route::Route', 'actor'))
            protos.append(ArcV(Cell(rc)))
        acts0 = [env.activity(IV(0), z, z, FV.max_value(), z, z, has_job=False), env.activity(IV(0), z, z, FV.max_value(), z, z, job=sX),
                 env.activity(IV(0), z, z, FV.max_value(), z, z, has_job=False)]
        tour0 = env.struct('solution::tour::Tour', activities=VecV(acts0), jobs=AMapV([(jobv(sX), UnitV())], True), is_closed=BV(True))
        rc0 = env.struct('context::RouteContext', route=env.struct('route::Route', actor=actors[0], tour=tour0), state=StateV(),
                         cache=env.struct('context::RouteCache', is_stale=BV(False)))
        registry = env.struct('registry::Registry', available=AMapV([(IV(0), ASetV(list(actors), [z3.BoolVal(False), z3.BoolVal(True)]))]),
                              index=AMapV([(a, IV(0)) for a in actors]), all=VecV(list(actors)), random=ArcV(Cell(DynV('random'))))
        rctx = env.struct('context::RegistryContext', registry=registry, index=AMapV([(actors[i], protos[i]) for i in range(2)]))
        also_unassigned = z3.Bool('J_also_listed_as_unassigned')
        listed = eng.split_bool(st, also_unassigned)
        code = EnumV('context::UnassignmentInfo', 1, {1: [Agg('struct', [IV(3, 'i32')], 'ViolationCode')]})
        unassigned = AMapV([(jobv(sZ), code)] + ([(J, symex.copy_value(code))] if listed else []))
        sol = env.struct('context::SolutionContext', required=VecV([jobv(sY), J]), ignored=VecV([]), unassigned=unassigned, locked=AMapV(is_set=True),
                         routes=VecV([rc0]), registry=rctx, state=StateV())
        po = ctx.layout.fields('domain::Problem')
        problem = ArcV(Cell(Agg('struct', [ArcV(Cell(Opaque(f))) for f in po], 'domain::Problem')))
        ictx = Cell(env.struct('context::InsertionContext', problem=problem, solution=sol, environment=ArcV(Cell(Opaque('environment')))))
        # the success: actor and legs symbolic
        which = z3.Int('success_actor')
        a = eng.choose(st, [(which == 0, 0), (which == 1, 1)])
        n_legs = 2 if a == 0 else 1
        legs = []
        lo = 0
        for t in range(n_tasks):
            li = z3.Int(f'leg_of_task{t}')
            leg = eng.choose(st, [(li == k, k) for k in range(lo, n_legs + t)])
            legs.append(leg)
            lo = leg + 1
        activities = VecV([Agg('tuple', [env.activity(IV(0), z, z, FV.max_value(), z, z, job=tasks[t]), IV(legs[t])], '') for t in range(n_tasks)])
        success = env.struct('insertions::InsertionSuccess', cost=env.struct('insertions::InsertionCost', data=VecV([z])), job=J, activities=activities, actor=actors[a])
        eng.exec_fn(st, apply_fn, [RefV(ictx, 0, True), success])
        after_apply = symex.copy_value(ictx.v) if False else None
        snap = observe(env, ictx.v, actors, {'X': sX, 'Y': sY, 'Z': sZ}, tasks)
        # a context can be handed over as a Solution at any moment (e.g. when the computation is interrupted): jobs still pending count as unassigned
        early = eng.exec_fn(st, into[0], [Agg('tuple', [ictx.v, mk_option(False, ty='Option<TelemetryMetrics>')], '')])
        snap['early_unassigned'] = sorted(name_of(env, deref_all(x).fields[0], {'X': sX, 'Y': sY, 'Z': sZ}, tasks) for x in env.field(early, 'domain::Solution', 'unassigned').items)
        eng.exec_fn(st, finalize_fn, [RefV(ictx, 0, True)])
        snap_final = observe(env, ictx.v, actors, {'X': sX, 'Y': sY, 'Z': sZ}, tasks)
        solution = eng.exec_fn(st, into[0], [Agg('tuple', [ictx.v, mk_option(False, ty='Option<TelemetryMetrics>')], '')])
        un = [name_of(env, deref_all(x).fields[0], {'X': sX, 'Y': sY, 'Z': sZ}, tasks) for x in env.field(solution, 'domain::Solution', 'unassigned').items]
        s_routes = [[name_of_single(env, a_, {'X': sX, 'Y': sY, 'Z': sZ}, tasks) for a_ in env.field(env.field(r, 'route::Route', 'tour'), 'solution::tour::Tour', 'activities').items]
                    for r in env.field(solution, 'domain::Solution', 'routes').items]
        return (a, legs, listed, snap, snap_final, sorted(un), s_routes)

    def name_of_single(env, act, named, tasks):
        jb = env.field(deref_all(act), 'route::Activity', 'job')
        if jb.variant() != 1:
            return None
        c = jb.payload[1][0].cell
        for nm, s_ in named.items():
            if s_.cell is c:
                return nm
        for i, s_ in enumerate(tasks):
            if s_.cell is c:
                return f'J{i}' if len(tasks) > 1 else 'J'
        return '?'

    def name_of(env, jobval, named, tasks):
        jv = deref_all(jobval)
        c = jv.payload[jv.variant()][0].cell
        if env.multi_arc is not None and c is env.multi_arc.cell:
            return 'J'
        for nm, s_ in named.items():
            if s_.cell is c:
                return nm
        return 'J' if any(s_.cell is c for s_ in tasks) else '?'

    def observe(env, ictx_v, actors, named, tasks):
        sol = env.field(ictx_v, 'context::InsertionContext', 'solution')
        routes = env.field(sol, 'context::SolutionContext', 'routes').items
        out = {'routes': [], 'route_actors': [], 'tour_jobs': []}
        for rc in routes:
            rc = deref_all(rc)
            route = env.field(rc, 'context::RouteContext', 'route')
            tour = env.field(route, 'route::Route', 'tour')
            out['routes'].append([name_of_single(env, a_, named, tasks) for a_ in env.field(tour, 'solution::tour::Tour', 'activities').items])
            a_cell = deref_all(env.field(route, 'route::Route', 'actor')).cell
            out['route_actors'].append(next(i for i, x in enumerate(actors) if x.cell is a_cell))
            out['tour_jobs'].append(sorted(name_of(env, k, named, tasks) for k, _ in env.field(tour, 'solution::tour::Tour', 'jobs').entries))
        out['required'] = [name_of(env, j, named, tasks) for j in env.field(sol, 'context::SolutionContext', 'required').items]
        out['unassigned'] = sorted(name_of(env, k, named, tasks) for k, _ in env.field(sol, 'context::SolutionContext', 'unassigned').entries)
        reg = env.field(env.field(sol, 'context::SolutionContext', 'registry'), 'context::RegistryContext', 'registry')
        avail = {}
        for _, sv in env.field(reg, 'registry::Registry', 'available').entries:
            for k, p in zip(sv.keys, sv.present):
                avail[next(i for i, x in enumerate(actors) if x.cell is k.cell)] = p
        out['available'] = avail
        return out

    paths = eng.explore(body, max_paths=4000)
    res.paths = len(paths)
    res.functions |= eng.functions_used
    for st, out in paths:
        if out is None:
            if not no_panic(ctx, res, env, st, what=name):
                break
            continue
        a, legs, listed, snap, fin, sol_un, sol_routes = out
        jn = ['J'] if n_tasks == 1 else [f'J{i}' for i in range(n_tasks)]
        base = [None, 'X', None] if a == 0 else [None, None]
        exp = list(base)
        for t, leg in enumerate(legs):
            exp.insert(leg + 1, jn[t])
        exp_routes = [exp] if a == 0 else [[None, 'X', None], exp]
        problems = []
        if snap['routes'] != exp_routes:
            problems.append(f'tours after the insertion {snap["routes"]}, expected {exp_routes}')
        if snap['route_actors'] != ([0] if a == 0 else [0, 1]):
            problems.append(f'tours are driven by actors {snap["route_actors"]}')
        exp_tour_jobs = [['J', 'X']] if a == 0 else [['X'], ['J']]
        if snap['tour_jobs'] != exp_tour_jobs:
            problems.append(f'job sets of the tours {snap["tour_jobs"]}, expected {exp_tour_jobs}')
        if snap['required'] != ['Y']:
            problems.append(f'required after the insertion: {snap["required"]}, expected [Y]')
        if snap['unassigned'] != ['Z']:
            problems.append(f'unassigned after the insertion: {snap["unassigned"]}, expected [Z]')
        if snap['early_unassigned'] != ['Y', 'Z']:
            problems.append(f'Solution made from the context BEFORE finalisation reports unassigned {snap["early_unassigned"]}, expected [Y, Z] (Y is still pending)')
        if fin['required'] != [] or fin['unassigned'] != ['Y', 'Z']:
            problems.append(f'after finalisation: required {fin["required"]}, unassigned {fin["unassigned"]}; expected [] and [Y, Z]')
        if sol_un != ['Y', 'Z']:
            problems.append(f'unassigned list of the Solution: {sol_un}, expected [Y, Z]')
        if sol_routes != exp_routes:
            problems.append(f'tours of the Solution {sol_routes}, expected {exp_routes}')
        conds = [z3.BoolVal(not problems), z3.Not(snap['available'][0]), snap['available'][1] == z3.BoolVal(a == 0)]
        if not decide_claim(ctx, res, env, st, z3.And(*conds), what=f'{name}: success on actor {a} at legs {legs} (J also unassigned: {listed}): ' + ('; '.join(problems)[:500] or 'vehicle availability')):
            if res.status == 'violated':
                res.case = {'kind': 'insertion_step', 'tasks': n_tasks, 'actor': a, 'legs': legs, 'also_unassigned': bool(listed)}
            break
        if not no_panic(ctx, res, env, st, what=name):
            break
        res.witnesses += 1
    if res.status == 'holds' and res.witnesses == 0:
        res.status, res.detail = 'inconclusive', 'vacuous'
    res.time = time.time() - t0
    return res
