"""MIR->SMT obligations in bit-precise IEEE semantics (z3 floating-point theory): comparators and numeric kernels whose
point is NaN / signed zero / rounding behaviour."""
import re
import time

import z3

import drivers
import symex
from core_obligations import Result, decide_claim, no_panic, witness
from models import mk_option, deref_all
from symex import (Agg, ArcV, BV, Cell, DynV, EnumV, FP, IV, Inconclusive, Opaque, RefV, StateV, UnitV, VecV, zs)

F64 = z3.Float64()


class IeeeEnv(drivers.Env):
    def __init__(self, prog, layout):
        super().__init__(prog, layout, 16)
        self.ieee = True
        self.fitness = {}

    def sym_fp(self, name, nan_free=False, finite=False):
        v = z3.FP(name, F64)
        if nan_free:
            self.assumptions.append(z3.Not(z3.fpIsNaN(v)))
        if finite:
            self.assumptions.append(z3.And(z3.Not(z3.fpIsNaN(v)), z3.Not(z3.fpIsInf(v))))
        return FP(v)

    def dyn_call(self, engine, st, trait, method, args, dest_ty):
        if trait == 'FeatureObjective' and method == 'fitness':
            obj = args[0]
            while isinstance(obj, (RefV, ArcV)):
                obj = obj.load() if isinstance(obj, RefV) else obj.cell.v
            sol = args[1]
            while isinstance(sol, RefV):
                sol = sol.load()
            key = (obj.tag, sol.name)
            if key not in self.fitness:
                self.fitness[key] = FP(z3.FP(f'fitness_{obj.tag}_{sol.name}', F64))
            return self.fitness[key]
        return super().dyn_call(engine, st, trait, method, args, dest_ty)

    def override(self, engine, st, callee, args, dest_ty):
        if callee.endswith('UnwrapValue>::unwrap_value'):
            cf = args[0]
            v = cf.variant()
            if v is None:
                v = 0 if engine.split_bool(st, cf.discr == 0) else 1
            return cf.payload[v][0]
        return super().override(engine, st, callee, args, dest_ty)


def build_goal(ctx, env, eng, st, n):
    """Runs the real GoalBuilder::add_single n times and GoalBuilder::build (MIR)."""
    builder = env.struct('goal::GoalBuilder', layers=VecV([]))
    add = ctx.prog.find_method('GoalBuilder', 'add_single')
    bld = ctx.prog.find_method('GoalBuilder', 'build')
    if len(add) != 1 or len(bld) != 1:
        raise Inconclusive('GoalBuilder::add_single/build not found')
    for i in range(n):
        builder = eng.exec_fn(st, add[0], [builder, ArcV(Cell(DynV(f'obj{i}')))])
    res = eng.exec_fn(st, bld[0], [builder])
    if res.variant() != 0:
        raise Inconclusive('GoalBuilder::build did not return Ok')
    return res.payload[0][0]


def total_order(ctx, eng, st, goal_cell, a, b):
    f = ctx.prog.find_method('Goal', 'total_order')
    if len(f) != 1:
        raise Inconclusive('Goal::total_order not found')
    return eng.exec_fn(st, f[0], [RefV(goal_cell, 0), RefV(Cell(Opaque(a)), 0), RefV(Cell(Opaque(b)), 0)])


def goal_case(res, n, sols):
    """fitness[layer][solution] as IEEE bit patterns from the counter-model"""
    if res.model is None:
        return
    m = res.model
    fitness = []
    for i in range(n):
        row = []
        for s in sols:
            v = m.eval(z3.fpToIEEEBV(z3.FP(f'fitness_obj{i}_{s}', F64)), model_completion=True)
            row.append(str(v.as_long()))
        fitness.append(row)
    res.case = {'kind': 'goal_order', 'fitness': fitness, 'solutions': list(sols)}


def ob_goal_order(ctx, n):
    """C09: a goal built from n single-objective layers by the real GoalBuilder compares solutions reflexively and
    antisymmetrically for EVERY f64 bit pattern of the fitness values, and on NaN-free values equals the lexicographic
    comparison of the fitness vectors with +0 == -0 (hence is a total preorder there)."""
    name = f'goal_order[layers={n}]'
    res = Result(name)
    res.bounds = f'{n} single-objective layers; fitness values: arbitrary f64 bit patterns (reflexive/antisymmetric), NaN-free (lexicographic equivalence)'
    t0 = time.time()

    def explore(body_fn):
        env = IeeeEnv(ctx.prog, ctx.layout)
        eng = symex.Engine(ctx.prog, ctx.layout, env, solver_timeout_ms=30000)

        def body(st):
            env.assumptions.clear()
            goal = build_goal(ctx, env, eng, st, n)
            return body_fn(env, eng, st, Cell(goal))
        paths = eng.explore(body, max_paths=3000)
        res.paths += len(paths)
        res.functions |= eng.functions_used
        return env, paths

    def fit(env, i, s):
        return z3.FP(f'fitness_obj{i}_{s}', F64)

    # reflexive
    env, paths = explore(lambda env, eng, st, g: total_order(ctx, eng, st, g, 'a', 'a'))
    for st, out in paths:
        if out is None:
            if not no_panic(ctx, res, env, st, what=name):
                break
            continue
        if not decide_claim(ctx, res, env, st, out.discr == 0, what=f'{name}: cmp(a,a) == Equal'):
            goal_case(res, n, ('a',))
            break
        res.witnesses += int(witness(ctx, res, env, st, z3.BoolVal(True)))
    # a law the solver cannot decide (`unknown`) must not hide a violation of the next one: remember it, go on
    pending = []

    def park():
        if res.status == 'inconclusive':
            pending.append(res.detail)
            res.status, res.detail = 'holds', ''
    park()
    # antisymmetric
    if res.status == 'holds':
        env, paths = explore(lambda env, eng, st, g: (total_order(ctx, eng, st, g, 'a', 'b'), total_order(ctx, eng, st, g, 'b', 'a')))
        for st, out in paths:
            if out is None:
                if not no_panic(ctx, res, env, st, what=name):
                    break
                continue
            ab, ba = out
            if not decide_claim(ctx, res, env, st, ab.discr == -ba.discr, what=f'{name}: cmp(a,b) == reverse(cmp(b,a))'):
                goal_case(res, n, ('a', 'b'))
                break
            res.witnesses += int(witness(ctx, res, env, st, ab.discr == -1))
    park()
    # lexicographic equivalence on NaN-free fitness
    if res.status == 'holds':
        env, paths = explore(lambda env, eng, st, g: total_order(ctx, eng, st, g, 'a', 'b'))
        for st, out in paths:
            if out is None:
                if not no_panic(ctx, res, env, st, what=name):
                    break
                continue
            nan_free = [z3.Not(z3.fpIsNaN(fit(env, i, s))) for i in range(n) for s in ('a', 'b')]
            ref = z3.IntVal(0)
            for i in reversed(range(n)):
                fa, fb = fit(env, i, 'a'), fit(env, i, 'b')
                ref = z3.If(z3.fpLT(fa, fb), -1, z3.If(z3.fpGT(fa, fb), 1, ref))
            if not decide_claim(ctx, res, env, st, out.discr == ref, nan_free, what=f'{name}: cmp == lexicographic order of the fitness vectors (+0 == -0)'):
                goal_case(res, n, ('a', 'b'))
                break
            res.witnesses += int(witness(ctx, res, env, st, z3.And(out.discr == 1, *nan_free)))
    if res.status == 'holds' and pending:
        res.status, res.detail = 'inconclusive', ' | '.join(pending)
    if res.status == 'holds' and res.witnesses == 0:
        res.status, res.detail = 'inconclusive', 'vacuous'
    res.time = time.time() - t0
    return res


# ---------------------------------------------------------------------------------------------------------------------
# rosomaxa numeric kernels (C18)

class RewardEnv(IeeeEnv):
    """Binds the generic parameters C/O/S of the hyper-heuristic reward functions: solutions are opaque tokens whose
    fitness vectors are symbolic, the objective's total order is an arbitrary (symbolic) ordering per pair."""

    def __init__(self, prog, layout, n, lim_exp=100):
        super().__init__(prog, layout)
        self.n = n
        self.lim = float(2 ** lim_exp)
        self.has_best = True

    def fit(self, sol, i):
        v = z3.FP(f'fit_{sol}_{i}', F64)
        return v

    def domain(self, sols):
        out = []
        for s in sols:
            for i in range(self.n):
                v = self.fit(s, i)
                out.append(z3.And(z3.Not(z3.fpIsNaN(v)), z3.fpLEQ(z3.fpAbs(v), z3.FPVal(self.lim, F64))))
        return out

    def override(self, engine, st, callee, args, dest_ty):
        def token(v):
            while isinstance(v, RefV):
                v = v.load()
            return v.name
        if callee.endswith('HeuristicSolution>::fitness'):
            from models import IterV
            s = token(args[0])
            return IterV([FP(self.fit(s, i)) for i in range(self.n)])
        if callee.endswith('HeuristicObjective>::total_order'):
            a, b = token(args[1]), token(args[2])
            o = z3.Int(f'order_{a}_{b}')
            st.assumed.append(z3.And(o >= -1, o <= 1))
            return EnumV('Ordering', o, {})
        if callee.endswith('HeuristicContext>::ranked'):
            from models import IterV
            return IterV([RefV(Cell(Opaque('best')), 0)] if self.has_best else [])
        if callee.endswith('HeuristicContext>::objective'):
            return RefV(Cell(Opaque('objective')), 0)
        if 'Box<dyn Iterator' in callee and callee.endswith('::next'):
            from models import iterator_method
            return iterator_method(engine, st, 'next', args, dest_ty)
        return super().override(engine, st, callee, args, dest_ty)


def ob_relative_distance(ctx, n):
    """C18: get_relative_distance on fitness vectors with n finite components (|f| <= 2^100): never panics, the result is
    finite and |result| <= 2 * n (the quotient |a-b| / max(|a|,|b|) is at most 2), and it is within [-n, n] whenever the
    differing components have the same sign."""
    name = f'relative_distance[n={n}]'
    res = Result(name)
    res.bounds = f'{n} objectives; fitness components any non-NaN f64 with |f| <= 2^100; objective ordering arbitrary per pair'
    t0 = time.time()
    env = RewardEnv(ctx.prog, ctx.layout, n)
    eng = symex.Engine(ctx.prog, ctx.layout, env, solver_timeout_ms=60000)
    f = ctx.prog.find_free('get_relative_distance')

    def body(st):
        env.assumptions.clear()
        env.assumptions.extend(env.domain(['a', 'b']))
        return eng.exec_fn(st, f, [RefV(Cell(Opaque('objective')), 0), RefV(Cell(Opaque('a')), 0), RefV(Cell(Opaque('b')), 0)])

    paths = eng.explore(body)
    res.paths = len(paths)
    res.functions |= eng.functions_used
    N = z3.FPVal(float(n), F64)
    for st, out in paths:
        if out is None:
            if not no_panic(ctx, res, env, st, what=name):
                break
            continue
        r = out.t
        finite = z3.And(z3.Not(z3.fpIsNaN(r)), z3.Not(z3.fpIsInf(r)))
        claim = z3.And(finite, z3.fpLEQ(z3.fpAbs(r), z3.fpMul(z3.RNE(), z3.FPVal(2.0, F64), N)))
        if not decide_claim(ctx, res, env, st, claim, what=f'{name}: finite and |distance| <= 2n'):
            break
        same_sign = z3.And(*[z3.Or(z3.And(z3.fpGEQ(env.fit('a', i), z3.FPVal(0.0, F64)), z3.fpGEQ(env.fit('b', i), z3.FPVal(0.0, F64))),
                                   z3.And(z3.fpLEQ(env.fit('a', i), z3.FPVal(0.0, F64)), z3.fpLEQ(env.fit('b', i), z3.FPVal(0.0, F64)))) for i in range(n)])
        if not decide_claim(ctx, res, env, st, z3.Implies(same_sign, z3.fpLEQ(z3.fpAbs(r), N)), what=f'{name}: same-sign fitness => |distance| <= n (documented range)'):
            break
        if not no_panic(ctx, res, env, st, what=name):
            break
        res.witnesses += int(witness(ctx, res, env, st, z3.fpGT(r, z3.FPVal(0.5, F64))))
    if res.status == 'holds' and res.witnesses == 0:
        res.status, res.detail = 'inconclusive', 'vacuous'
    res.time = time.time() - t0
    return res


def ob_distance_reward(ctx, n):
    """C18: estimate_distance_reward is finite, non-negative and at most 3 * (2n + 1) for finite fitness vectors; 0 when the
    population is empty."""
    name = f'distance_reward[n={n}]'
    res = Result(name)
    res.bounds = f'{n} objectives; fitness components any non-NaN f64 with |f| <= 2^100; best-known present / absent'
    t0 = time.time()
    f = ctx.prog.find_free('estimate_distance_reward')
    for has_best in (True, False):
        env = RewardEnv(ctx.prog, ctx.layout, n)
        env.has_best = has_best
        eng = symex.Engine(ctx.prog, ctx.layout, env, solver_timeout_ms=60000)

        def body(st, env=env, eng=eng):
            env.assumptions.clear()
            env.assumptions.extend(env.domain(['new', 'initial', 'best']))
            return eng.exec_fn(st, f, [RefV(Cell(Opaque('ctx')), 0), RefV(Cell(Opaque('initial')), 0), RefV(Cell(Opaque('new')), 0)])

        paths = eng.explore(body)
        res.paths += len(paths)
        res.functions |= eng.functions_used
        for st, out in paths:
            if out is None:
                if not no_panic(ctx, res, env, st, what=name):
                    break
                continue
            r = out.t
            bound = z3.FPVal(3.0 * (2 * n + 1), F64)
            claim = z3.And(z3.Not(z3.fpIsNaN(r)), z3.fpGEQ(r, z3.FPVal(0.0, F64)), z3.fpLEQ(r, bound))
            if not has_best:
                claim = z3.fpEQ(r, z3.FPVal(0.0, F64))
            if not decide_claim(ctx, res, env, st, claim, what=f'{name}: reward finite and within [0, 3(2n+1)]'):
                break
            if not no_panic(ctx, res, env, st, what=name):
                break
            res.witnesses += int(witness(ctx, res, env, st, z3.fpGT(r, z3.FPVal(1.0, F64)) if has_best else z3.BoolVal(True)))
        if res.status != 'holds':
            break
    if res.status == 'holds' and res.witnesses == 0:
        res.status, res.detail = 'inconclusive', 'vacuous'
    res.time = time.time() - t0
    return res


def ob_max_generation(ctx):
    """C18/C07: MaxGeneration::is_termination <=> generation >= limit, and MaxGeneration::estimate is a number in [0,1]
    (never NaN) for EVERY generation and limit, including limit = 0 and generation = 0."""
    name = 'max_generation'
    res = Result(name)
    res.bounds = 'is_termination: generation, limit any integers in [0, 2^53]; estimate: the corner families limit==0, limit==1, generation==0, generation==limit (bit-precise IEEE division and min); the general quotient is not decided'
    t0 = time.time()
    est = ctx.prog.find_method('MaxGeneration', 'estimate', trait='Termination')
    term = ctx.prog.find_method('MaxGeneration', 'is_termination', trait='Termination')
    if len(est) != 1 or len(term) != 1:
        raise Inconclusive('MaxGeneration::estimate/is_termination not found')

    class Env(IeeeEnv):
        def override(self, engine, st, callee, args, dest_ty):
            if callee.endswith('HeuristicContext>::statistics'):
                order = self.layout.fields('HeuristicStatistics')
                fields = [Opaque(f) for f in order]
                fields[order.index('generation')] = IV(getattr(self, 'generation_term', z3.Int('generation')))
                return RefV(Cell(Agg('struct', fields, 'HeuristicStatistics')), 0)
            return super().override(engine, st, callee, args, dest_ty)

    # the general quotient g/limit of two symbolic doubles does not come back from the FP solver within the cap; the
    # estimate is therefore decided on the corner families where it can go wrong (stated bound), is_termination in general
    cases = [('estimate', est[0], 'limit == 0', lambda g, lim: [lim == 0]),
             ('estimate', est[0], 'generation == 0', lambda g, lim: [g == 0]),
             ('estimate', est[0], 'generation == limit', lambda g, lim: [g == lim]),
             ('estimate', est[0], 'limit == 1', lambda g, lim: [lim == 1]),
             ('is_termination', term[0], 'any', lambda g, lim: [])]
    for which, fn, label, extra_fn in cases:
        env = Env(ctx.prog, ctx.layout)
        eng = symex.Engine(ctx.prog, ctx.layout, env, solver_timeout_ms=60000)

        def body(st, env=env, eng=eng, fn=fn, extra_fn=extra_fn):
            env.assumptions.clear()
            g, lim = z3.Int('generation'), z3.Int('limit')
            env.assumptions.extend([g >= 0, g <= 2 ** 53, lim >= 0, lim <= 2 ** 53] + extra_fn(g, lim))
            # make the corner concrete for the executor so that the quotient has a constant operand
            if label == 'limit == 0':
                lim = z3.IntVal(0)
            if label == 'limit == 1':
                lim = z3.IntVal(1)
            gen = z3.IntVal(0) if label == 'generation == 0' else (lim if label == 'generation == limit' else g)
            env.generation_term = gen
            order = ctx.layout.fields('MaxGeneration')
            fields = [UnitV() for _ in order]
            fields[order.index('limit')] = IV(lim)
            me = Agg('struct', fields, 'MaxGeneration')
            return eng.exec_fn(st, fn, [RefV(Cell(me), 0), RefV(Cell(Opaque('ctx')), 0, True)])

        paths = eng.explore(body)
        res.paths += len(paths)
        res.functions |= eng.functions_used
        for st, out in paths:
            if out is None:
                if not no_panic(ctx, res, env, st, what=name):
                    break
                continue
            g, lim = z3.Int('generation'), z3.Int('limit')
            if which == 'estimate':
                r = out.t
                claim = z3.And(z3.Not(z3.fpIsNaN(r)), z3.fpGEQ(r, z3.FPVal(0.0, F64)), z3.fpLEQ(r, z3.FPVal(1.0, F64)),
                               z3.Implies(g >= lim, z3.fpEQ(r, z3.FPVal(1.0, F64))))
            else:
                claim = out.t == (g >= lim)
            if not decide_claim(ctx, res, env, st, claim, what=f'{name}: {which} [{label}]'):
                if res.model is not None:
                    res.case = {'kind': 'max_generation', 'generation': res.model.eval(g, model_completion=True).as_long(),
                                'limit': res.model.eval(lim, model_completion=True).as_long()}
                break
            if not no_panic(ctx, res, env, st, what=name):
                break
            res.witnesses += int(witness(ctx, res, env, st, z3.BoolVal(True)))
        if res.status != 'holds':
            break
    if res.status == 'holds' and res.witnesses == 0:
        res.status, res.detail = 'inconclusive', 'vacuous'
    res.time = time.time() - t0
    return res


# ---------------------------------------------------------------------------------------------------------------------
# C15: the reducer of the parallel fold/reduce, second (bit-precise IEEE) encoding through Engine M

def ob_reducer(ctx, la, lb):
    """C15: InsertionResult::choose_best_result (real MIR incl. InsertionCost::cmp / partial_cmp and everything they call)
    returns, for two successes with arbitrary cost vectors (every f64 bit pattern), one of the operands whose cost is the
    minimum under the reference lexicographic total order (missing components = +0); a failure never beats a success;
    the identity `make_failure()` is neutral; for three successes both reduction-tree shapes return the same minimum."""
    import symex as _sx
    name = f'reducer[lens={la}x{lb}]'
    res = Result(name)
    res.bounds = f'cost vectors of length {la} and {lb} (and {lb} again for the third leaf), components: every f64 bit pattern'
    t0 = time.time()
    fns = ctx.prog.find_method('InsertionResult', 'choose_best_result')
    mf = ctx.prog.find_method('InsertionResult', 'make_failure')
    if len(fns) != 1 or len(mf) != 1:
        raise Inconclusive('InsertionResult::choose_best_result/make_failure not found')
    choose = fns[0]

    class Env(IeeeEnv):
        pass

    def cost(env, tag, n):
        vals = [FP(z3.FP(f'cost_{tag}_{i}', F64)) for i in range(n)]
        return env.struct('insertions::InsertionCost', data=VecV(vals)), vals

    def success(env, tag, n):
        c, vals = cost(env, tag, n)
        s = env.struct('insertions::InsertionSuccess', cost=c, job=Opaque('job_' + tag), activities=VecV([]), actor=Opaque('actor_' + tag))
        return EnumV('insertions::InsertionResult', 0, {0: [s]}), vals

    def key(v):
        return _sx.fp_total_key(v.t)

    def ref_le(xs, ys):
        """xs <= ys in the lexicographic total order, missing = +0.0"""
        n = max(len(xs), len(ys))
        zero = FP(0.0)
        out = z3.BoolVal(True)
        for i in reversed(range(n)):
            a = key(xs[i] if i < len(xs) else zero)
            b = key(ys[i] if i < len(ys) else zero)
            out = z3.If(a < b, True, z3.If(a > b, False, out))
        return out

    def explore(body_fn):
        env = Env(ctx.prog, ctx.layout)
        eng = symex.Engine(ctx.prog, ctx.layout, env, solver_timeout_ms=30000)

        def body(st):
            env.assumptions.clear()
            return body_fn(env, eng, st)
        paths = eng.explore(body, max_paths=6000)
        res.paths += len(paths)
        res.functions |= eng.functions_used
        return env, paths

    def result_cost(out):
        s = out.payload[0][0]
        return s, s.fields[0].fields[0].items   # InsertionSuccess.cost.data

    # ---- pair lemma, both successes
    holder = {}

    def pair(env, eng, st):
        l, lv = success(env, 'l', la)
        r, rv = success(env, 'r', lb)
        holder['lv'], holder['rv'] = lv, rv
        return eng.exec_fn(st, choose, [l, r])
    env, paths = explore(pair)
    for st, out in paths:
        if out is None:
            if not no_panic(ctx, res, env, st, what=name):
                break
            continue
        lv, rv = holder['lv'], holder['rv']
        res.claims += 1
        if out.variant() != 0:
            res.status, res.detail = 'violated', 'two successes reduced to a failure'
            break
        s, cv = result_cost(out)
        who = s.fields[ctx.layout.fields('insertions::InsertionSuccess').index('actor')].name
        mine, other = (lv, rv) if who == 'actor_l' else (rv, lv)
        same = len(cv) == len(mine) and all(x.t.eq(y.t) for x, y in zip(cv, mine))
        if who not in ('actor_l', 'actor_r') or not same:
            res.status, res.detail = 'violated', 'the winner is not one of the operands (cost and actor do not belong together)'
            break
        if not decide_claim(ctx, res, env, st, ref_le(mine, other), what=f'{name}: winner has the minimal cost vector'):
            m = res.model
            if m is not None:
                res.case = {'kind': 'reducer', 'left': [str(m.eval(z3.fpToIEEEBV(v.t), model_completion=True).as_long()) for v in lv],
                            'right': [str(m.eval(z3.fpToIEEEBV(v.t), model_completion=True).as_long()) for v in rv]}
            break
        res.witnesses += int(witness(ctx, res, env, st, z3.BoolVal(who == 'actor_r')))
    # ---- failures and identity
    if res.status == 'holds':
        def with_failure(env, eng, st):
            l, lv = success(env, 'l', la)
            ident = eng.exec_fn(st, mf[0], [])
            a = eng.exec_fn(st, choose, [l, ident])
            ident2 = eng.exec_fn(st, mf[0], [])
            r, rv = success(env, 'r', lb)
            b = eng.exec_fn(st, choose, [ident2, r])
            f1 = EnumV('insertions::InsertionResult', 1, {1: [env.struct('insertions::InsertionFailure', constraint=Agg('struct', [IV(z3.Int('code1'), 'i32')], 'goal::ViolationCode'),
                                                                     stopped=BV(z3.Bool('stopped1')), job=mk_option(True, Opaque('job_f1'), ty='Option<Job>'))]})
            f2 = EnumV('insertions::InsertionResult', 1, {1: [env.struct('insertions::InsertionFailure', constraint=Agg('struct', [IV(z3.Int('code2'), 'i32')], 'goal::ViolationCode'),
                                                                     stopped=BV(z3.Bool('stopped2')), job=mk_option(True, Opaque('job_f2'), ty='Option<Job>'))]})
            c = eng.exec_fn(st, choose, [f1, f2])
            return a, b, c
        env, paths = explore(with_failure)
        for st, out in paths:
            if out is None:
                if not no_panic(ctx, res, env, st, what=name):
                    break
                continue
            a, b, c = out
            res.claims += 1
            ok = a.variant() == 0 and b.variant() == 0 and c.variant() == 1
            if ok:
                ok = result_cost(a)[0].fields[ctx.layout.fields('insertions::InsertionSuccess').index('actor')].name == 'actor_l' and \
                    result_cost(b)[0].fields[ctx.layout.fields('insertions::InsertionSuccess').index('actor')].name == 'actor_r'
            if not ok:
                res.status, res.detail = 'violated', 'a failure (or the identity element) displaced a success, or two failures became a success'
                break
            res.witnesses += int(witness(ctx, res, env, st, z3.BoolVal(True)))
    # ---- three leaves, both tree shapes
    if res.status == 'holds':
        def tree(shape):
            def f(env, eng, st):
                a, av = success(env, 'a', la)
                b, bv = success(env, 'b', lb)
                c, cv = success(env, 'c', lb)
                holder['leaves'] = {'actor_a': av, 'actor_b': bv, 'actor_c': cv}
                if shape == 'left':
                    return eng.exec_fn(st, choose, [eng.exec_fn(st, choose, [a, b]), c])
                return eng.exec_fn(st, choose, [a, eng.exec_fn(st, choose, [b, c])])
            return f
        for shape in ('left', 'right'):
            env, paths = explore(tree(shape))
            for st, out in paths:
                if out is None:
                    if not no_panic(ctx, res, env, st, what=name):
                        break
                    continue
                s, cv = result_cost(out)
                who = s.fields[ctx.layout.fields('insertions::InsertionSuccess').index('actor')].name
                leaves = holder['leaves']
                mine = leaves[who]
                claim = z3.And(*[ref_le(mine, v) for k, v in leaves.items() if k != who])
                if not decide_claim(ctx, res, env, st, claim, what=f'{name}: {shape}-deep tree of three leaves returns the minimum'):
                    m = res.model
                    if m is not None:
                        res.case = {'kind': 'reducer', 'shape': shape,
                                    'leaves': [[str(m.eval(z3.fpToIEEEBV(v.t), model_completion=True).as_long()) for v in leaves[k]] for k in ('actor_a', 'actor_b', 'actor_c')]}
                    break
                res.witnesses += int(witness(ctx, res, env, st, z3.BoolVal(who == 'actor_c')))
            if res.status != 'holds':
                break
    if res.status == 'holds' and res.witnesses == 0:
        res.status, res.detail = 'inconclusive', 'vacuous'
    res.time = time.time() - t0
    return res


def ob_min_variation_sample(ctx, sample, n_obj):
    """C18 (variation criterion, sample window): `MinVariation::update_and_check` + `check_threshold` (real MIR) with the
    coefficient of variation `get_cv(column)` as an uninterpreted number per objective: after writing the new fitness
    into slot generation % sample, the criterion answers true exactly when the window is full (generation >= sample-1)
    and the cv of EVERY objective over the window is not above the threshold; the columns handed to `get_cv` are
    exactly the window's components of that objective (checked structurally)."""
    import drivers
    from symex import FV, VecV
    name = f'min_variation[sample={sample},objectives={n_obj}]'
    res = Result(name)
    res.bounds = (f'sample window of {sample} generations, {n_obj} objectives, generation = 0..{2 * sample} (every residue and both sides of the warm-up); window contents, new '
                  f'fitness, threshold and the cv of each column symbolic (get_cv uninterpreted; its arithmetic - mean, deviation, division - is not decided)')
    t0 = time.time()
    cands = [f for n, f in ctx.prog.functions.items() if n.endswith('::update_and_check') and 'min_variation' in n]
    if len(cands) != 1:
        raise Inconclusive(f'MinVariation::update_and_check not found ({len(cands)})')
    fn = cands[0]

    for generation in range(0, 2 * sample + 1):
        class Env(drivers.Env):
            def override(self, engine, st, callee, args, dest_ty):
                if callee.endswith('HeuristicContext>::statistics'):
                    order = self.layout.fields('HeuristicStatistics')
                    fields = [Opaque(f) for f in order]
                    fields[order.index('generation')] = IV(generation)
                    return RefV(Cell(Agg('struct', fields, 'HeuristicStatistics')), 0)
                if 'Stateful>::state_mut' in callee or callee.endswith('::state_mut'):
                    return RefV(Cell(self.window), 0, True)
                if callee.split('::<')[0].endswith('get_cv'):
                    col = [x for x in deref_all(args[0]).items]
                    j = len(self.cv_calls)
                    self.cv_calls.append(col)
                    return FV(False, z3.Int(f'cv_{j}'))
                if 'collect_group_by' in callee:
                    it = iterator_method(engine, st, 'into_iter', [args[0]], '')
                    groups = {}
                    for tup in it.items:
                        k = tup.fields[0].concrete()
                        groups.setdefault(k, []).append(tup.fields[1])
                    return VecV([Agg('tuple', [IV(k), VecV(v)], '') for k, v in sorted(groups.items())])
                return super().override(engine, st, callee, args, dest_ty)

        from models import iterator_method
        env = Env(ctx.prog, ctx.layout, 16)
        env.type_subst = {}
        eng = symex.Engine(ctx.prog, ctx.layout, env)
        holder = {}

        def body(st, env=env, eng=eng, holder=holder):
            env.assumptions.clear()
            env.cv_calls = []
            window = [[env.sym_f(f'w{i}_{j}', 0, 2 ** 16) for j in range(n_obj)] for i in range(sample)]
            env.window = VecV([VecV(list(row)) for row in window])
            fitness = [env.sym_f(f'fit_{j}', 0, 2 ** 16) for j in range(n_obj)]
            thr = env.sym_f('threshold', 0, 2 ** 16)
            for j in range(n_obj):
                env.assumptions.append(z3.And(z3.Int(f'cv_{j}') >= 0, z3.Int(f'cv_{j}') <= 2 ** 16))
            order = ctx.layout.fields('min_variation::MinVariation')
            fields = [UnitV() for _ in order]
            fields[order.index('interval_type')] = EnumV('min_variation::IntervalType', 0, {0: [IV(sample)]})
            fields[order.index('threshold')] = thr
            fields[order.index('is_global')] = BV(True)
            fields[order.index('key')] = Opaque('key')
            me = Agg('struct', fields, 'min_variation::MinVariation')
            holder.update(window=window, fitness=fitness, thr=thr)
            try:
                return eng.exec_fn(st, fn, [RefV(Cell(me), 0), RefV(Cell(Opaque('ctx')), 0, True), VecV(list(fitness))])
            finally:
                st.user_cv_calls = [list(c) for c in env.cv_calls]

        def canonical_case(model, generation):
            """A concrete window that realises the model's pattern 'cv of column j within the threshold?' with real numbers: calm columns are
            constant, wild ones alternate 1 / 1000; the slot that the step must overwrite holds a value that flips the column if it stays."""
            calm = [not z3.is_true(model.eval(z3.Int(f'cv_{j}') > holder['thr'].v, model_completion=True)) for j in range(n_obj)]
            if sample == 1 and not all(calm):
                return None          # a one-element column has no variation: the pattern cannot be realised
            slot = generation % sample
            post = [[10.0 if calm[j] else (1.0 if i % 2 == 0 else 1000.0) for j in range(n_obj)] for i in range(sample)]
            pre = [list(r) for r in post]
            pre[slot] = [77777.0 if calm[j] else post[(slot + 1) % sample][j] for j in range(n_obj)]
            return {'kind': 'min_variation', 'sample': sample, 'generation': generation, 'window': pre, 'fitness': post[slot], 'threshold': 0.5}

        paths = eng.explore(body)
        res.paths += len(paths)
        res.functions |= eng.functions_used
        for st, out in paths:
            if out is None:
                if not no_panic(ctx, res, env, st, what=name):
                    break
                continue
            window, fitness, thr = holder['window'], holder['fitness'], holder['thr']
            slot = generation % sample
            post = [fitness if i == slot else window[i] for i in range(sample)]
            full = generation >= sample - 1
            calls = st.user_cv_calls
            if full:
                # the columns evaluated on this path are a prefix of the objectives (the fold stops at the first cv above the threshold)
                ok_struct = all(len(c) == sample and all(zs(c[i].v).eq(zs(post[i][j].v)) for i in range(sample)) for j, c in enumerate(calls)) and len(calls) <= n_obj
                if not ok_struct:
                    res.status, res.detail = 'violated', f'{name}: generation {generation}: get_cv was not called on the window columns (calls: {calls})'
                    res.counterexample = {'what': res.detail}
                    break
                rule = z3.And(*[z3.Not(z3.Int(f'cv_{j}') > thr.v) for j in range(n_obj)])
                # cv symbols of columns that were not evaluated on this path are unconstrained by the path: the claim quantifies over them
                claim = out.t == (rule if len(calls) == n_obj else z3.BoolVal(False))
                if len(calls) < n_obj:
                    # stopped early: the last evaluated column is above the threshold
                    claim = z3.And(z3.Not(out.t), z3.Int(f'cv_{len(calls) - 1}') > thr.v) if calls else z3.BoolVal(False)
            else:
                claim = z3.And(z3.Not(out.t), z3.BoolVal(len(calls) == 0))
            if not decide_claim(ctx, res, env, st, claim, what=f'{name}: generation {generation}: fires <=> window full and every cv <= threshold'):
                if res.status == 'violated' and res.model is not None:
                    res.case = canonical_case(res.model, generation)
                break
            if not no_panic(ctx, res, env, st, what=name):
                break
            res.witnesses += int(witness(ctx, res, env, st, out.t))
        if res.status != 'holds':
            break
    if res.status == 'holds' and res.witnesses == 0:
        res.status, res.detail = 'inconclusive', 'vacuous: the criterion never fires'
    res.time = time.time() - t0
    return res


# ---------------------------------------------------------------------------------------------------------------------
# C08 / C19: the phase step of the self-organising population

def ob_rosomaxa_phase(ctx, sizes=(2, 3, 4, 8)):
    """C08 (selection returns something whenever the population is non-empty) / C19 (phases only move forward): the part of
    `Rosomaxa::update_phase` (real MIR, bit-precise IEEE for the scaling by the speed ratio) that does not touch the network -
    from the Initial phase (not enough individuals yet, or the exploration phase is skipped) and from the Exploitation phase -
    for every configured selection size in 2..=64 (what `Rosomaxa::new` admits), every speed (unknown / slow with any ratio in
    (0,1] / moderate) and every termination estimate in [0,1]: the phase never moves backwards, and an Exploitation phase is
    always entered / left with a selection size of at least 1 (at most the configured one when entered; 2..=4 afterwards)."""
    from symex import DynV
    name = 'rosomaxa_phase'
    res = Result(name)
    res.bounds = (f'selection size in {tuple(sizes)} (case split), initial size 4, exploration ratio and termination estimate any doubles in [0,1], speed unknown / moderate / slow with ratio any double in (0,1]; '
                  'phases Initial (0 individuals) and Exploitation (previous selection size 1..=64); the Exploration phase (network) is outside')
    t0 = time.time()
    fns = ctx.prog.find_method('Rosomaxa', 'update_phase')
    if len(fns) != 1:
        raise Inconclusive('Rosomaxa::update_phase not found')
    cfg_order = ctx.layout.fields('RosomaxaConfig')
    st_order = ctx.layout.fields('HeuristicStatistics')
    env_order = ctx.layout.fields('Environment')
    me_order = ctx.layout.fields('Rosomaxa')

    class Env(IeeeEnv):
        def dyn_closure(self, engine, st, tag, args):
            if tag == 'logger':
                return UnitV()
            return super().dyn_closure(engine, st, tag, args)

    # size = configured selection size (Initial) / previous selection size (Exploitation); both case-split concretely
    cases = [('initial', sp, n) for n in sizes for sp in ('unknown', 'slow', 'moderate')] + [('exploitation', 'slow', n) for n in (1, 2, 4, 7, 64)]
    for _once in (0,):
        for phase, speed, size in cases:
            env = Env(ctx.prog, ctx.layout)
            eng = symex.Engine(ctx.prog, ctx.layout, env, solver_timeout_ms=60000)
            holder = {}

            def body(st, env=env, eng=eng, phase=phase, speed=speed, holder=holder, size=size):
                env.assumptions.clear()
                # the configured size is case-split concretely (int -> double conversion of a symbolic integer does not come back from the FP solver)
                sel = z3.IntVal(size if phase == 'initial' else 8)
                old = z3.IntVal(size)
                ratio = env.sym_fp('speed_ratio', finite=True)
                expl = env.sym_fp('exploration_ratio', finite=True)
                est = env.sym_fp('termination_estimate', finite=True)
                zero, one = z3.FPVal(0.0, F64), z3.FPVal(1.0, F64)
                env.assumptions.extend([z3.fpGT(ratio.t, zero), z3.fpLEQ(ratio.t, one), z3.fpGEQ(expl.t, zero), z3.fpLEQ(expl.t, one),
                                        z3.fpGEQ(est.t, zero), z3.fpLEQ(est.t, one)])
                cfg = [Opaque(f) for f in cfg_order]
                cfg[cfg_order.index('selection_size')] = IV(sel)
                cfg[cfg_order.index('initial_size')] = IV(4)
                cfg[cfg_order.index('exploration_ratio')] = expl
                config = Agg('struct', cfg, 'RosomaxaConfig')
                sv = {'unknown': EnumV('HeuristicSpeed', 0, {}),
                      'slow': EnumV('HeuristicSpeed', 1, {1: [ratio, FP(z3.FPVal(1.0, F64)), mk_option(False, ty='Option<usize>')]}),
                      'moderate': EnumV('HeuristicSpeed', 2, {2: [FP(z3.FPVal(1.0, F64)), mk_option(False, ty='Option<usize>')]})}[speed]
                stf = [Opaque(f) for f in st_order]
                stf[st_order.index('speed')] = sv
                stf[st_order.index('termination_estimate')] = est
                stf[st_order.index('generation')] = IV(7)
                statistics = Agg('struct', stf, 'HeuristicStatistics')
                ef = [Opaque(f) for f in env_order]
                ef[env_order.index('logger')] = ArcV(Cell(DynV('logger')))
                environment = ArcV(Cell(Agg('struct', ef, 'Environment')))
                ph = EnumV('RosomaxaPhases', 0, {0: [VecV([])]}) if phase == 'initial' else EnumV('RosomaxaPhases', 2, {2: [IV(old)]})
                mf = [Opaque(f) for f in me_order]
                mf[me_order.index('environment')] = environment
                mf[me_order.index('config')] = config
                mf[me_order.index('phase')] = ph
                me = Cell(Agg('struct', mf, 'Rosomaxa'))
                eng.exec_fn(st, fns[0], [RefV(me, 0, True), RefV(Cell(statistics), 0)])
                holder.update(sel=sel, old=old, ratio=ratio, est=est, expl=expl)
                return me.v.fields[me_order.index('phase')]

            paths = eng.explore(body)
            res.paths += len(paths)
            res.functions |= eng.functions_used
            for st, out in paths:
                if out is None:
                    if not no_panic(ctx, res, env, st, what=name):
                        break
                    continue
                v = out.variant()
                if v is None:
                    res.status, res.detail = 'inconclusive', 'symbolic phase'
                    break
                sel, old = holder['sel'], holder['old']
                if phase == 'exploitation':
                    ok = v == 2
                    claim = z3.And(out.payload[2][0].t >= 2, out.payload[2][0].t <= 4) if ok else z3.BoolVal(False)
                else:
                    ok = v in (0, 2)          # no network is built with zero individuals; never "backwards"
                    claim = z3.BoolVal(ok) if v != 2 else z3.And(out.payload[2][0].t >= 1, out.payload[2][0].t <= sel)
                if not decide_claim(ctx, res, env, st, claim, what=f'{name}: from {phase}, speed {speed}: phase only forward, selection size of Exploitation >= 1'):
                    if res.status == 'violated' and res.model is not None:
                        m = res.model
                        fpv = lambda x: float(eval(str(m.eval(x.t, model_completion=True)).replace('*(2**', '*(2.0**'))) if False else str(m.eval(x.t, model_completion=True))
                        res.case = {'kind': 'rosomaxa_phase', 'phase': phase, 'speed': speed, 'selection_size': m.eval(sel, model_completion=True).as_long(),
                                    'previous_selection_size': m.eval(old, model_completion=True).as_long(),
                                    'ratio_bits': m.eval(z3.fpToIEEEBV(holder['ratio'].t), model_completion=True).as_long(),
                                    'estimate_bits': m.eval(z3.fpToIEEEBV(holder['est'].t), model_completion=True).as_long(),
                                    'exploration_bits': m.eval(z3.fpToIEEEBV(holder['expl'].t), model_completion=True).as_long()}
                    break
                if not no_panic(ctx, res, env, st, what=name):
                    break
                res.witnesses += int(witness(ctx, res, env, st, z3.BoolVal(True)))
            if res.status != 'holds':
                break
        if res.status != 'holds':
            break
    if res.status == 'holds' and res.witnesses == 0:
        res.status, res.detail = 'inconclusive', 'vacuous'
    res.time = time.time() - t0
    return res
