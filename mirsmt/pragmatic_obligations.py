"""MIR->SMT obligations over vrp-pragmatic (executed together with the MIR of vrp-core: cross-crate calls switch engines).

C03: the per-activity step of the statistics fold inside `create_tour` (solution_writer.rs) - the closure that turns
(accumulated leg, next activity) into the next accumulated leg, and pushes the stop / activity records."""
import re
import time

import z3

import drivers
import layout as layout_mod
import mir
import symex
from core_obligations import Result, decide_claim, no_panic, witness, _ev_int, _ev_f, _func_table
from models import deref_all, mk_option
from smt import Decider
from symex import Agg, ArcV, BV, Cell, DynV, EnumV, FV, IV, Inconclusive, Opaque, RefV, StateV, UnitV, VecV, zs


class PCtx:
    """Program pair (vrp-pragmatic + vrp-core), merged layout, decider."""

    def __init__(self, fresh=True):
        self.core = mir.load('vrp-core', fresh=fresh)
        self.prog = mir.load('vrp-pragmatic', fresh=fresh)
        self.layout = layout_mod.Layout(['vrp-pragmatic', 'vrp-core'])
        self.decider = Decider()

    def engines(self, env):
        env.progs = [self.prog, self.core]
        e_p = symex.Engine(self.prog, self.layout, env)
        e_c = symex.Engine(self.core, self.layout, env)
        e_p.siblings = {'vrp_core': e_c}
        e_c.siblings = {'vrp_core': e_c, 'vrp_pragmatic': e_p}     # closures of the other crate are executed by its engine
        return e_p, e_c


def captures_by_name(fn):
    """closure environment: captured variable name -> field index, from the `debug name => (*((*_1).N: ..` lines."""
    out = {}
    for line in fn.raw:
        m = re.match(r'^\s*debug (\w+) => \(?\*?\(\(?\*?_1\)?\.(\d+):', line)
        if m:
            out[m.group(1)] = int(m.group(2))
    return out


ACTIVITY_KINDS = ('service', 'pickup', 'delivery', 'break', 'arrival')


def ob_writer_step(ctx, kind, dims=1):
    """C03: one step of the statistics fold of `create_tour` (real MIR of the closure, `calculate_load`, `get_capacity`,
    `format_schedule`; `MultiDimLoad` arithmetic, `Commute`, `TransportCost::cost`, `ActivityCost::cost` from the MIR of
    vrp-core) from an ARBITRARY accumulated leg (symbolic statistic, load, previous location and departure) and an
    arbitrary next activity of the given kind: the new statistic is the old one plus exactly the leg's distance, the time
    from the previous departure to this departure, driving = routing duration, serving = service time (break time for a
    break), waiting = max(window start - arrival, 0), cost = transport cost + serving cost + waiting cost (vehicle and driver
    rates); the load after the activity is the load before minus deliveries plus pickups (per dimension; an arrival starts
    from zero); the activity record carries the interval [max(arrival, window start), that + service time]; the running
    location / departure are those of the activity."""
    name = f'writer_step[{kind},dims={dims}]'
    res = Result(name)
    res.bounds = (f'one fold step from a symbolic accumulated leg; activity kind {kind}; {dims} load dimension(s), amounts in [0,2^14]; times/distances '
                  f'integer-valued in [0,2^16]; cost rates: symbolic integers in [0,2^8] (vehicle and driver); no commute (clustering), no parking; '
                  f'the previous stop is at another location or the same (both)')
    t0 = time.time()
    fn = ctx.prog.functions.get('create_tour::{closure#1}::{closure#2}')
    if fn is None or '_2: Leg' not in fn.header.replace('format::solution::solution_writer::', ''):
        cands = [f for n, f in ctx.prog.functions.items() if n.startswith('create_tour::') and re.search(r'_2: (?:[\w:]*::)?Leg, _3: &[\w:]*Activity\) -> (?:[\w:]*::)?Leg', f.header)]
        if len(cands) != 1:
            raise Inconclusive('the statistics step closure of create_tour was not found')
        fn = cands[0]
    caps = captures_by_name(fn)
    need = {'start', 'transport', 'route', 'vehicle', 'parking', 'problem', 'tour__stops', 'coord_index'}
    if set(caps) != need:
        raise Inconclusive(f'captures of the step closure changed: {sorted(caps)}')

    class Env(drivers.Env):
        def override(self, engine, st, callee, args, dest_ty):
            base = callee.split('::<')[0]
            if base.endswith('format_time'):
                return Agg('struct', [args[0]], 'FormattedTime')
            if base.endswith('CoordIndex::get_by_idx'):
                return mk_option(True, EnumV('format::Location', 1, {1: [args[1]]}), ty=dest_ty)      # Location::Reference { index }
            if base.endswith('get_job_tag'):
                return mk_option(False, ty=dest_ty)
            if base.endswith('from_elem'):
                n = args[1].concrete()
                if n is None:
                    raise Inconclusive('vec![x; n] with symbolic n')
                return VecV([symex.copy_value(args[0]) for _ in range(n)])
            return super().override(engine, st, callee, args, dest_ty)

        def default_of(self, engine, ty):
            base = re.sub(r'<.*$', '', ty).split('::')[-1]
            if base == 'Demand':
                z = lambda: mdl([0] * 8, 0)
                return self.struct('load::Demand', pickup=Agg('tuple', [z(), z()], ''), delivery=Agg('tuple', [z(), z()], ''))
            if base == 'Commute':
                info = lambda: self.struct('route::CommuteInfo', location=IV(0), distance=FV.const(0), duration=FV.const(0))
                return self.struct('route::Commute', forward=info(), backward=info())
            if base == 'MultiDimLoad':
                return mdl([0] * 8, 0)
            return super().default_of(engine, ty)

    env = Env(ctx.prog, ctx.layout, 16)
    env.allow_negative_matrix = False
    eng, _core_eng = ctx.engines(env)

    def mdl(vals, size):
        return env.struct('load::MultiDimLoad', load=Agg('array', [v if isinstance(v, IV) else IV(v, 'i32') for v in vals], '[i32; 8]'), size=IV(size))

    holder = {}

    def body(st):
        env.assumptions.clear()
        S = lambda n, hi=None: env.sym_f(n, 0, hi)
        I = lambda n, hi=2 ** 14: env.sym_i(n, 0, hi, 'i32')
        # accumulated leg
        stat = {k: env.sym_i('acc_' + k, 0, 2 ** 24, 'i64') for k in ('distance', 'duration', 'driving', 'serving', 'waiting', 'break_time', 'commuting', 'parking')}
        acc_cost = S('acc_cost', 2 ** 24)
        timing = env.struct('model::Timing', **{k: stat[k] for k in ('driving', 'serving', 'waiting', 'break_time', 'commuting', 'parking')})
        statistic = env.struct('model::Statistic', cost=acc_cost, distance=stat['distance'], duration=stat['duration'], times=timing)
        prev_loc = env.sym_i('prev_loc', 0, 1000)
        prev_dep = S('prev_dep')
        load_before = [I(f'load{d}', 2 ** 15) for d in range(dims)]
        leg = env.struct('solution_writer::Leg',
                         last_detail=mk_option(True, Agg('tuple', [prev_loc, prev_dep], ''), ty='Option<(usize, f64)>'),
                         load=mk_option(True, mdl(load_before + [IV(0, 'i32')] * (8 - dims), dims), ty='Option<MultiDimLoad>'),
                         statistic=statistic)
        # the activity
        loc = env.sym_i('loc', 0, 1000)
        dur, tws, twe = S('dur'), S('tws'), env.sym_f_or_max('twe')
        arr = S('arr')
        dep = S('dep')
        # the schedule is the one produced by update_route_schedule (C03 sched_state_stats): arrival = previous departure + routing
        # duration, departure = max(arrival, window start) + service time
        env.assumptions.append(arr.v == prev_dep.v + env.Dur(prev_loc.t, loc.t))
        env.assumptions.append(dep.v == z3.If(arr.v > tws.v, arr.v, tws.v) + dur.v)
        pick = [I(f'pick{d}') for d in range(dims)]
        deli = [I(f'deli{d}') for d in range(dims)]
        zero_l = lambda: mdl([0] * 8, 0)
        dimens = {}
        if kind != 'arrival':
            dimens['job_type'] = Opaque(f'"{kind}"')
            dimens['job_id'] = Opaque('"job1"')
        if kind == 'pickup':
            dimens['job_demand'] = env.struct('load::Demand', pickup=Agg('tuple', [mdl(pick + [IV(0, 'i32')] * (8 - dims), dims), zero_l()], ''), delivery=Agg('tuple', [zero_l(), zero_l()], ''))
        if kind == 'delivery':
            dimens['job_demand'] = env.struct('load::Demand', pickup=Agg('tuple', [zero_l(), zero_l()], ''), delivery=Agg('tuple', [mdl(deli + [IV(0, 'i32')] * (8 - dims), dims), zero_l()], ''))
        single = ArcV(Cell(env.struct('jobs::Single', places=VecV([]), dimens=StateV(dimens))))
        act = env.activity(loc, dur, tws, twe, arr, dep, has_job=(kind != 'arrival'), job=single if kind != 'arrival' else None)
        # environment of the closure
        vc = {k: env.sym_f('v_' + k, 0, 2 ** 8) for k in ('fixed', 'per_distance', 'per_driving_time', 'per_waiting_time', 'per_service_time')}
        dc = {k: env.sym_f('d_' + k, 0, 2 ** 8) for k in ('fixed', 'per_distance', 'per_driving_time', 'per_waiting_time', 'per_service_time')}
        actor = env.actor(IV(0), FV.const(0), IV(0), FV.const(100000), vehicle_costs=env.costs(**vc), driver_costs=env.costs(**dc))
        start = env.activity(IV(0), FV.const(0), FV.const(0), FV.max_value(), FV.const(0), FV.const(0), has_job=False)
        route = env.struct('route::Route', actor=actor, tour=Opaque('tour'))
        po = ctx.layout.fields('domain::Problem')
        problem = Agg('struct', [ArcV(Cell(DynV('activity'))) if f == 'activity' else Opaque(f) for f in po], 'domain::Problem')
        # the stop the previous activity belongs to
        prev_stop = EnumV('model::Stop', 0, {0: [env.struct('model::PointStop', location=EnumV('format::Location', 1, {1: [prev_loc]}),
                                                            time=env.struct('model::Schedule', arrival=Opaque('"t0"'), departure=Opaque('"t1"')),
                                                            distance=stat['distance'], load=VecV([]), parking=mk_option(False, ty='Option<Interval>'),
                                                            activities=VecV([Opaque('previous activity')]))]})
        stops = VecV([prev_stop])
        vehicle = actor.cell.v.fields[ctx.layout.fields('fleet::Actor').index('vehicle')]
        cap = [None] * 8
        cap[caps['start']] = RefV(Cell(start), 0)
        cap[caps['transport']] = env.dyn_transport()
        cap[caps['route']] = RefV(Cell(route), 0)
        cap[caps['vehicle']] = RefV(vehicle.cell, 0)
        cap[caps['parking']] = RefV(Cell(FV.const(0)), 0)
        cap[caps['problem']] = RefV(Cell(problem), 0)
        cap[caps['tour__stops']] = RefV(Cell(stops), 0, True)
        cap[caps['coord_index']] = RefV(Cell(Opaque('coord_index')), 0)
        closure = Agg('closure', cap, 'step', fn_name='step')
        holder.update(stat=stat, acc_cost=acc_cost, prev_loc=prev_loc, prev_dep=prev_dep, load_before=load_before, loc=loc, dur=dur, tws=tws, twe=twe,
                      arr=arr, dep=dep, pick=pick, deli=deli, vc=vc, dc=dc, stops=stops)
        out = eng.exec_fn(st, fn, [RefV(Cell(closure), 0, True), leg, RefV(Cell(act), 0)])
        st.user_stops = stops
        return out

    paths = eng.explore(body, max_paths=4000)
    res.paths = len(paths)
    res.functions |= eng.functions_used
    saw = set()
    for st, out in paths:
        h = holder
        dur_leg = env.Dur(h['prev_loc'].t, h['loc'].t)
        dist_leg = env.Dist(h['prev_loc'].t, h['loc'].t)
        dom = [z3.And(dur_leg >= 0, dur_leg <= env.bound, dist_leg >= 0, dist_leg <= env.bound)]
        if out is None:
            if not no_panic(ctx, res, env, st, dom, what=name):
                break
            continue
        F = lambda agg, ty, f: env.field(agg, ty, f)
        stat_o = F(out, 'solution_writer::Leg', 'statistic')
        times_o = F(stat_o, 'model::Statistic', 'times')
        waiting = z3.If(h['tws'].v > h['arr'].v, h['tws'].v - h['arr'].v, 0)
        is_break = kind == 'break'
        vc, dc = h['vc'], h['dc']
        service_rate = lambda c: c['per_service_time'].v
        transport_cost = (vc['per_distance'].v + dc['per_distance'].v) * dist_leg + (vc['per_driving_time'].v + dc['per_driving_time'].v) * dur_leg
        serving_cost = (service_rate(vc) + service_rate(dc)) * h['dur'].v
        waiting_cost = vc['per_waiting_time'].v * waiting
        claims = [
            F(stat_o, 'model::Statistic', 'distance').t == h['stat']['distance'].t + dist_leg,
            F(stat_o, 'model::Statistic', 'duration').t == h['stat']['duration'].t + h['dep'].v - h['prev_dep'].v,
            F(times_o, 'model::Timing', 'driving').t == h['stat']['driving'].t + dur_leg,
            F(times_o, 'model::Timing', 'serving').t == h['stat']['serving'].t + (0 if is_break else h['dur'].v),
            F(times_o, 'model::Timing', 'break_time').t == h['stat']['break_time'].t + (h['dur'].v if is_break else 0),
            F(times_o, 'model::Timing', 'waiting').t == h['stat']['waiting'].t + waiting,
            F(times_o, 'model::Timing', 'commuting').t == h['stat']['commuting'].t,
            F(times_o, 'model::Timing', 'parking').t == h['stat']['parking'].t,
            z3.Not(F(stat_o, 'model::Statistic', 'cost').m),
            F(stat_o, 'model::Statistic', 'cost').v == h['acc_cost'].v + transport_cost + serving_cost + waiting_cost,
        ]
        # running location / departure
        last = F(out, 'solution_writer::Leg', 'last_detail')
        tup = last.payload[1][0]
        claims += [last.discr == 1, tup.fields[0].t == h['loc'].t, tup.fields[1].v == h['dep'].v]
        # load after the activity
        load_o = F(out, 'solution_writer::Leg', 'load').payload[1][0]
        arr_o = F(load_o, 'load::MultiDimLoad', 'load').fields
        for d in range(dims):
            before = h['load_before'][d].t if kind != 'arrival' else 0
            claims.append(arr_o[d].t == before + (h['pick'][d].t if kind == 'pickup' else 0) - (h['deli'][d].t if kind == 'delivery' else 0))
        # records: the activity lands on the last stop, with its service interval; a new stop iff the location changed
        stops = st.user_stops.items
        same_loc = h['prev_loc'].t == h['loc'].t
        if len(stops) not in (1, 2):
            res.status, res.detail = 'violated', f'{name}: {len(stops)} stops after one step'
            break
        claims.append(z3.BoolVal(len(stops) == 1) == same_loc)
        point = stops[-1].payload[0][0]
        acts = F(point, 'model::PointStop', 'activities').items
        rec = acts[-1]
        interval = F(rec, 'model::Activity', 'time').payload[1][0]
        start_t = F(interval, 'model::Interval', 'start').fields[0]
        end_t = F(interval, 'model::Interval', 'end').fields[0]
        service_start = z3.If(h['arr'].v > h['tws'].v, h['arr'].v, h['tws'].v)
        claims += [start_t.v == service_start, end_t.v == service_start + h['dur'].v]
        dep_rec = F(F(point, 'model::PointStop', 'time'), 'model::Schedule', 'departure').fields[0]
        claims.append(dep_rec.v == h['dep'].v)
        if len(stops) == 2:
            claims.append(F(point, 'model::PointStop', 'distance').t == h['stat']['distance'].t + dist_leg)
        type_rec = F(rec, 'model::Activity', 'activity_type')
        if not (isinstance(type_rec, Opaque) and type_rec.name == f'"{kind}"'):
            res.status, res.detail = 'violated', f'{name}: activity recorded with type {type_rec!r}'
            break
        if not decide_claim(ctx, res, env, st, z3.And(*claims), dom, what=f'{name}: statistic, load and records after the step == reference'):
            if res.status == 'violated' and res.model is not None:
                m = res.model
                ev = lambda x: _ev_int(m, x)
                dur_t, dur_d = _func_table(m, env.Dur)
                dist_t, dist_d = _func_table(m, env.Dist)
                res.case = {'kind': 'writer_step', 'activity_kind': kind, 'dims': dims,
                            'prev_loc': ev(h['prev_loc'].t), 'loc': ev(h['loc'].t), 'prev_dep': ev(h['prev_dep'].v),
                            'dur': ev(h['dur'].v), 'tws': ev(h['tws'].v), 'twe': _ev_f(m, h['twe']), 'arr': ev(h['arr'].v),
                            'pick': [ev(x.t) for x in h['pick']], 'deli': [ev(x.t) for x in h['deli']],
                            'vehicle_costs': {k: ev(v.v) for k, v in vc.items()}, 'driver_costs': {k: ev(v.v) for k, v in dc.items()},
                            'leg_dur': ev(dur_leg), 'leg_dist': ev(dist_leg)}
            break
        if not no_panic(ctx, res, env, st, dom, what=name):
            break
        if witness(ctx, res, env, st, same_loc, dom):
            saw.add('same stop')
        if witness(ctx, res, env, st, z3.And(z3.Not(same_loc), waiting > 0), dom):
            saw.add('new stop with waiting')
    if res.status == 'holds':
        res.witnesses = len(saw)
        if len(saw) < 2:
            res.status, res.detail = 'inconclusive', f'vacuous: {saw}'
    res.time = time.time() - t0
    return res


def ob_writer_tour(ctx, kinds, dims=1, rates=(7, 3, 2, 5, 4)):
    """C03: the complete `create_tour` (real MIR: interval fold, departure stop, statistics fold, final clean-up pass) on a
    closed tour whose job activities have the given kinds, with the schedule of the forward simulation: the reported
    per-tour statistic equals the recomputation from routing data, vehicle costs and the visiting order (distance, duration,
    driving / serving / waiting / break split, cost incl. the fixed cost); every stop reports the cumulative distance and
    the load on board after it (initial load = sum of static deliveries, then -delivery +pickup per activity; the
    arrival at the end reports what is left = the static pickups)."""
    k = len(kinds)
    name = f'writer_tour[{",".join(kinds) or "empty"},dims={dims},rates={"/".join(map(str, rates))}]'
    res = Result(name)
    res.bounds = (f'closed tour start + {k} job activities ({", ".join(kinds)}) + end, all at pairwise different locations; {dims} load dimension(s), amounts in '
                  f'[0,2^14]; times/distances integer-valued in [0,2^16]; cost rates (fixed, distance, driving, waiting, service) = {rates}; no reloads, breaks only as job kind, '
                  f'no clustering (commute/parking), no reserved times')
    t0 = time.time()
    fn = ctx.prog.find_free('create_tour')

    class Env(drivers.Env):
        def override(self, engine, st, callee, args, dest_ty):
            base = callee.split('::<')[0]
            if base.endswith('format_time'):
                return Agg('struct', [args[0]], 'FormattedTime')
            if base.endswith('CoordIndex::get_by_idx'):
                return mk_option(True, EnumV('format::Location', 1, {1: [args[1]]}), ty=dest_ty)      # Location::Reference { index }
            if base.endswith('CoordIndex::get_by_loc'):
                return mk_option(True, deref_all(args[1]).payload[1][0], ty=dest_ty)
            if base.endswith('get_job_tag'):
                return mk_option(False, ty=dest_ty)
            if base.endswith('get_parking_time'):
                return FV.const(0)
            if base.endswith('insert_reserved_times_as_breaks'):
                return UnitV()
            if base.endswith('from_elem'):
                n = args[1].concrete()
                if n is None:
                    raise Inconclusive('vec![x; n] with symbolic n')
                return VecV([symex.copy_value(args[0]) for _ in range(n)])
            return super().override(engine, st, callee, args, dest_ty)

        def default_of(self, engine, ty):
            base = re.sub(r'<.*$', '', ty).split('::')[-1]
            if base == 'Demand':
                z = lambda: mdl([0] * 8, 0)
                return self.struct('load::Demand', pickup=Agg('tuple', [z(), z()], ''), delivery=Agg('tuple', [z(), z()], ''))
            if base == 'Commute':
                info = lambda: self.struct('route::CommuteInfo', location=IV(0), distance=FV.const(0), duration=FV.const(0))
                return self.struct('route::Commute', forward=info(), backward=info())
            if base == 'MultiDimLoad':
                return mdl([0] * 8, 0)
            if base == 'Statistic':
                z = lambda: IV(0, 'i64')
                return self.struct('model::Statistic', cost=FV.const(0), distance=z(), duration=z(),
                                   times=self.struct('model::Timing', driving=z(), serving=z(), waiting=z(), break_time=z(), commuting=z(), parking=z()))
            return super().default_of(engine, ty)

    env = Env(ctx.prog, ctx.layout, 16)
    eng, _ = ctx.engines(env)

    def mdl(vals, size):
        return env.struct('load::MultiDimLoad', load=Agg('array', [v if isinstance(v, IV) else IV(v, 'i32') for v in vals], '[i32; 8]'), size=IV(size))

    holder = {}

    def body(st):
        env.assumptions.clear()
        S = lambda n, hi=None: env.sym_f(n, 0, hi)
        I = lambda n, hi=2 ** 14: env.sym_i(n, 0, hi, 'i32')
        zero_l = lambda: mdl([0] * 8, 0)
        locs = [env.sym_i(f'loc{i}', 0, 1000) for i in range(k + 2)]
        for i in range(k + 2):
            for j in range(i + 1, k + 2):
                env.assumptions.append(locs[i].t != locs[j].t)
        dep0 = S('dep0')
        nodes = [{'loc': locs[0], 'dur': FV.const(0), 'tws': FV.const(0), 'arr': dep0, 'dep': dep0}]
        acts = [env.activity(locs[0], FV.const(0), FV.const(0), FV.max_value(), dep0, dep0, has_job=False)]
        demands = []
        for i, kind in enumerate(kinds, start=1):
            dur, tws, arr, dep = S(f'dur{i}'), S(f'tws{i}'), S(f'arr{i}'), S(f'dep{i}')
            prev = nodes[-1]
            env.assumptions.append(arr.v == prev['dep'].v + env.Dur(prev['loc'].t, locs[i].t))
            env.assumptions.append(dep.v == z3.If(arr.v > tws.v, arr.v, tws.v) + dur.v)
            pick = [I(f'pick{i}_{d}') for d in range(dims)]
            deli = [I(f'deli{i}_{d}') for d in range(dims)]
            dimens = {'job_type': Opaque(f'"{kind}"'), 'job_id': Opaque(f'"job{i}"')}
            pad = [IV(0, 'i32')] * (8 - dims)
            if kind == 'pickup':
                dimens['job_demand'] = env.struct('load::Demand', pickup=Agg('tuple', [mdl(pick + pad, dims), zero_l()], ''), delivery=Agg('tuple', [zero_l(), zero_l()], ''))
            if kind == 'delivery':
                dimens['job_demand'] = env.struct('load::Demand', pickup=Agg('tuple', [zero_l(), zero_l()], ''), delivery=Agg('tuple', [mdl(deli + pad, dims), zero_l()], ''))
            demands.append((kind, pick, deli))
            single = ArcV(Cell(env.struct('jobs::Single', places=VecV([]), dimens=StateV(dimens))))
            acts.append(env.activity(locs[i], dur, tws, FV.max_value(), arr, dep, job=single))
            nodes.append({'loc': locs[i], 'dur': dur, 'tws': tws, 'arr': arr, 'dep': dep, 'kind': kind})
        arr_e = S('arr_end')
        prev = nodes[-1]
        env.assumptions.append(arr_e.v == prev['dep'].v + env.Dur(prev['loc'].t, locs[k + 1].t))
        acts.append(env.activity(locs[k + 1], FV.const(0), FV.const(0), FV.max_value(), arr_e, arr_e, has_job=False))
        nodes.append({'loc': locs[k + 1], 'dur': FV.const(0), 'tws': FV.const(0), 'arr': arr_e, 'dep': arr_e, 'kind': 'arrival'})
        # concrete, pairwise different rates (the cost is linear in the rates; symbolic rates x symbolic sums is non-linear)
        vc = {key: FV.const(r) for key, r in zip(('fixed', 'per_distance', 'per_driving_time', 'per_waiting_time', 'per_service_time'), rates)}
        zero_costs = {key: FV.const(0) for key in vc}      # the pragmatic format has no driver costs
        vdim = StateV({'vehicle_id': Opaque('"v1"'), 'vehicle_type': Opaque('"type1"'), 'shift_index': IV(0)})
        actor = env.actor(locs[0], FV.const(0), locs[k + 1], FV.const(100000), vehicle_costs=env.costs(**vc), driver_costs=env.costs(**zero_costs), dimens=vdim)
        tour = env.struct('solution::tour::Tour', activities=VecV(acts), jobs=symex.SetV(k), is_closed=BV(True))
        route = env.struct('route::Route', actor=actor, tour=tour)
        po = ctx.layout.fields('domain::Problem')
        problem = Agg('struct', [ArcV(Cell(DynV('activity'))) if f == 'activity' else ArcV(Cell(DynV('transport'))) if f == 'transport'
                                 else ArcV(Cell(Opaque('extras'))) if f == 'extras' else Opaque(f) for f in po], 'domain::Problem')
        holder.update(nodes=nodes, demands=demands, vc=vc)
        return eng.exec_fn(st, fn, [RefV(Cell(problem), 0), RefV(Cell(route), 0), RefV(Cell(Opaque('coord_index')), 0), RefV(Cell(Opaque('reserved')), 0)])

    paths = eng.explore(body, max_paths=6000)
    res.paths = len(paths)
    res.functions |= eng.functions_used
    saw = 0
    for st, out in paths:
        nodes, demands, vc = holder['nodes'], holder['demands'], holder['vc']
        legs = [(env.Dur(a['loc'].t, b['loc'].t), env.Dist(a['loc'].t, b['loc'].t)) for a, b in zip(nodes, nodes[1:])]
        dom = [z3.And(d >= 0, d <= env.bound, s >= 0, s <= env.bound) for d, s in legs]
        if out is None:
            if not no_panic(ctx, res, env, st, dom, what=name):
                break
            continue
        F = lambda agg, ty, f: env.field(agg, ty, f)
        stat = F(out, 'model::Tour', 'statistic')
        times = F(stat, 'model::Statistic', 'times')
        waits = [z3.If(n['tws'].v > n['arr'].v, n['tws'].v - n['arr'].v, 0) for n in nodes[1:]]
        serving = sum([n['dur'].v for n in nodes[1:] if n.get('kind') != 'break'], z3.IntVal(0))
        breaks = sum([n['dur'].v for n in nodes[1:] if n.get('kind') == 'break'], z3.IntVal(0))
        total_dist = sum([s for _, s in legs], z3.IntVal(0))
        total_drive = sum([d for d, _ in legs], z3.IntVal(0))
        cost = (vc['fixed'].v + vc['per_distance'].v * total_dist + vc['per_driving_time'].v * total_drive
                + vc['per_service_time'].v * (serving + breaks) + vc['per_waiting_time'].v * sum(waits, z3.IntVal(0)))
        claims = [
            F(stat, 'model::Statistic', 'distance').t == total_dist,
            F(stat, 'model::Statistic', 'duration').t == nodes[-1]['dep'].v - nodes[0]['dep'].v,
            F(times, 'model::Timing', 'driving').t == total_drive,
            F(times, 'model::Timing', 'serving').t == serving,
            F(times, 'model::Timing', 'break_time').t == breaks,
            F(times, 'model::Timing', 'waiting').t == sum(waits, z3.IntVal(0)),
            F(times, 'model::Timing', 'commuting').t == 0, F(times, 'model::Timing', 'parking').t == 0,
            z3.Not(F(stat, 'model::Statistic', 'cost').m), F(stat, 'model::Statistic', 'cost').v == cost,
            # duration = driving + serving + break + waiting (the split is complete)
            F(stat, 'model::Statistic', 'duration').t == total_drive + serving + breaks + sum(waits, z3.IntVal(0)),
        ]
        stops = F(out, 'model::Tour', 'stops').items
        if len(stops) != k + 2:
            res.status, res.detail = 'violated', f'{name}: {len(stops)} stops for {k + 2} pairwise different locations'
            break
        # loads: initial = sum of static deliveries; then per activity; distances cumulative
        for d in range(dims):
            cur = sum([deli[d].t for kind, _, deli in demands if kind == 'delivery'], z3.IntVal(0))
            cum = z3.IntVal(0)
            for si, stop in enumerate(stops):
                point = stop.payload[0][0]
                if si > 0:
                    cum = cum + legs[si - 1][1]
                    if si <= k:
                        kind, pick, deli = demands[si - 1]
                        cur = cur + (pick[d].t if kind == 'pickup' else 0) - (deli[d].t if kind == 'delivery' else 0)
                load = F(point, 'model::PointStop', 'load').items
                if si == k + 1:
                    # arrival: the code reports zero minus nothing for the arrival itself (static pickups are dropped at the end)
                    claims.append(load[d].t == 0)
                else:
                    if len(load) <= d:
                        res.status, res.detail = 'violated', f'{name}: stop {si} reports {len(load)} load dimensions'
                        break
                    claims.append(load[d].t == cur)
                if d == 0:
                    claims.append(F(point, 'model::PointStop', 'distance').t == cum)
                    tm = F(point, 'model::PointStop', 'time')
                    claims.append(F(tm, 'model::Schedule', 'arrival').fields[0].v == nodes[si]['arr'].v)
                    claims.append(F(tm, 'model::Schedule', 'departure').fields[0].v == nodes[si]['dep'].v)
        if res.status != 'holds':
            break
        if not decide_claim(ctx, res, env, st, z3.And(*claims), dom, what=f'{name}: reported statistic, loads, distances, times == recomputation'):
            if res.status == 'violated' and res.model is not None and 'break' not in kinds and rates[2] == rates[3] == rates[4]:
                res.case = writer_case(res.model, env, nodes, demands, rates, dims)
            break
        if not no_panic(ctx, res, env, st, dom, what=name):
            break
        saw += int(witness(ctx, res, env, st, z3.And(*[w > 0 for w in waits[:1]]) if k else z3.BoolVal(True), dom))
    if res.status == 'holds':
        res.witnesses = saw
        if saw == 0:
            res.status, res.detail = 'inconclusive', 'vacuous'
    res.time = time.time() - t0
    return res


def rfc3339(t):
    import datetime
    return datetime.datetime.fromtimestamp(int(t), datetime.timezone.utc).strftime('%Y-%m-%dT%H:%M:%SZ')


def writer_case(m, env, nodes, demands, rates, dims):
    """Pragmatic problem + matrix JSON (index locations = position in the tour) and the visiting order, from a solver model."""
    ev = lambda t: m.eval(t, model_completion=True).as_long()
    n = len(nodes)
    far = rfc3339(30 * 86400)
    dur = [[0 if i == j else ev(env.Dur(nodes[i]['loc'].t, nodes[j]['loc'].t)) for j in range(n)] for i in range(n)]
    dist = [[0 if i == j else ev(env.Dist(nodes[i]['loc'].t, nodes[j]['loc'].t)) for j in range(n)] for i in range(n)]
    jobs, order, ref = [], [], []
    for i, (node, (kind, pick, deli)) in enumerate(zip(nodes[1:-1], demands), start=1):
        task = {'places': [{'location': {'index': i}, 'duration': float(ev(node['dur'].v)), 'times': [[rfc3339(ev(node['tws'].v)), far]]}]}
        amounts = [ev(x.t) for x in (pick if kind == 'pickup' else deli)]
        if kind in ('pickup', 'delivery'):
            task['demand'] = amounts
        key = {'pickup': 'pickups', 'delivery': 'deliveries', 'service': 'services'}[kind]
        jobs.append({'id': f'job{i}', key: [task]})
        order.append(f'job{i}')
        ref.append({'kind': kind, 'dur': ev(node['dur'].v), 'tws': ev(node['tws'].v), 'amounts': amounts})
    dep0 = ev(nodes[0]['dep'].v)
    problem = {'plan': {'jobs': jobs},
               'fleet': {'vehicles': [{'typeId': 'type1', 'vehicleIds': ['v1'], 'profile': {'matrix': 'car'},
                                       'costs': {'fixed': float(rates[0]), 'distance': float(rates[1]), 'time': float(rates[2])},
                                       'shifts': [{'start': {'earliest': rfc3339(dep0), 'location': {'index': 0}},
                                                   'end': {'latest': far, 'location': {'index': n - 1}}}],
                                       'capacity': [1000000] * dims}],
                         'profiles': [{'name': 'car'}]}}
    matrix = {'profile': 'car', 'travelTimes': [x for row in dur for x in row], 'distances': [x for row in dist for x in row]}
    return {'kind': 'writer_tour', 'problem': problem, 'matrix': matrix, 'order': order, 'dep0': dep0, 'jobs_ref': ref, 'dur': dur, 'dist': dist,
            'rates': list(rates), 'dims': dims}


def ob_statistic_sum(ctx):
    """C03: "the overall statistic is the sum of the tours": the fold step of `create_solution` is `acc + tour.statistic`
    with `<Statistic as Add>::add` (real MIR): every component of the result is the sum of the two components."""
    name = 'statistic_sum'
    res = Result(name)
    res.bounds = 'two symbolic statistics (all components integer-valued in [0,2^24])'
    t0 = time.time()
    fns = ctx.prog.find_method('Statistic', 'add', trait='Add')
    if len(fns) != 1:
        raise Inconclusive('<Statistic as Add>::add not found')
    env = drivers.Env(ctx.prog, ctx.layout, 24)
    eng, _ = ctx.engines(env)
    keys = ('driving', 'serving', 'waiting', 'break_time', 'commuting', 'parking')
    holder = {}

    def body(st):
        env.assumptions.clear()
        def stat(p):
            t = {k: env.sym_i(f'{p}_{k}', 0, 2 ** 24, 'i64') for k in keys + ('distance', 'duration')}
            c = env.sym_f(f'{p}_cost', 0, 2 ** 24)
            holder[p] = (t, c)
            return env.struct('model::Statistic', cost=c, distance=t['distance'], duration=t['duration'], times=env.struct('model::Timing', **{k: t[k] for k in keys}))
        return eng.exec_fn(st, fns[0], [stat('a'), stat('b')])

    paths = eng.explore(body)
    res.paths = len(paths)
    res.functions |= eng.functions_used
    for st, out in paths:
        if out is None:
            if not no_panic(ctx, res, env, st, what=name):
                break
            continue
        (ta, ca), (tb, cb) = holder['a'], holder['b']
        F = env.field
        times = F(out, 'model::Statistic', 'times')
        claims = [F(out, 'model::Statistic', 'cost').v == ca.v + cb.v, F(out, 'model::Statistic', 'distance').t == ta['distance'].t + tb['distance'].t,
                  F(out, 'model::Statistic', 'duration').t == ta['duration'].t + tb['duration'].t]
        claims += [F(times, 'model::Timing', k).t == ta[k].t + tb[k].t for k in keys]
        if not decide_claim(ctx, res, env, st, z3.And(*claims), what=f'{name}: component-wise sum'):
            break
        if not no_panic(ctx, res, env, st, what=name):
            break
        res.witnesses += int(witness(ctx, res, env, st, ta['waiting'].t > 0))
    if res.status == 'holds' and res.witnesses == 0:
        res.status, res.detail = 'inconclusive', 'vacuous'
    res.time = time.time() - t0
    return res


# ---------------------------------------------------------------------------------------------------------------------
# C10: job rules E1101, E1102, E1105, E1106, E1107 and vehicle rule E1306 (numeric / structural kernels of the validator)

JOB_TEMPLATES = {
    # kind -> number of tasks (None = the list is absent, 0 = empty list)
    'pd': {'pickups': 2, 'deliveries': 1, 'replacements': None, 'services': None},
    'mixed': {'pickups': None, 'deliveries': 1, 'replacements': 1, 'services': 1},
    'empty': {'pickups': None, 'deliveries': 0, 'replacements': None, 'services': 0},
    'p-only': {'pickups': 1, 'deliveries': 0, 'replacements': None, 'services': None},
}
JOB_RULES = (('check_e1101_correct_job_types_demand', 'E1101'), ('check_e1102_multiple_pickups_deliveries_demand', 'E1102'),
             ('check_e1105_empty_jobs', 'E1105'), ('check_e1106_negative_duration', 'E1106'), ('check_e1107_negative_demand', 'E1107'))


def ob_job_rules(ctx, template, dims=1):
    """C10: the job rules of the validator (real MIR of check_e1101/02/05/06/07, `ValidationContext::{jobs,tasks}`,
    `MultiDimLoad::{new,sum,sub,ne}` from vrp-core) on one job of the given task layout with symbolic contents - demand
    present or absent per task, every amount and every duration of any sign: each rule returns an error exactly when the
    documented rule is broken, and the error carries the rule's own code."""
    shape = JOB_TEMPLATES[template]
    name = f'job_rules[{template},dims={dims}]'
    res = Result(name)
    res.bounds = (f'one job; tasks per list {shape} (None = list absent); one place per task; demand per task: absent or {dims} amounts in [-2^14,2^14]; '
                  f'durations integer-valued in [-2^16,2^16]; rules E1101 E1102 E1105 E1106 E1107')
    t0 = time.time()
    fns = {}
    for fname, code in JOB_RULES:
        fns[code] = ctx.prog.find_free(fname)

    class Env(drivers.Env):
        def override(self, engine, st, callee, args, dest_ty):
            base = callee.split('::<')[0]
            if 'core::fmt::rt::' in callee or 'fmt::Arguments' in callee or callee.startswith('Arguments::'):
                return Opaque('fmt argument')      # message formatting is not the subject (empty stub)
            if 'fmt::format' in callee or ']>::join' in callee or 'format_inner' in callee or callee in ('format', 'std::fmt::format', 'alloc::fmt::format'):
                return Opaque('"formatted text"')
            return super().override(engine, st, callee, args, dest_ty)

        def default_of(self, engine, ty):
            base = re.sub(r'<.*$', '', ty).split('::')[-1]
            if base == 'MultiDimLoad':
                return self.struct('load::MultiDimLoad', load=Agg('array', [IV(0, 'i32') for _ in range(8)], '[i32; 8]'), size=IV(0))
            return super().default_of(engine, ty)

    for code, fn in fns.items():
        env = Env(ctx.prog, ctx.layout, 16)
        eng, _ = ctx.engines(env)
        holder = {}

        def body(st, env=env, eng=eng, fn=fn, holder=holder):
            env.assumptions.clear()
            tasks = {}
            fields = {}
            for lst, n in shape.items():
                if n is None:
                    fields[lst] = mk_option(False, ty='Option<Vec<JobTask>>')
                    tasks[lst] = []
                    continue
                items, info = [], []
                for i in range(n):
                    has = z3.Bool(f'{lst}{i}_has_demand')
                    amounts = [env.sym_i(f'{lst}{i}_amount{d}', -2 ** 14, 2 ** 14, 'i32') for d in range(dims)]
                    dur = env.sym_f(f'{lst}{i}_duration', -2 ** 16, 2 ** 16)
                    place = env.struct('problem::model::JobPlace', location=Opaque('location'), duration=dur, times=mk_option(False, ty='Option<Vec<Vec<String>>>'),
                                       tag=mk_option(False, ty='Option<String>'))
                    items.append(env.struct('problem::model::JobTask', places=VecV([place]), demand=mk_option(has, VecV(list(amounts)), ty='Option<Vec<i32>>'),
                                            order=mk_option(False, ty='Option<i32>')))
                    info.append((has, amounts, dur))
                fields[lst] = mk_option(True, VecV(items), ty='Option<Vec<JobTask>>')
                tasks[lst] = info
            none = lambda ty: mk_option(False, ty=ty)
            job = env.struct('problem::model::Job', id=Opaque('"job1"'), skills=none('Option<JobSkills>'), value=none('Option<f64>'), group=none('Option<String>'),
                             compatibility=none('Option<String>'), **fields)
            plan_ = env.struct('problem::model::Plan', jobs=VecV([job]), relations=none('Option<Vec<Relation>>'), clustering=none('Option<Clustering>'))
            problem = env.struct('problem::model::Problem', plan=plan_, fleet=Opaque('fleet'), objectives=none('Option<Vec<Objective>>'))
            vctx = env.struct('validation::ValidationContext', problem=RefV(Cell(problem), 0), matrices=none('Option<&Vec<Matrix>>'), coord_index=RefV(Cell(Opaque('coord_index')), 0),
                              job_index=Opaque('job_index'))
            holder['tasks'] = tasks
            return eng.exec_fn(st, fn, [RefV(Cell(vctx), 0)])

        paths = eng.explore(body, max_paths=6000)
        res.paths += len(paths)
        res.functions |= eng.functions_used
        saw_ok = saw_err = False
        for st, out in paths:
            if out is None:
                if not no_panic(ctx, res, env, st, what=f'{name} {code}'):
                    break
                continue
            tasks = holder['tasks']
            every = [t for lst in tasks.values() for t in lst]
            need = [t for lst in ('pickups', 'deliveries', 'replacements') for t in tasks[lst]]
            if code == 'E1101':
                broken = z3.Or(*([z3.Not(h) for h, _, _ in need] + [h for h, _, _ in tasks['services']] + [z3.BoolVal(False)]))
            elif code == 'E1102':
                if tasks['pickups'] and tasks['deliveries']:
                    diff = []
                    for d in range(dims):
                        sp = sum([z3.If(h, a[d].t, 0) for h, a, _ in tasks['pickups']], z3.IntVal(0))
                        sd = sum([z3.If(h, a[d].t, 0) for h, a, _ in tasks['deliveries']], z3.IntVal(0))
                        diff.append(sp != sd)
                    broken = z3.Or(*diff)
                else:
                    broken = z3.BoolVal(False)
            elif code == 'E1105':
                broken = z3.BoolVal(len(every) == 0)
            elif code == 'E1106':
                broken = z3.Or(*([dur.v < 0 for _, _, dur in every] + [z3.BoolVal(False)]))
            else:
                broken = z3.Or(*([z3.And(h, a[d].t < 0) for h, a, _ in every for d in range(dims)] + [z3.BoolVal(False)]))
            is_err = zs(out.discr == 1)
            claim = is_err == broken
            if out.variant() != 0 and 1 in out.payload:
                err = out.payload[1][0]
                got = env.field(err, 'format::FormatError', 'code')
                if not (isinstance(got, Opaque) and got.name == f'"{code}"'):
                    res.status, res.detail = 'violated', f'{name}: rule {code} reports code {got!r}'
                    break
            if not decide_claim(ctx, res, env, st, claim, what=f'{name}: {code} reported <=> documented rule broken'):
                if res.status == 'violated' and res.model is not None:
                    m = res.model
                    doc = {'id': 'job1'}
                    for lst, info in tasks.items():
                        if shape[lst] is None:
                            continue
                        doc[lst] = []
                        for h, a, dur in info:
                            t = {'places': [{'location': {'index': 0}, 'duration': float(_ev_int(m, dur.v))}]}
                            if z3.is_true(m.eval(h, model_completion=True)):
                                t['demand'] = [_ev_int(m, x.t) for x in a]
                            doc[lst].append(t)
                    res.case = {'kind': 'job_rules', 'job': doc, 'rule': code, 'dims': dims, 'problem': rules_problem(doc, dims),
                                'matrix': {'profile': 'car', 'travelTimes': [0], 'distances': [0]}}
                break
            if not no_panic(ctx, res, env, st, what=f'{name} {code}'):
                break
            saw_ok = saw_ok or witness(ctx, res, env, st, z3.Not(is_err))
            saw_err = saw_err or witness(ctx, res, env, st, is_err)
        if res.status != 'holds':
            break
        res.witnesses += int(saw_ok) + int(saw_err)
        if not (saw_ok or saw_err):
            res.status, res.detail = 'inconclusive', f'vacuous for {code}'
            break
    res.time = time.time() - t0
    return res


def rules_problem(job, dims, costs=None):
    far = rfc3339(30 * 86400)
    return {'plan': {'jobs': [job]},
            'fleet': {'vehicles': [{'typeId': 'type1', 'vehicleIds': ['v1'], 'profile': {'matrix': 'car'}, 'costs': costs or {'fixed': 1.0, 'distance': 1.0, 'time': 1.0},
                                    'shifts': [{'start': {'earliest': rfc3339(0), 'location': {'index': 0}}, 'end': {'latest': far, 'location': {'index': 0}}}],
                                    'capacity': [10] * dims}],
                      'profiles': [{'name': 'car'}]}}
